#!/usr/bin/env python3
"""Run the registered quick checks against every seeded regression under seeded/<name>/patch.diff.

For each: `git -C /repo apply patch.diff`, run `./check <prop> quick` (and with --all every other property's quick
check too), undo with `git -C /repo checkout -- .`. /repo must be clean before and is clean after. Evidence and replays
of these meta-runs go to /var/tmp so that /verif/evidence always describes the unchanged tree. Results:
seeded/<name>/result.json and the summary seeded/SUMMARY.json.
usage: tools/seeded.py [--all] [--tier thorough] [name ...]"""
import glob, json, os, subprocess, sys
ROOT = os.path.dirname(os.path.dirname(os.path.abspath(__file__)))
args = sys.argv[1:]
run_all = "--all" in args
tier = "thorough" if "--thorough" in args else "quick"
seeds = [0]
for a in args:
    if a.startswith("--seeds="):
        seeds = [int(x) for x in a.split("=")[1].split(",")]
names = [a for a in args if not a.startswith("--")]
PROPS = [f"C{i:02d}" for i in range(1, 21)]


def sh(*cmd, **kw):
    return subprocess.run(list(cmd), capture_output=True, text=True, **kw)


if sh("git", "-C", "/repo", "status", "--porcelain", "--untracked-files=no").stdout.strip():
    sys.exit("/repo has uncommitted changes; refusing to run")
summary = []
for d in sorted(glob.glob(os.path.join(ROOT, "seeded", "*", "patch.diff"))):
    name = os.path.basename(os.path.dirname(d))
    if names and name not in names:
        continue
    meta = json.load(open(os.path.join(os.path.dirname(d), "meta.json")))
    prop = meta["property"]
    a = sh("git", "-C", "/repo", "apply", d)
    if a.returncode != 0:
        summary.append({"name": name, "property": prop, "applied": False, "note": a.stderr[-300:]})
        print(name, "does not apply:", a.stderr[-200:])
        continue
    try:
        res = {}
        for p in ([prop] + [q for q in PROPS if q != prop] if run_all else [prop]):
            env = dict(os.environ, VERIF_WORKERS="8", VERIF_SHRINK_S="10", VERIF_EVIDENCE_DIR="/var/tmp/hv/meta-evidence",
                       VERIF_REPLAY_DIR=f"/var/tmp/hv/meta-replays/{name}")
            q = sh("./check", p, tier, cwd=ROOT, env=env)
            lines = (q.stdout + q.stderr).splitlines()
            vl = [l for l in lines if l.startswith("VIOLATION")]
            msg = None
            if vl and "replay=" in vl[0]:
                rp = vl[0].split("replay=")[1].split()[0]
                try:
                    r = json.load(open(rp))
                    msg = ((r.get("violations") or []) + (r.get("diffs") or []) + (r.get("broken_obligations") or [])
                           + [str((r.get("first_disagreements") or [{}])[0].get("diffs"))])[0]
                except Exception:
                    pass
            res[p] = {"exit": q.returncode, "violation_line": vl[0] if vl else None, "first_message": (msg or "")[:300],
                      "done": [l for l in lines if l.startswith("[done]")][-1:]}
            print(name, p, "exit", q.returncode, (msg or "")[:140], flush=True)
            per_seed = {}
            for sd in seeds:
                if sd == 0:
                    per_seed["0"] = res[prop]["exit"]
                    continue
                env = dict(os.environ, VERIF_SEED=str(sd), VERIF_WORKERS="8", VERIF_SHRINK_S="3", VERIF_EVIDENCE_DIR="/var/tmp/hv/meta-evidence",
                           VERIF_REPLAY_DIR=f"/var/tmp/hv/meta-replays/{name}")
                per_seed[str(sd)] = sh("./check", prop, tier, cwd=ROOT, env=env).returncode
            res[prop]["exit_per_seed"] = per_seed
    finally:
        sh("git", "-C", "/repo", "checkout", "--", ".")
    out = {"name": name, "property": prop, "applied": True, "tier": tier, "target_caught": res[prop]["exit"] == 1,
           "target_exit_per_seed": res[prop].get("exit_per_seed"),
           "caught_by": sorted(p for p, r in res.items() if r["exit"] == 1), "checks": res}
    json.dump(out, open(os.path.join(os.path.dirname(d), "result.json"), "w"), indent=1)
    summary.append({k: out[k] for k in ("name", "property", "applied", "target_caught", "caught_by")})
assert not sh("git", "-C", "/repo", "status", "--porcelain", "--untracked-files=no").stdout.strip()
if not names:
    json.dump(summary, open(os.path.join(ROOT, "seeded", "SUMMARY.json"), "w"), indent=1)
print(json.dumps(summary, indent=1))
