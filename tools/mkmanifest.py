#!/usr/bin/env python3
"""Regenerates MANIFEST.json from the table below (kept in one place so it is always valid)."""
import json, os
ROOT = os.path.dirname(os.path.dirname(os.path.abspath(__file__)))
props = [json.loads(l) for l in open(os.path.join(ROOT, "properties.jsonl"))]
ids = [p["id"] for p in props]

TB = ("Trusted: Lean 4.33.0 kernel; axioms propext/Classical.choice/Quot.sound only (printed per theorem into the evidence); "
      "the Lean compiler for the driver; the Python correspondence harness (generator, adapters, canonicalisation); "
      "CPython/pandas/numpy/networkx semantics are modelled, not verified. ")

CLAIMED = {
  "C04": dict(
    text="Lean 4 theorem C04_temporal_partition: for every non-empty list of non-negative device intervals and every start-sorted permutation of it, the merge routine's numbers equal the unit-cell measures of the span/idle/compute/remainder and sum exactly to kernel_time. Tied to the code by a differential run of get_temporal_breakdown against the executable model, plus Spec.C04.check and an independent Python oracle evaluated on the implementation's own output.",
    note=TB + "Percent columns compared within 0.006 (float rounding not modelled). Kernel-type regexes modelled as prefix/infix tests and compared against Python re on every generated name.",
    technique="Lean 4 proof (induction over the sorted merge fold; unit-cell measure) + model/implementation correspondence",
    design="7/C04"),
}

checks = []
for pid in ids:
    if pid in CLAIMED:
        c = CLAIMED[pid]
        checks.append({
            "property_id": pid,
            "quick_cmd": f"./check {pid} quick",
            "thorough_cmd": f"./check {pid} thorough",
            "evidence_file": f"/verif/evidence/{pid}.json",
            "replay_cmd_template": "./check --replay {path}",
            "engine": "lean4-proof+correspondence",
            "level_claimed": {"category": "proof", "text": c["text"], "design_ref": c["design"]},
            "level_note": c["note"],
            "technique": c["technique"],
        })
na = [{"property_id": pid, "reason": "not yet covered by the machinery in this commit (model/proof/correspondence under construction; see DESIGN.md section 9 staging)"}
      for pid in ids if pid not in CLAIMED]
m = {
  "version": 1,
  "setup_cmd": "cd /verif/lean && lake build HtaVerif htadrv",
  "hooks": {"guard": "HTA_VERIF_HOOKS", "enable": "checks import HTA from /repo's working tree with HTA_VERIF_HOOKS=1 (no hook code exists in /repo; the guard is reserved)",
            "baseline_off_cmd": "/verif/tools/baseline.sh", "source_commits": [], "add_only": True},
  "engines": [{"name": "lean4-proof+correspondence", "path": "/verif/lean + /verif/harness",
               "serves_properties": sorted(CLAIMED), "kind_free_text": "Lean 4 model/spec/proofs (lake), compiled model driver htadrv, Python differential harness against the real HTA"}],
  "checks": checks,
  "notes": "All checks: ./check <Cxx> quick|thorough. Exit 0 ok, 1 VIOLATION line, 2 internal error. VERIF_SEED selects the generated inputs.",
  "not_applicable": na,
}
json.dump(m, open(os.path.join(ROOT, "MANIFEST.json"), "w"), indent=1)
print("claimed:", sorted(CLAIMED), "unclaimed:", len(na))
