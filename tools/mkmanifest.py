#!/usr/bin/env python3
"""Regenerates MANIFEST.json from the table below (kept in one place so it is always valid)."""
import json, os
ROOT = os.path.dirname(os.path.dirname(os.path.abspath(__file__)))
props = [json.loads(l) for l in open(os.path.join(ROOT, "properties.jsonl"))]
ids = [p["id"] for p in props]

TB = ("Trusted: Lean 4.33.0 kernel; axioms propext/Classical.choice/Quot.sound only (printed per theorem into the evidence); "
      "the Lean compiler for the driver; the Python correspondence harness (generator, adapters, canonicalisation); "
      "CPython/pandas/numpy/networkx semantics are modelled, not verified. ")

CLAIMED = {
  "C01": dict(
    text="Lean 4 theorems over a model of parsing and alignment in exact decimal arithmetic: C01_parse_rows_exact (a row exists iff the entry at that position is complete; fields are the entry's), C01_parse_idx_increasing (one row per entry), C01_align_uniform / C01_align_min_zero (one constant for all ranks, earliest event at 0, nothing else changes), C01_end_eq_ts_plus_dur, C01_round_inward / _preserves_containment / _preserves_disjoint / _integer (inward rounding). Tied to Trace.parse_traces and TraceAnalysis loading (json / json.gz, sequential / pooled) by a differential run and an independent Python oracle on the file's events.",
    note=TB + "Fractional timestamps are generated as dyadic rationals so that the double addition ts+dur is exact; a 3-decimal stream is compared with one unit of tolerance where the exact sum is an integer. IEEE addition itself is not modelled: partial for the rounding clause. JSON/gzip decoding trusted.",
    technique="Lean 4 proof (list induction, omega on /1000 rounding) + model/implementation correspondence",
    design="7/C01"),
  "C02": dict(
    text="Lean 4 theorems: C02_link_spec (under unique ids and at most one host-side / one device-side event per correlation id, every link is the id of the unique opposite-side event with the same correlation id, mutually, or the sentinel min(correlation,0)), C02_link_sound_unconditional (without any hypothesis a link written by the merge points to an opposite-side event with the same correlation). The model mirrors the merge and the two scatter writes (later writes win). Tied to index_correlation of both the parse-only and the loaded frame by a differential run and a Python oracle.",
    note=TB + "Sync records on stream -1 are device-side by name, as in the code.",
    technique="Lean 4 proof (find?/membership reasoning over the merge pairs) + model/implementation correspondence",
    design="7/C02"),
  "C12": dict(
    text="Lean 4 theorems: C12_iter_host_inside / _outside with disjoint_steps_unique (host events get the number of the step whose half-open span contains their start, -1 otherwise), C12_iter_device / _unlinked (device activities inherit through the link), C12_trim_keeps_exactly with C12_kept_host_rule (kept = host events before the last step's start, or up to its end when requested, plus device activities whose correlation is that of a kept host event), C12_trim_nodup, C12_trim_noop_lt2, C12_trim_no_steps. Tied to the iteration column, the loaded id set, get_iterations and get_profiler_steps for both flag values by a differential run and a Python oracle; boundary events at step starts/ends are injected.",
    note=TB + "Hypothesis made explicit: every rank carries the same ProfilerStep names (the code counts steps in the global symbol table); C12_trim_no_steps states what happens otherwise.",
    technique="Lean 4 proof (fold invariants, membership/Nodup of the trimming join) + model/implementation correspondence",
    design="7/C12"),
  "C16": dict(
    text="Lean 4 theorems over a model composed from the C13 call-graph model: C16_roots_rule with minL_is_min (instances = matching rows at the shallowest depth at which the name occurs, with at least min_pattern_len kernels), C16_kernels_in_start_order (an instance's pattern is its name followed by the names of all device activities beneath it, sorted by start), C16_pattern_counts_exact (one row per distinct pattern; count = number of occurrences; CPU and GPU durations are sums over its instances), C16_order_desc (rows by descending count; ordering is a permutation). Tied to get_frequent_cuda_kernel_sequences(operator, out_dir, min_pattern_len, rank, top_k) for operator names and substrings occurring in the trace by a differential run and an independent Python oracle that rebuilds the tree from time containment and links.",
    note=TB + "Known finding host-tid-1-or-2 (see C13). Conditional on C03/C13 (tree) and C02 (links). Kernels of one instance starting at the same microsecond may appear in either order; such patterns are compared with the tied names sorted. The secondary order by pattern string is Python's string order applied in the harness.",
    technique="Lean 4 proof (group-by/filter lemmas, mergeSort order lemmas) + model/implementation correspondence",
    design="7/C16"),
  "C17": dict(
    text="Lean 4 theorems: C17_rows_are_names (one row per name occurring in either trace, no others, no duplicates), C17_row_values (counts and total durations are those of the matching events; differences are test minus control), C17_classes_partition (for every row exactly one of the five ops_diff selections holds), C17_self_diff (a trace compared with itself: only unchanged, zero differences), C17_extract_exact (selection by iteration and device side is a pure filter). shorten_name is modelled and compared on every generated name. Tied to TraceDiff.compare_traces / ops_diff over rank subsets, iteration selections, device filters, long/short names, and self comparison (same object and separate objects) by a differential run and a Python oracle.",
    note=TB + "The iteration column of the parse-only frames is the model's input (C12 decides it). Row order of the table is not compared.",
    technique="Lean 4 proof (group-by as filter/sum, case analysis on counts) + model/implementation correspondence",
    design="7/C17"),
  "C18": dict(
    text="Lean 4 theorems over a model of every filter class: C18_subframe (result is a sub-list of the input rows, order and columns unchanged), C18_rowlocal_exact (each row-local filter is List.filter of its documented predicate), C18_iterIndex_rule, C18_composite_sequential / _single, C18_rowlocal_comm (intersection in any order), C18_rowlocal_idem, and C18_iterIndex_not_idempotent (a decided counterexample showing the restriction to row-local members is necessary). Tied to the real filter classes on encoded and decoded frames, with and without rank column / symbol table, single, composite, sequential and repeated application, by a differential run, a purity check (deep comparison of the input frame) and a Python oracle.",
    note=TB + "Regular-expression matching is Python's re (the model receives the set of matching strings).",
    technique="Lean 4 proof (List.filter algebra) + model/implementation correspondence",
    design="7/C18"),
  "C19": dict(
    text="Lean 4 theorems over a model of the node-link encoding networkx uses when the graph is saved (adjacency in insertion order -> node list + link list -> adjacency): C19_decode_encode (same nodes; for every node the same out-edges with the same payload in the same order), C19_decode_no_extra, C19_roundtrip_n (any number of save/restore cycles, by induction), C19_link_count. Tied to CPGraph.save / restore_cpgraph by running 1-3 real save/restore cycles per generated analysis and comparing the restored adjacency (iteration order included) with the model's decode(encode .) and, by oracle, nodes, edges with weight/type/attribution, the node maps, the critical path, its edge and event sets, the breakdown and summary with the state that was saved; the path recomputed on the restored graph must weigh the same.",
    note=TB + "Partial: pickle, the CSV text encoding, zip member naming and the fixed /tmp extraction directory are exercised by the real cycles, not modelled.",
    technique="Lean 4 proof (list induction: filter of flatMap over distinct nodes) + model/implementation correspondence on real save/restore cycles",
    design="7/C19"),
  "C20": dict(
    text="Lean 4 theorems over a list-level model of what the tool writes: C20_counters_prefix (the counters file is the source events at their positions followed by the appended events) with checkAppendOnly_sound (the checker run on the implementation's output), C20_overlay_all_kept (with all events kept the source part is exactly one entry per source position, in order, marked iff the position is critical), C20_head_mem / C20_head_in_order (with only-critical the kept entries are a sub-sequence in source order), C20_only_critical_rule, C20_marked_iff_critical, C20_flows_two_per_edge (the j-th drawn edge yields at positions 2j, 2j+1 a start and an end flow event with id j on the pid/tid of the two joined events at the node times), C20_drawn_rule, C20_overlay_shape (flow events only after the source part), C20_update_rank_only_rank (the rank update sets the rank; every other metadata field and the field order are kept). Tied to generate_trace_with_counters, overlay_critical_path_analysis (all 8 combinations of only_show_critical_events, show_all_edges and CRITICAL_PATH_SHOW_ZERO_WEIGHT_LAUNCH_EDGE per case), read_trace / write_trace / update_trace_rank and create_rank_to_trace_dict on real files in .json and .json.gz, pretty and compact, by comparing the decoded output event by event and position by position with the model's output, plus a Python oracle (source file untouched, top-level fields unchanged, the tool can read its own output by name, rank discovery = metadata rank).",
    note=TB + "Partial: JSON and gzip encoding are trusted (Python json/gzip); events are opaque ids interned by the harness; the content of counter events is C14's subject; rank discovery (a text scan) is checked by oracle only, on files whose metadata precedes the events.",
    technique="Lean 4 proof (list induction over positions; sub-sequence and membership characterisations) + model/implementation correspondence on real files",
    design="7/C20"),
  "C08": dict(
    text="Lean 4 model of the whole graph construction (window clipping, node creation, the DFS enter/exit state machine over the C03 token order with its closure variables, the kernel loop with launch-delay / kernel-kernel / Stream Sync / Context Sync edges and CUDA-event based synchronisation (launch table, cudaEventRecord -> previous launch, cudaStreamWaitEvent -> next launch, pending GPU->GPU dependencies, Event Sync edges), the weight helper, edge attribution, networkx's edge replacement) that reproduces the implementation's edge set exactly on every generated trace. Theorems: C08_nodes_two_per_event, C08_edge_weight_rule (every edge weighs the time difference of its endpoints or 0; dependency and sync edges 0), C08_callstack_edges_forward (for any time-sorted token list the DFS emits only forward edges; invariant over the closure state) with sortToks_time_sorted, C08_forward_of_descs, C08_weights_nonneg (forward + weight rule => no negative weight), C08_kernel_edge_types (launch edge: start of the linked runtime call -> start of its kernel; kernel-kernel: end of the last kernel of the stream; sync: end of a stream's last kernel -> end of the waiting host call, end of the kernel an event stands for -> end of cudaEventSynchronize, or -> start of the kernel a Stream Wait Event made wait), C08_kernel_edges_forward (for EVERY causally consistent processing order - structure Causal: work starts after its launch, stream order, blocking syncs return after the awaited work, event waits respected - every edge the kernel loop emits points forward in time; loop invariant KInv), C08_edges_join_analysed_events (both endpoints of every edge are nodes of analysed events of the window), C08_prevLaunch_spec / C08_nextLaunch_spec (what a recorded CUDA event stands for: the last launch onto its stream before the record; which kernel waits: the first launch of the calling thread onto the waiting stream after the call), C08_checkTopo_sound (a graph passing the rank certificate has no cycle). Per run, the proved checkers (topological certificate, weights, forward, types) are evaluated in Lean on the implementation's own graph, alongside full model/implementation equality and a Python oracle.",
    note=TB + "Partial: acyclicity is certified per run by the proved checker on the implementation's graph (a topological rank) rather than proved for all inputs; that the pandas sort of the kernel loop yields a causally consistent order is exercised by the correspondence, the theorem takes such an order as hypothesis; ties between host calls of different threads at one microsecond are not generated for event records / stream waits; the queue-length series (C14) and the links (C02) are inputs of the model.",
    technique="Lean 4 proof (state-machine invariants, certificate-checker soundness) + exact model/implementation graph correspondence",
    design="7/C08"),
  "C09": dict(
    text="The longest-path dynamic programme over a topological order is proved exact for every DAG: C09_dp_is_potential (for every edge list and every duplicate-free order in which each edge's source precedes its target, the computed distances are a non-negative potential bounded by best), C09_dp_bounds_all_paths (no path of the graph outweighs best), C09_dp_optimum_attained (some path weighs exactly best; at most one edge per ordered pair). So best(dp) IS the maximum path weight, and comparing the reported path's weight with it decides optimality exactly. networkx.dag_longest_path itself is validated per run against that optimum, by a checker whose soundness is proved in Lean: pathWeight_le_potential / C09_potential_bounds_all_paths (a non-negative potential with d(src)+w <= d(dst) on every edge bounds the weight of EVERY path), C09_reported_path_is_maximum (a reported path meeting the bound is a maximum-weight path), C09_path_le_makespan (with weights at most the time difference of their endpoints a path weighs at most the time from its first to its last node), C09_path_edges (one graph edge per consecutive pair of path nodes), checkPotential_sound. Per run the Lean longest-path DP over networkx's topological order produces the certificate, Lean checks it and compares the reported path's weight with the optimum, for the original graph and for re-weighted copies (the what-if workflow, judged against the weights that were assigned, so a recomputation that silently restores weights shows); the reported edge and event sets are compared with the path; an independent memoised DFS in Python cross-checks.",
    note=TB + "The optimum is a theorem about the Lean programme; networkx's own algorithm is not modelled, its answer (path and topological order) is compared with the proved optimum on every run (translation validation). The makespan clause is checked on unmodified graphs only.",
    technique="Lean 4 proof of a certificate checker (potential function / telescoping) + per-run validation of networkx's answer",
    design="7/C09"),
  "C10": dict(
    text="Lean 4 theorems over the breakdown model on top of the C08 graph model: C10_rows_one_per_critical_edge, C10_durations_sum_to_path_weight, C10_boundBy_delay / C10_boundBy_span (bound-by class from edge type and attributed event: host thread -> cpu_bound, communication kernel -> gpu_communication_bound, other device activity -> gpu_compute_bound), C10_class_sums_total (per-class sums add up to the total, so the percentages to 100), C10_attribution_recorded / C10_attribution_rule (kernel-kernel delay -> preceding kernel; span edge -> source event for a start node, destination event when both are end nodes, recorded parent otherwise). Tied to get_critical_path_breakdown, summary and get_event_attribution_for_edge (all edges, not only critical ones) by a differential run; that the attributed event of a span edge lies on the same thread/stream and covers the edge's time range is checked per run by the Python oracle. A sub-microsecond stream (HTA_DISABLE_NS_ROUNDING=1, dyadic fractional times) decides the conservation clause directly on the implementation's numbers.",
    note=TB + "Partial: the covering clause (attributed event's span contains the edge's time range) is established per run by the oracle, not by a theorem; the reported path is the implementation's (C09).",
    technique="Lean 4 proof (list/fold lemmas, case analysis) + model/implementation correspondence",
    design="7/C10"),
  "C11": dict(
    text="Lean 4 theorems over a model that keeps the list and the dictionary side by side as the class does: C11_inv_reachable (every reachable table is duplicate-free and the dictionary is exactly the inverse of the list), C11_ids_stable / C11_decode_stable (append-only: an assigned id never changes), C11_decode_encode, C11_reencode_correct (every rank's local ids re-encode to global ids that decode to the same strings), C11_global_any_order (for every permutation of the ranks' local tables the global table is a bijection on exactly the union of the vocabularies), C11_numbering_free. Tied to TraceSymbolTable by op sequences with repeats, to multi-rank parsing (sequential and pooled, with worker completion orders forced by injected delays) by the recorded sequence of local tables, and to hash-seed / pool independence by re-running a battery of eight analyses in subprocesses under other PYTHONHASHSEED values.",
    note=TB + "Partial for the scheduling clause: Pool.map's ordering guarantee is trusted, OS scheduling is not modelled, completion orders are forced for <= 3 ranks only. The manager-queue variant add_symbols_mp is checked for bijection, prefix stability and content only.",
    technique="Lean 4 proof (invariant by induction over additions; refinement of list+dict to a bijection) + model/implementation correspondence + hash-seed metamorphic run",
    design="7/C11"),
  "C03": dict(
    text="Lean 4 proof for both builders: the two Python comparators, transliterated branch for branch, are proved equal to one lexicographic key order on the domain of endpoint tokens (C03_lessThanNew_is_key_order, C03_cmpOld_is_key_order); for any properly nested family and ANY token list sorted by that order the push/pop loop with its unlabelled pop is proved correct by an invariant over prefixes (laminarity of the token order): C03_each_event_once, C03_parent_is_innermost (parent = innermost enclosing event, identical spans nest by id, touching spans are siblings, root iff none), C03_depth_counts_enclosers, C03_zero_placement, C03_zero_dur_transparent, C03_touching_not_enclosing, plus C03_run_* for the executable model. Tied to both CallStackGraph classes at unit level and to CallGraph(trace) through trace files, and to both comparator functions on all token pairs of each generated family, by a differential run and a Python oracle of the statement.",
    note=TB + "Assumes sorted() with a consistent comparator returns the list sorted by it. The order is total and consistent only after the three 'fix:' commits recorded in known_findings.txt (the pinned comparators were cyclic).",
    technique="Lean 4 proof (key-order equivalence by case analysis + omega; stack invariant by induction over the sorted token list) + model/implementation correspondence",
    design="7/C03"),
  "C04": dict(
    text="Lean 4 theorem C04_temporal_partition: for every non-empty list of non-negative device intervals and every start-sorted permutation of it, the merge routine's numbers equal the unit-cell measures of the span/idle/compute/remainder and sum exactly to kernel_time. Tied to the code by a differential run of get_temporal_breakdown against the executable model, plus Spec.C04.check and an independent Python oracle evaluated on the implementation's own output.",
    note=TB + "Percent columns must lie within half a unit of the last place (0.005) of the unrounded exact ratio; the tie rule and float rounding are not modelled. Kernel-type regexes modelled as prefix/infix tests and compared against Python re on every generated name.",
    technique="Lean 4 proof (induction over the sorted merge fold; unit-cell measure) + model/implementation correspondence",
    design="7/C04"),
  "C05": dict(
    text="Lean 4 theorems: C05_type_time_exact (for every time-sorted permutation of the per-type markers, the time reported for a non-zero type combination m equals the unit-cell measure of {t | active-type mask = m}), C05_type_total_two/three (rows add up to the measure of the union), C05_aggr (for every tie order, num_kernels and quantile cut: sums incl. 'others' conserve the total duration, at most num_kernels named rows, named rows carry exactly their kernels' sum/max/min/count). Tied to get_gpu_kernel_breakdown by a differential run (tie-insensitive for equal sums), Spec.C05.checkAggr/exactTypeTime evaluated in Lean on the implementation's output, and an independent Python oracle.",
    note=TB + "The quantile's float interpolation is recomputed with the same pandas call and passed to the model as a cut position (the theorem holds for every cut). mean compared as sum/count, percentages within rounding; stddev not compared.",
    technique="Lean 4 proof (marker sweep = unit-cell measure; list conservation lemmas) + model/implementation correspondence",
    design="7/C05"),
  "C07": dict(
    text="Lean 4 theorem C07_overlap_exact: for every start-sorted permutation of the communication/computation kernels and every time-sorted permutation of their +-1/+-2 markers, the sweep's numerator and denominator are the unit-cell measures of comm∩comp and comm, with 0 <= num <= den. Tied to get_comm_comp_overlap by a differential run; the reported percentage is checked against round(100*num/den,2) from the model, from Spec.C07.exact (cell counting in Lean) and from a Python oracle.",
    note=TB + "num and den are not exposed by the API: the comparison is on the percentage, which must lie within 0.005 of the unrounded exact ratio. den = 0 (only zero-length communication kernels) is 0/0 in the code and undefined in the statement; agreed outcome NaN.",
    technique="Lean 4 proof (marker sweep = unit-cell measure) + model/implementation correspondence",
    design="7/C07"),
  "C06": dict(
    text="Lean 4 theorems: C06_stream_order (for non-overlapping kernels, in any order sort_values(by=[ts,dur]) may return, every earlier kernel ends no later than every later one starts, so list-consecutive = stream-consecutive), C06_gaps_nonneg, C06_classify_rule (host_wait / kernel_wait / other exactly by the documented rule, with strict > and <), C06_categories_partition and C06_idle_telescopes / C06_analyze_total (categories add up to span minus busy time). Tied to get_idle_time_breakdown by a differential run over ranks, stream subsets and thresholds equal to generated gaps, plus an independent Python oracle phrased through the correlation links.",
    note=TB + "idle_time compared exactly; idle_time_ratio within 0.005 of the unrounded idle/total (tie rule and float division not modelled). The lookup of the launch call's start goes through index_correlation as in the code.",
    technique="Lean 4 proof (pairwise order argument, telescoping sum, case analysis) + model/implementation correspondence",
    design="7/C06"),
  "C13": dict(
    text="Lean 4 theorems over a model of the whole CallGraph construction (per-thread stacks via the C03 model, device children, main/backward linking, depth, height, kernel aggregation, normalisation): C13_kinfo_is_fold_over_descendants (the DFS aggregate equals the aggregate over the device activities among the descendants; mutual structural induction), C13_kernel_attributes (the five reported numbers are count / summed duration / span / earliest start / latest end, and (0,0,0,-1,-1) when there are none; earliest and latest are attained and bound all), C13_height_rule / heightL_spec / C13_childless_host_height, C13_depth_rule, C13_device_child_of_launch, C13_reparent_rule (only first-layer backward nodes within the annotation's span move, and they move beneath it). Tied to CallGraph(trace).trace_data.get_trace(rank) on traces loaded through TraceAnalysis (1-2 host threads, with/without backward annotation, several ranks) by a differential run on all eight stack columns and a Python oracle phrased through parent pointers.",
    note=TB + "Known finding host-tid-1-or-2 (known_findings.txt): a host thread whose thread id is 1 or 2 collides with the call graph's sentinel root indices; inputs with such a thread are reported as KNOWN-FINDING, not as violations. Depends on C03 (per-thread parents) and C02 (links). The bridge from the node table to the tree (mkT) is executable model code validated by the correspondence, not a theorem. Children order is not compared.",
    technique="Lean 4 proof (mutual structural induction on the call tree; fold lemmas) + model/implementation correspondence",
    design="7/C13"),
  "C14": dict(
    text="Lean 4 theorems for any marker list sorted by (ts ascending, queue descending): C14_queue_last_of_instant (after the last row of an instant the series equals launches-so-far minus starts-so-far over linked pairs), C14_queue_ends_zero, C14_queue_nonneg (no row, including transient rows inside an instant, is negative when no activity starts before its launch), C14_bw_last_of_instant / C14_bw_active_nonneg (bandwidth series = sum of bandwidths of active copies, zero-length copies widened to one unit), C14_counter_events (counter events reproduce the series at ts + min_ts). Tied to get_queue_length_time_series, get_memory_bw_time_series and generate_trace_with_counters by a differential run and a Python oracle.",
    note=TB + "Bandwidths are generated as dyadic rationals so float accumulation is exact; IEEE accumulation of arbitrary values and non-negativity of transient bandwidth rows inside an instant are exercised, not proved (partial for that clause).",
    technique="Lean 4 proof (prefix sums over a lexicographically sorted marker list; step-function lemmas) + model/implementation correspondence",
    design="7/C14"),
  "C15": dict(
    text="Lean 4 theorem C15_rows_exact: under the well-formedness hypothesis (a correlation id pairs at most one host call with one device activity) the launch-statistics rows are exactly the (selected launch call, device activity) pairs with equal correlation, each once, with the two durations and delay = max 0 (activity start - call end). Tied to get_cuda_kernel_launch_stats by a differential run (multiset of rows) and an independent Python oracle phrased through index_correlation links.",
    note=TB + "Row order is not compared.",
    technique="Lean 4 proof (relational join over lists, Nodup/pairwise) + model/implementation correspondence",
    design="7/C15"),
}

checks = []
for pid in ids:
    if pid in CLAIMED:
        c = CLAIMED[pid]
        checks.append({
            "property_id": pid,
            "quick_cmd": f"./check {pid} quick",
            "thorough_cmd": f"./check {pid} thorough",
            "evidence_file": f"/verif/evidence/{pid}.json",
            "replay_cmd_template": "./check --replay {path}",
            "engine": "lean4-proof+correspondence",
            "level_claimed": {"category": "proof", "text": c["text"], "design_ref": c["design"]},
            "level_note": c["note"],
            "technique": c["technique"],
        })
na = [{"property_id": pid, "reason": "not yet covered by the machinery in this commit (model/proof/correspondence under construction; see DESIGN.md section 9 staging)"}
      for pid in ids if pid not in CLAIMED]
m = {
  "version": 1,
  "setup_cmd": "cd /verif/lean && lake build HtaVerif htadrv",
  "hooks": {"guard": "HTA_VERIF_HOOKS", "enable": "checks import HTA from /repo's working tree with HTA_VERIF_HOOKS=1 (no hook code exists in /repo; the guard is reserved)",
            "baseline_off_cmd": "/verif/tools/baseline.sh", "source_commits": [], "add_only": True},
  "engines": [{"name": "lean4-proof+correspondence", "path": "/verif/lean + /verif/harness",
               "serves_properties": sorted(CLAIMED), "kind_free_text": "Lean 4 model/spec/proofs (lake), compiled model driver htadrv, Python differential harness against the real HTA"}],
  "checks": checks,
  "notes": "All checks: ./check <Cxx> quick|thorough. Exit 0 ok, 1 VIOLATION line, 2 internal error. VERIF_SEED selects the generated inputs.",
  "not_applicable": na,
}
json.dump(m, open(os.path.join(ROOT, "MANIFEST.json"), "w"), indent=1)
print("claimed:", sorted(CLAIMED), "unclaimed:", len(na))
