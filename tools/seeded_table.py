#!/usr/bin/env python3
"""Developer aid: print the DESIGN.md table rows for the seeded patches of one round (usage: tools/seeded_table.py agent6)."""
import glob, json, os, sys
ROOT = os.path.dirname(os.path.dirname(os.path.abspath(__file__)))
for d in sorted(glob.glob(os.path.join(ROOT, "seeded", f"C*-{sys.argv[1]}"))):
    m = json.load(open(d + "/meta.json"))
    try:
        r = json.load(open(d + "/result.json"))
        prop = r["property"]
        msg = (r["checks"][prop].get("first_message") or "")[:100].replace("|", "/").replace("\n", " ")
        caught = ",".join(r.get("caught_by") or []) or "—"
    except Exception:  # noqa: BLE001
        msg, caught = "", "?"
    print(f"| {os.path.basename(d)} | {m['summary'][:230].replace('|', '/').replace(chr(10), ' ')} | {m['manifests_when'][:170].replace('|', '/').replace(chr(10), ' ')} | {caught} | `{msg}` |")
