#!/usr/bin/env python3
"""Developer aid: run N cases of a property in-process and print the distinct violation / disagreement messages."""
import collections, json, subprocess, sys, os, re
prop, n = sys.argv[1], int(sys.argv[2]) if len(sys.argv) > 2 else 100
seed = int(os.environ.get("VERIF_SEED", "0"))
W = 6
os.makedirs("/var/tmp/hv", exist_ok=True)
procs = []
for i in range(W):
    out = f"/var/tmp/hv/viols_{prop}_{i}.json"
    procs.append((subprocess.Popen([sys.executable, "-m", "harness.runner", "--worker", prop, "quick", str(i), str(W), str(seed), str(n), out, "0"], cwd="/verif"), out))
cnt = collections.Counter(); ex = {}
for p, out in procs:
    p.wait()
    for r in json.load(open(out)):
        if r["status"] in ("ok", "skipped"):
            continue
        msgs = r.get("violations") or r.get("diffs") or [r.get("error", "?")]
        key = r["status"] + ": " + re.sub(r"\d+", "N", msgs[0])[:160]
        cnt[key] += 1
        ex.setdefault(key, (r.get("no"), msgs[:2], (r.get("case") or {}).get("params"), r.get("tb", "")[-600:]))
for k, v in cnt.most_common():
    print(v, k, "\n    e.g.", ex[k])
