#!/usr/bin/env python3
"""Developer aid (not run by any registered command): which lines of the anchored HTA code do the generated cases of a
property reach? Runs N generated cases of each named property in-process under coverage.py and prints, per anchored file,
the lines never executed. usage: tools/coverage_probe.py N C01 C02 ...   (output data in /var/tmp/hv/cov)"""
import importlib, json, os, sys
import coverage
ROOT = os.path.dirname(os.path.dirname(os.path.abspath(__file__)))
sys.path.insert(0, ROOT)
repo = os.environ.get("HTA_REPO", "/repo")
n = int(sys.argv[1])
props = sys.argv[2:]
anch = {json.loads(l)["id"]: json.loads(l)["anchors"]["files"] for l in open(os.path.join(ROOT, "properties.jsonl"))}
for prop in props:
    cov = coverage.Coverage(data_file=f"/var/tmp/hv/cov/{prop}.cov", include=[repo + "/hta/*"], branch=False)
    cov.start()
    from harness import runner, leandrv
    mod = importlib.import_module(f"harness.props.{prop.lower()}")
    drv = leandrv.Driver()
    seed = int(os.environ.get("VERIF_SEED", "0"))
    bad = 0
    for no in range(n):
        try:
            case = mod.gen(runner.case_rng(seed, prop, no), "quick", no)
            case = runner.norm_case(case)
            runner.run_one(mod, drv, case)
        except Exception as e:  # noqa: BLE001
            bad += 1
    cov.stop()
    cov.save()
    print(f"== {prop}: {n} cases, {bad} errors")
    for f in anch[prop]:
        path = os.path.join(repo, f)
        try:
            _, stmts, _, missing, _ = cov.analysis2(path)
        except Exception as e:  # noqa: BLE001
            print("  ", f, "not measured", e)
            continue
        print(f"  {f}: {len(stmts) - len(missing)}/{len(stmts)} statements; missing: {coverage.misc.format_lines if False else ''}", end="")
        # compress
        out, start, prev = [], None, None
        for m in missing:
            if start is None:
                start = prev = m
            elif m == prev + 1 or all(x not in stmts for x in range(prev + 1, m)):
                prev = m
            else:
                out.append((start, prev)); start = prev = m
        if start is not None:
            out.append((start, prev))
        print(" ".join(f"{a}-{b}" if a != b else str(a) for a, b in out))
