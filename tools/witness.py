#!/usr/bin/env python3
"""Developer aid: find a generated case of a property whose first message matches a regex, shrink it and print / save it.
usage: HTA_REPO=<tree> tools/witness.py Cxx '<regex>' [n] [out.json]"""
import copy, importlib, json, os, re, sys
sys.path.insert(0, os.path.dirname(os.path.dirname(os.path.abspath(__file__))))
from harness import runner, leandrv
prop, rx = sys.argv[1], re.compile(sys.argv[2])
n = int(sys.argv[3]) if len(sys.argv) > 3 else 200
mod = importlib.import_module(f"harness.props.{prop.lower()}")
drv = leandrv.Driver()


def msgs(case):
    try:
        case = runner.norm_case(copy.deepcopy(case))
        if hasattr(mod, "wf") and not mod.wf(case):
            return []
        r = runner.run_one(mod, drv, case)
    except Exception as e:  # noqa: BLE001
        return ["ERR " + repr(e)[:200]]
    return (r.get("violations") or []) + (r.get("diffs") or [])


seed = int(os.environ.get("VERIF_SEED", "0"))
for no in range(n):
    case = mod.gen(runner.case_rng(seed, prop, no), "quick", no)
    m = msgs(case)
    if any(rx.search(x) for x in m):
        print("found at", no, m[:2], file=sys.stderr)
        small = runner.shrink(mod, drv, case, lambda c: any(rx.search(x) for x in msgs(c)))
        print(json.dumps({"params": small.get("params"), "ranks": small["ranks"]}, indent=1)[:3000])
        print(msgs(small)[:3], file=sys.stderr)
        if len(sys.argv) > 4:
            json.dump(small, open(sys.argv[4], "w"), indent=1)
        break
else:
    print("no case found", file=sys.stderr)
