#!/usr/bin/env python3
"""Run the registered quick check of the target property against every seeded regression, several at a time.

Unlike tools/seeded.py (which applies a patch to /repo itself, as the brief describes), each patch is applied in a scratch
worktree of /repo's HEAD under /tmp and the check is pointed at it with HTA_REPO, so /repo is never touched and patches
can run in parallel. Evidence and replays of these meta-runs go to /var/tmp. Results: seeded/<name>/result.json and
seeded/SUMMARY.json (same format as tools/seeded.py).
usage: tools/seeded_par.py [--jobs=4] [--seeds=0,1] [name ...]"""
import concurrent.futures as cf
import glob, json, os, subprocess, sys

ROOT = os.path.dirname(os.path.dirname(os.path.abspath(__file__)))
args = sys.argv[1:]
jobs = 4
seeds = [0]
for a in args:
    if a.startswith("--jobs="):
        jobs = int(a.split("=")[1])
    if a.startswith("--seeds="):
        seeds = [int(x) for x in a.split("=")[1].split(",")]
names = [a for a in args if not a.startswith("--")]


def sh(cmd, **kw):
    return subprocess.run(cmd, shell=True, capture_output=True, text=True, **kw)


def one(d):
    name = os.path.basename(os.path.dirname(d))
    meta = json.load(open(os.path.join(os.path.dirname(d), "meta.json")))
    prop = meta["property"]
    wt = f"/tmp/seeded-wt-{name}"
    sh(f"git -C /repo worktree remove --force {wt}")
    sh(f"git -C /repo worktree add -q --detach {wt} HEAD")
    try:
        a = sh(f"git -C {wt} apply {d}")
        if a.returncode != 0:
            return {"name": name, "property": prop, "applied": False, "note": a.stderr[-300:]}
        per_seed, first = {}, None
        for sd in seeds:
            env = dict(os.environ, HTA_REPO=wt, VERIF_SEED=str(sd), VERIF_WORKERS="4", VERIF_SHRINK_S="8", VERIF_CASE_TIMEOUT_S="60",
                       VERIF_EVIDENCE_DIR=f"/var/tmp/hv/meta-evidence/{name}", VERIF_REPLAY_DIR=f"/var/tmp/hv/meta-replays/{name}")
            q = subprocess.run(["./check", prop, "quick"], cwd=ROOT, env=env, capture_output=True, text=True)
            per_seed[str(sd)] = q.returncode
            if first is None:
                lines = (q.stdout + q.stderr).splitlines()
                vl = [l for l in lines if l.startswith("VIOLATION")]
                msg = None
                if vl and "replay=" in vl[0]:
                    rp = vl[0].split("replay=")[1].split()[0]
                    try:
                        r = json.load(open(rp))
                        msg = ((r.get("violations") or []) + (r.get("diffs") or []) + (r.get("broken_obligations") or [])
                               + [str((r.get("first_disagreements") or [{}])[0].get("diffs"))])[0]
                    except Exception:
                        pass
                first = {"exit": q.returncode, "violation_line": vl[0] if vl else None, "first_message": (msg or "")[:300],
                         "done": [l for l in lines if l.startswith("[done]")][-1:], "exit_per_seed": per_seed}
        out = {"name": name, "property": prop, "applied": True, "tier": "quick", "target_caught": all(v == 1 for v in per_seed.values()),
               "target_exit_per_seed": per_seed, "caught_by": [prop] if first["exit"] == 1 else [], "checks": {prop: first},
               "repo_head": sh("git -C /repo rev-parse --short HEAD").stdout.strip()}
        json.dump(out, open(os.path.join(os.path.dirname(d), "result.json"), "w"), indent=1)
        return {k: out[k] for k in ("name", "property", "applied", "target_caught", "caught_by", "target_exit_per_seed")}
    finally:
        sh(f"git -C /repo worktree remove --force {wt}")


todo = [d for d in sorted(glob.glob(os.path.join(ROOT, "seeded", "*", "patch.diff")))
        if not names or os.path.basename(os.path.dirname(d)) in names]
# build once up front so that the parallel checks find an up-to-date build
sh("cd lean && lake build HtaVerif htadrv", cwd=ROOT)
summary = []
with cf.ThreadPoolExecutor(max_workers=jobs) as ex:
    for r in ex.map(one, todo):
        summary.append(r)
        print(json.dumps(r), flush=True)
if not names:
    json.dump(sorted(summary, key=lambda r: r["name"]), open(os.path.join(ROOT, "seeded", "SUMMARY.json"), "w"), indent=1)
print(sum(1 for r in summary if r.get("target_caught")), "of", len(summary), "caught on every seed")
