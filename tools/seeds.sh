#!/bin/bash
# Developer aid: run every property's quick check under several seeds on the unchanged tree; prints anything that is not exit 0.
cd "$(dirname "$0")/.."
export VERIF_EVIDENCE_DIR=/var/tmp/hv/meta-evidence VERIF_REPLAY_DIR=/var/tmp/hv/meta-replays/seeds VERIF_WORKERS=${VERIF_WORKERS:-6}
for s in "$@"; do
  for i in $(seq -w 1 20); do
    out=$(VERIF_SEED=$s ./check C$i ${TIER:-quick} 2>&1 | grep "^\[done\]")
    case "$out" in *"exit=0"*) ;; *) echo "seed=$s $out";; esac
  done
  echo "seed $s done"
done
