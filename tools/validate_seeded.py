#!/usr/bin/env python3
"""Validate regressions delivered by sub-agents before they are kept under seeded/.

usage: tools/validate_seeded.py <src_dir> <suffix> [Cxx ...]
  <src_dir>/<Cxx>/{patch.diff,demo.py,meta.json}  ->  seeded/<Cxx>-<suffix>/ (only when everything is confirmed)

For each: a scratch worktree of /repo's HEAD under /tmp; the demonstration must exit 0 there; the patch must apply;
with it the demonstration must exit 1 and the 87 pinned baseline tests must still pass. The worktree is removed."""
import json, os, shutil, subprocess, sys, xml.etree.ElementTree as ET

ROOT = os.path.dirname(os.path.dirname(os.path.abspath(__file__)))
src, suffix = sys.argv[1], sys.argv[2]
only = sys.argv[3:]
base = json.load(open("/root/.vp/BASELINE.json"))
want = set(base["stable_pass"])


def sh(cmd, **kw):
    return subprocess.run(cmd, shell=True, capture_output=True, text=True, **kw)


def baseline(wt):
    out = f"/var/tmp/hv/validate-{os.path.basename(wt)}.xml"
    os.makedirs("/var/tmp/hv", exist_ok=True)
    sh(f"cd {wt} && PYTHONPATH={wt} /venv/bin/python -m pytest -q -p no:cacheprovider --timeout=900 --continue-on-collection-errors --junitxml={out} tests", timeout=3600)
    passed = set()
    for tc in ET.parse(out).getroot().iter("testcase"):
        if not any(c.tag in ("failure", "error", "skipped") for c in tc):
            passed.add(f"{tc.get('classname')}::{tc.get('name')}")
    return sorted(want - passed)


res = {}
for name in sorted(os.listdir(src)):
    d = os.path.join(src, name)
    if not os.path.isfile(os.path.join(d, "patch.diff")) or (only and name not in only):
        continue
    wt = f"/tmp/validate-{name}"
    sh(f"git -C /repo worktree remove --force {wt}")
    sh(f"git -C /repo worktree add -q --detach {wt} HEAD")
    r = {"name": name}
    try:
        demo = os.path.join(d, "demo.py")
        r["demo_unchanged_exit"] = sh(f"cd {wt} && PYTHONPATH={wt} /venv/bin/python {demo}", timeout=1800).returncode
        a = sh(f"git -C {wt} apply {os.path.join(d, 'patch.diff')}")
        r["applies"] = a.returncode == 0
        if not r["applies"]:
            r["note"] = a.stderr[-300:]
        else:
            r["files"] = sh(f"git -C {wt} diff --stat").stdout.strip().splitlines()[-1:]
            r["demo_changed_exit"] = sh(f"cd {wt} && PYTHONPATH={wt} /venv/bin/python {demo}", timeout=1800).returncode
            r["baseline_missing"] = baseline(wt)
        r["confirmed"] = bool(r.get("applies") and r["demo_unchanged_exit"] == 0 and r.get("demo_changed_exit") == 1 and not r.get("baseline_missing"))
        if r["confirmed"]:
            dst = os.path.join(ROOT, "seeded", f"{name}-{suffix}")
            os.makedirs(dst, exist_ok=True)
            for f in ("patch.diff", "demo.py", "meta.json"):
                shutil.copy(os.path.join(d, f), os.path.join(dst, f))
            meta = json.load(open(os.path.join(dst, "meta.json")))
            meta["validated"] = {"repo_head": sh("git -C /repo rev-parse --short HEAD").stdout.strip(), "demo_unchanged_exit": 0, "demo_changed_exit": 1,
                                 "baseline_87_pass_with_patch": True, "by": "tools/validate_seeded.py"}
            json.dump(meta, open(os.path.join(dst, "meta.json"), "w"), indent=1)
    except Exception as e:  # noqa: BLE001
        r["error"] = repr(e)[:300]
    finally:
        sh(f"git -C /repo worktree remove --force {wt}")
    res[name] = r
    print(json.dumps(r), flush=True)
print(sum(1 for r in res.values() if r.get("confirmed")), "of", len(res), "confirmed")
