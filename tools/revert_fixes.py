#!/usr/bin/env python3
"""For every `fixed:` line of known_findings.txt: build a scratch worktree of /repo's HEAD with that one commit
reverted, run the property's quick check against it (HTA_REPO=<worktree>) and record whether the violation returns.
Writes seeded/fix-reverts.json. Scratch worktrees live under /tmp and are removed."""
import json, os, re, subprocess, sys
ROOT = os.path.dirname(os.path.dirname(os.path.abspath(__file__)))
res = []
only = set(sys.argv[1:])
for line in open(os.path.join(ROOT, "known_findings.txt")):
    m = re.match(r"fixed: property=(C\d+) ([0-9a-f]{7}) (.*)", line)
    if not m:
        continue
    prop, commit, what = m.groups()
    if only and commit not in only and prop not in only:
        continue
    wt = f"/tmp/wt-revert-{commit}"
    subprocess.run(["git", "-C", "/repo", "worktree", "remove", "--force", wt], capture_output=True)
    subprocess.run(["git", "-C", "/repo", "worktree", "add", "-q", "--detach", wt, "HEAD"], check=True)
    try:
        p = subprocess.run(f"git -C /repo show {commit} | git -C {wt} apply -R", shell=True, capture_output=True, text=True)
        if p.returncode != 0:
            res.append({"property": prop, "commit": commit, "what": what[:120], "reverted": False, "note": p.stderr[-300:]})
            continue
        env = dict(os.environ, HTA_REPO=wt, VERIF_WORKERS="8", VERIF_SHRINK_S="5", VERIF_EVIDENCE_DIR="/var/tmp/hv/meta-evidence", VERIF_REPLAY_DIR="/var/tmp/hv/meta-replays")
        q = subprocess.run(["./check", prop, "quick"], cwd=ROOT, env=env, capture_output=True, text=True)
        vl = [l for l in q.stdout.splitlines() + q.stderr.splitlines() if l.startswith("VIOLATION")]
        done = [l for l in q.stdout.splitlines() + q.stderr.splitlines() if l.startswith("[done]")]
        res.append({"property": prop, "commit": commit, "what": what[:120], "reverted": True, "exit": q.returncode,
                    "violation_line": vl[:1], "done": done[-1:] })
        print(prop, commit, "exit", q.returncode, vl[:1], flush=True)
    finally:
        subprocess.run(["git", "-C", "/repo", "worktree", "remove", "--force", wt], capture_output=True)
os.makedirs(os.path.join(ROOT, "seeded"), exist_ok=True)
if not only:
    json.dump(res, open(os.path.join(ROOT, "seeded", "fix-reverts.json"), "w"), indent=1)
print(sum(1 for r in res if r.get("exit") == 1), "of", len(res), "reverted fixes are reported again")
