#!/bin/bash
# Developer aid: run every property's check (tier $1, default quick) and print the [done] lines.
cd "$(dirname "$0")/.."
T=${1:-quick}
for i in $(seq -w 1 20); do
  ./check C$i $T 2>&1 | grep "^\[done\]\|^VIOLATION\|^KNOWN"
done
