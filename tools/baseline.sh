#!/bin/bash
# Runs the repository's pinned baseline (guard off) and reports which of the 87 stable tests
# did not pass. Exit 0 iff all of them passed.
unset HTA_VERIF_HOOKS
OUT=${1:-/var/tmp/hta-baseline.junit.xml}
cd /repo && /venv/bin/python -m pytest -ra -q -p no:cacheprovider --timeout=900 \
   --continue-on-collection-errors --junitxml="$OUT" > /var/tmp/hta-baseline.log 2>&1
/venv/bin/python - "$OUT" <<'PY'
import json, sys, xml.etree.ElementTree as ET
base = json.load(open('/root/.vp/BASELINE.json'))
want = set(base['stable_pass'])
passed = set()
for tc in ET.parse(sys.argv[1]).getroot().iter('testcase'):
    ok = not any(c.tag in ('failure', 'error', 'skipped') for c in tc)
    if ok:
        passed.add(f"{tc.get('classname')}::{tc.get('name')}")
missing = sorted(want - passed)
print(f"baseline: {len(want & passed)}/{len(want)} stable tests pass; newly passing beyond baseline: {len(passed - want)}")
for m in missing:
    print("NOT PASSING:", m)
sys.exit(1 if missing else 0)
PY
