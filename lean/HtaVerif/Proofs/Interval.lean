import HtaVerif.Model.Interval

/-! Helper lemmas about `cells`, `covers`, `mergeGo`, `sweepFrom`. Core Lean only. -/

namespace Hta

/-! ### cells -/

theorem cells_congr {lo : Int} {n : Nat} {p q : Int → Bool}
    (h : ∀ t, lo ≤ t → t < lo + n → p t = q t) : cells lo n p = cells lo n q := by
  induction n generalizing lo with
  | zero => rfl
  | succ n ih =>
    simp only [cells]
    rw [h lo (by omega) (by omega), ih (fun t h1 h2 => h t (by omega) (by omega))]

theorem cells_add (lo : Int) (m n : Nat) (p : Int → Bool) :
    cells lo (m + n) p = cells lo m p + cells (lo + m) n p := by
  induction m generalizing lo with
  | zero => simp [cells]
  | succ m ih =>
    have : m + 1 + n = (m + n) + 1 := by omega
    rw [this]
    simp only [cells]
    rw [ih (lo + 1)]
    have : lo + 1 + (m : Int) = lo + ((m + 1 : Nat) : Int) := by omega
    rw [this]; omega

theorem cells_le (lo : Int) (n : Nat) (p : Int → Bool) : cells lo n p ≤ n := by
  induction n generalizing lo with
  | zero => simp [cells]
  | succ n ih => simp only [cells]; have := ih (lo + 1); split <;> omega

theorem cells_true {lo : Int} {n : Nat} {p : Int → Bool}
    (h : ∀ t, lo ≤ t → t < lo + n → p t = true) : cells lo n p = n := by
  induction n generalizing lo with
  | zero => rfl
  | succ n ih =>
    simp only [cells]
    rw [h lo (by omega) (by omega), ih (fun t h1 h2 => h t (by omega) (by omega))]
    simp; omega

theorem cells_false {lo : Int} {n : Nat} {p : Int → Bool}
    (h : ∀ t, lo ≤ t → t < lo + n → p t = false) : cells lo n p = 0 := by
  induction n generalizing lo with
  | zero => rfl
  | succ n ih =>
    simp only [cells]
    rw [h lo (by omega) (by omega), ih (fun t h1 h2 => h t (by omega) (by omega))]
    simp

/-- Inclusion–exclusion on unit cells. -/
theorem cells_or_and (lo : Int) (n : Nat) (p q : Int → Bool) :
    cells lo n (fun t => p t || q t) + cells lo n (fun t => p t && q t)
      = cells lo n p + cells lo n q := by
  induction n generalizing lo with
  | zero => rfl
  | succ n ih =>
    simp only [cells]
    have := ih (lo + 1)
    rcases Bool.eq_false_or_eq_true (p lo) with hp | hp <;>
      rcases Bool.eq_false_or_eq_true (q lo) with hq | hq <;> simp [hp, hq] <;> omega

/-- A predicate and its complement partition the window. -/
theorem cells_not (lo : Int) (n : Nat) (p : Int → Bool) :
    cells lo n p + cells lo n (fun t => !p t) = n := by
  induction n generalizing lo with
  | zero => rfl
  | succ n ih =>
    simp only [cells]
    have := ih (lo + 1)
    rcases Bool.eq_false_or_eq_true (p lo) with hp | hp <;> simp [hp] <;> omega

/-- Splitting a predicate by a second one. -/
theorem cells_split_by (lo : Int) (n : Nat) (p q : Int → Bool) :
    cells lo n p = cells lo n (fun t => p t && q t) + cells lo n (fun t => p t && !q t) := by
  induction n generalizing lo with
  | zero => rfl
  | succ n ih =>
    simp only [cells]
    have := ih (lo + 1)
    rcases Bool.eq_false_or_eq_true (p lo) with hp | hp <;>
      rcases Bool.eq_false_or_eq_true (q lo) with hq | hq <;> simp [hp, hq] <;> omega

/-- Measure of a single interval inside the window. -/
theorem cells_interval {lo : Int} {n : Nat} {a b : Int}
    (h1 : lo ≤ a) (h2 : a ≤ b) (h3 : b ≤ lo + n) :
    (cells lo n (fun t => decide (a ≤ t) && decide (t < b)) : Int) = b - a := by
  -- split the window into [lo,a) ++ [a,b) ++ [b,lo+n)
  obtain ⟨k1, hk1⟩ : ∃ k : Nat, a = lo + k := ⟨(a - lo).toNat, by omega⟩
  obtain ⟨k2, hk2⟩ : ∃ k : Nat, b = a + k := ⟨(b - a).toNat, by omega⟩
  obtain ⟨k3, hk3⟩ : ∃ k : Nat, lo + n = b + k := ⟨(lo + n - b).toNat, by omega⟩
  have hn : n = k1 + (k2 + k3) := by omega
  subst hn
  rw [cells_add, cells_add]
  rw [cells_false (n := k1), cells_true (n := k2), cells_false (n := k3)]
  · omega
  · intro t h4 h5; simp; omega
  · intro t h4 h5; simp; omega
  · intro t h4 h5; simp; omega

/-! ### covers -/

@[simp] theorem covers_nil (t : Int) : covers [] t = false := rfl

@[simp] theorem covers_cons (x : Iv) (l : List Iv) (t : Int) :
    covers (x :: l) t = ((decide (x.1 ≤ t) && decide (t < x.2)) || covers l t) := by
  simp [covers]

theorem covers_iff {l : List Iv} {t : Int} :
    covers l t = true ↔ ∃ x ∈ l, x.1 ≤ t ∧ t < x.2 := by
  simp [covers]

theorem covers_append (l₁ l₂ : List Iv) (t : Int) :
    covers (l₁ ++ l₂) t = (covers l₁ t || covers l₂ t) := by
  simp [covers]

theorem covers_perm {l₁ l₂ : List Iv} (h : l₁.Perm l₂) (t : Int) :
    covers l₁ t = covers l₂ t := by
  apply Bool.eq_iff_iff.mpr
  rw [covers_iff, covers_iff]
  constructor
  · rintro ⟨x, hx, h1⟩; exact ⟨x, h.mem_iff.mp hx, h1⟩
  · rintro ⟨x, hx, h1⟩; exact ⟨x, h.mem_iff.mpr hx, h1⟩

/-! ### separated lists: measure of the union is the sum of the lengths -/

/-- Strictly separated, as `merge_kernel_intervals` produces. -/
def Separated (l : List Iv) : Prop := l.Pairwise fun x y => x.2 < y.1

theorem sumLen_eq_cells {l : List Iv} {lo : Int} {n : Nat}
    (hsep : l.Pairwise fun x y => x.2 ≤ y.1)
    (hnn : ∀ x ∈ l, x.1 ≤ x.2)
    (hwin : ∀ x ∈ l, lo ≤ x.1 ∧ x.2 ≤ lo + n) :
    sumLen l = (cells lo n (covers l) : Int) := by
  induction l with
  | nil => simp [sumLen, cells_false (p := covers []) (fun _ _ _ => rfl)]
  | cons x xs ih =>
    have hsep' := List.pairwise_cons.mp hsep
    have ih' := ih hsep'.2 (fun y hy => hnn y (List.mem_cons_of_mem _ hy))
      (fun y hy => hwin y (List.mem_cons_of_mem _ hy))
    have hx := hwin x (List.mem_cons_self)
    have hxn := hnn x (List.mem_cons_self)
    have hoa := cells_or_and lo n (fun t => decide (x.1 ≤ t) && decide (t < x.2)) (covers xs)
    have hdisj : cells lo n (fun t => (decide (x.1 ≤ t) && decide (t < x.2)) && covers xs t) = 0 := by
      apply cells_false
      intro t _ _
      cases hc : covers xs t with
      | false => simp
      | true =>
        obtain ⟨y, hy, h1, h2⟩ := covers_iff.mp hc
        have := hsep'.1 y hy
        simp; omega
    have hiv := cells_interval (lo := lo) (n := n) hx.1 hxn hx.2
    have hfun : cells lo n (covers (x :: xs))
        = cells lo n (fun t => (decide (x.1 ≤ t) && decide (t < x.2)) || covers xs t) := by
      apply cells_congr; intro t _ _; simp
    simp only [sumLen]
    rw [hfun, ih']
    omega

/-! ### mergeGo -/

theorem covers_mergeGo (t : Int) (rest : List Iv) :
    ∀ (cs ce cm : Int), ce = cm → cs ≤ ce → (∀ x ∈ rest, cs ≤ x.1) →
      SortedByStart rest → (∀ x ∈ rest, x.1 ≤ x.2) →
      (covers (mergeGo cs ce cm rest) t = true ↔
        ((cs ≤ t ∧ t < ce) ∨ covers rest t = true)) := by
  induction rest with
  | nil => intro cs ce cm _ _ _ _ _; simp [mergeGo]
  | cons x rest ih =>
    intro cs ce cm hcm hcs hge hsort hnn
    have hs := List.pairwise_cons.mp hsort
    have hx := hnn x List.mem_cons_self
    have hcx := hge x List.mem_cons_self
    have hnn' : ∀ y ∈ rest, y.1 ≤ y.2 := fun y hy => hnn y (List.mem_cons_of_mem _ hy)
    simp only [mergeGo]
    split
    · rename_i hgt
      have := ih x.1 x.2 (max cm x.2) (by omega) hx (fun y hy => hs.1 y hy) hs.2 hnn'
      simp only [covers_cons, Bool.or_eq_true, Bool.and_eq_true, decide_eq_true_eq, this]
    · rename_i hle
      have := ih (min cs x.1) (max ce x.2) (max cm x.2) (by omega) (by omega)
        (fun y hy => by have := hs.1 y hy; omega) hs.2 hnn'
      simp only [covers_cons, Bool.or_eq_true, Bool.and_eq_true, decide_eq_true_eq, this]
      generalize (covers rest t = true) = C
      constructor
      · rintro (h | h)
        · by_cases h2 : t < ce
          · left; omega
          · right; left; omega
        · right; right; exact h
      · rintro (h | h | h)
        · left; omega
        · left; omega
        · right; exact h

/-- Every output start is at least any lower bound of `cs` and of the remaining starts. -/
theorem mergeGo_start_ge_aux (rest : List Iv) :
    ∀ (b cs ce cm : Int), b ≤ cs → (∀ x ∈ rest, b ≤ x.1) →
      ∀ y ∈ mergeGo cs ce cm rest, b ≤ y.1 := by
  induction rest with
  | nil => intro b cs ce cm hb _ y hy; simp [mergeGo] at hy; subst hy; simpa
  | cons x rest ih =>
    intro b cs ce cm hb hge y hy
    have hbx := hge x List.mem_cons_self
    have hge' : ∀ z ∈ rest, b ≤ z.1 := fun z hz => hge z (List.mem_cons_of_mem _ hz)
    simp only [mergeGo] at hy
    split at hy
    · rcases List.mem_cons.mp hy with h | h
      · subst h; simpa
      · exact ih b x.1 _ _ hbx hge' y h
    · exact ih b (min cs x.1) _ _ (by omega) hge' y hy

theorem mergeGo_start_ge (rest : List Iv) :
    ∀ (cs ce cm : Int), (∀ x ∈ rest, cs ≤ x.1) →
      ∀ y ∈ mergeGo cs ce cm rest, cs ≤ y.1 := by
  induction rest with
  | nil => intro cs ce cm _ y hy; simp [mergeGo] at hy; subst hy; simp
  | cons x rest ih =>
    intro cs ce cm hge y hy
    have hcx := hge x List.mem_cons_self
    have hge' : ∀ z ∈ rest, cs ≤ z.1 := fun z hz => hge z (List.mem_cons_of_mem _ hz)
    simp only [mergeGo] at hy
    split at hy
    · rcases List.mem_cons.mp hy with h | h
      · subst h; simp
      · -- y comes from a later group; all later starts are ≥ cs, so use the weaker bound
        have : ∀ (cs' : Int), cs ≤ cs' → ∀ y ∈ mergeGo cs' x.2 (max cm x.2) rest,
            (∀ z ∈ rest, cs ≤ z.1) → cs ≤ y.1 := by
          intro cs' hle y hy hz
          -- generalised statement proved below by a second induction
          exact mergeGo_start_ge_aux rest cs cs' x.2 (max cm x.2) hle hz y hy
        exact this x.1 hcx y h hge'
    · have hmin : min cs x.1 = cs := by omega
      rw [hmin] at hy
      exact ih cs _ _ hge' y hy


theorem mergeGo_nonneg (rest : List Iv) :
    ∀ (cs ce cm : Int), cs ≤ ce → (∀ x ∈ rest, x.1 ≤ x.2) →
      ∀ y ∈ mergeGo cs ce cm rest, y.1 ≤ y.2 := by
  induction rest with
  | nil => intro cs ce cm h _ y hy; simp [mergeGo] at hy; subst hy; simpa
  | cons x rest ih =>
    intro cs ce cm h hnn y hy
    have hx := hnn x List.mem_cons_self
    have hnn' : ∀ z ∈ rest, z.1 ≤ z.2 := fun z hz => hnn z (List.mem_cons_of_mem _ hz)
    simp only [mergeGo] at hy
    split at hy
    · rcases List.mem_cons.mp hy with h' | h'
      · subst h'; simpa
      · exact ih _ _ _ hx hnn' y h'
    · exact ih _ _ _ (by omega) hnn' y hy

theorem mergeGo_separated (rest : List Iv) :
    ∀ (cs ce cm : Int), ce = cm → (∀ x ∈ rest, cs ≤ x.1) →
      SortedByStart rest → (∀ x ∈ rest, x.1 ≤ x.2) →
      Separated (mergeGo cs ce cm rest) := by
  induction rest with
  | nil => intro cs ce cm _ _ _ _; simp [mergeGo, Separated]
  | cons x rest ih =>
    intro cs ce cm hcm hge hsort hnn
    have hs := List.pairwise_cons.mp hsort
    have hx := hnn x List.mem_cons_self
    have hcx := hge x List.mem_cons_self
    have hnn' : ∀ z ∈ rest, z.1 ≤ z.2 := fun z hz => hnn z (List.mem_cons_of_mem _ hz)
    simp only [mergeGo]
    split
    · rename_i hgt
      apply List.pairwise_cons.mpr
      refine ⟨?_, ih x.1 x.2 (max cm x.2) (by omega) hs.1 hs.2 hnn'⟩
      intro y hy
      have := mergeGo_start_ge_aux rest x.1 x.1 x.2 (max cm x.2) (Int.le_refl _) hs.1 y hy
      show ce < y.1
      omega
    · exact ih _ _ _ (by omega) (fun z hz => by have := hs.1 z hz; omega) hs.2 hnn'

/-- Every endpoint of the merged list is an endpoint of the input. -/
theorem mergeGo_endpoints (rest : List Iv) :
    ∀ (cs ce cm : Int), ∀ y ∈ mergeGo cs ce cm rest,
      (y.1 = cs ∨ ∃ x ∈ rest, x.1 = y.1) ∧ (y.2 = ce ∨ ∃ x ∈ rest, x.2 = y.2) := by
  induction rest with
  | nil => intro cs ce cm y hy; simp [mergeGo] at hy; subst hy; simp
  | cons x rest ih =>
    intro cs ce cm y hy
    simp only [mergeGo] at hy
    split at hy
    · rcases List.mem_cons.mp hy with h | h
      · subst h; simp
      · have := ih _ _ _ y h
        constructor
        · rcases this.1 with h1 | ⟨z, hz, h1⟩
          · right; exact ⟨x, List.mem_cons_self, h1.symm⟩
          · right; exact ⟨z, List.mem_cons_of_mem _ hz, h1⟩
        · rcases this.2 with h1 | ⟨z, hz, h1⟩
          · right; exact ⟨x, List.mem_cons_self, h1.symm⟩
          · right; exact ⟨z, List.mem_cons_of_mem _ hz, h1⟩
    · have := ih _ _ _ y hy
      constructor
      · rcases this.1 with h1 | ⟨z, hz, h1⟩
        · by_cases hc : cs ≤ x.1
          · left; omega
          · right; exact ⟨x, List.mem_cons_self, by omega⟩
        · right; exact ⟨z, List.mem_cons_of_mem _ hz, h1⟩
      · rcases this.2 with h1 | ⟨z, hz, h1⟩
        · by_cases hc : x.2 ≤ ce
          · left; omega
          · right; exact ⟨x, List.mem_cons_self, by omega⟩
        · right; exact ⟨z, List.mem_cons_of_mem _ hz, h1⟩

/-- The current group and every remaining input interval lie inside some merged interval. -/
theorem mergeGo_contains (rest : List Iv) :
    ∀ (cs ce cm : Int),
      (∃ y ∈ mergeGo cs ce cm rest, y.1 ≤ cs ∧ ce ≤ y.2) ∧
      (∀ x ∈ rest, ∃ y ∈ mergeGo cs ce cm rest, y.1 ≤ x.1 ∧ x.2 ≤ y.2) := by
  induction rest with
  | nil => intro cs ce cm; simp [mergeGo]
  | cons x rest ih =>
    intro cs ce cm
    simp only [mergeGo]
    split
    · have := ih x.1 x.2 (max cm x.2)
      refine ⟨⟨(cs, ce), List.mem_cons_self, by simp⟩, ?_⟩
      intro z hz
      rcases List.mem_cons.mp hz with h | h
      · subst h
        obtain ⟨y, hy, h1⟩ := this.1
        exact ⟨y, List.mem_cons_of_mem _ hy, h1⟩
      · obtain ⟨y, hy, h1⟩ := this.2 z h
        exact ⟨y, List.mem_cons_of_mem _ hy, h1⟩
    · have := ih (min cs x.1) (max ce x.2) (max cm x.2)
      obtain ⟨y, hy, h1, h2⟩ := this.1
      refine ⟨⟨y, hy, by omega, by omega⟩, ?_⟩
      intro z hz
      rcases List.mem_cons.mp hz with h | h
      · subst h; exact ⟨y, hy, by omega, by omega⟩
      · exact this.2 z h

/-! ### mergeSorted: the facts used by the property theorems -/

structure MergeFacts (s m : List Iv) : Prop where
  covers_eq : ∀ t, covers m t = covers s t
  separated : Separated m
  nonneg : ∀ y ∈ m, y.1 ≤ y.2
  starts : ∀ y ∈ m, ∃ x ∈ s, x.1 = y.1
  ends : ∀ y ∈ m, ∃ x ∈ s, x.2 = y.2
  contains : ∀ x ∈ s, ∃ y ∈ m, y.1 ≤ x.1 ∧ x.2 ≤ y.2

theorem mergeSorted_facts {s : List Iv} (hsort : SortedByStart s)
    (hnn : ∀ x ∈ s, x.1 ≤ x.2) : MergeFacts s (mergeSorted s) := by
  cases s with
  | nil =>
    exact ⟨fun _ => rfl, List.Pairwise.nil, by simp [mergeSorted], by simp [mergeSorted],
      by simp [mergeSorted], by simp⟩
  | cons x rest =>
    have hs := List.pairwise_cons.mp hsort
    have hx := hnn x List.mem_cons_self
    have hnn' : ∀ z ∈ rest, z.1 ≤ z.2 := fun z hz => hnn z (List.mem_cons_of_mem _ hz)
    simp only [mergeSorted]
    refine ⟨?_, ?_, ?_, ?_, ?_, ?_⟩
    · intro t
      apply Bool.eq_iff_iff.mpr
      rw [covers_mergeGo t rest x.1 x.2 x.2 rfl hx hs.1 hs.2 hnn']
      simp
    · exact mergeGo_separated rest _ _ _ rfl hs.1 hs.2 hnn'
    · exact mergeGo_nonneg rest _ _ _ hx hnn'
    · intro y hy
      rcases (mergeGo_endpoints rest _ _ _ y hy).1 with h | ⟨z, hz, h⟩
      · exact ⟨x, List.mem_cons_self, h.symm⟩
      · exact ⟨z, List.mem_cons_of_mem _ hz, h⟩
    · intro y hy
      rcases (mergeGo_endpoints rest _ _ _ y hy).2 with h | ⟨z, hz, h⟩
      · exact ⟨x, List.mem_cons_self, h.symm⟩
      · exact ⟨z, List.mem_cons_of_mem _ hz, h⟩
    · intro z hz
      have := mergeGo_contains rest x.1 x.2 x.2
      rcases List.mem_cons.mp hz with h | h
      · subst h; exact this.1
      · exact this.2 z h

/-- In a separated list of non-negative intervals the head has the least start and the
last element the greatest end. -/
theorem separated_head_le {a : Iv} {l : List Iv} (hsep : Separated (a :: l))
    (hnn : ∀ y ∈ a :: l, y.1 ≤ y.2) : ∀ y ∈ a :: l, a.1 ≤ y.1 := by
  intro y hy
  rcases List.mem_cons.mp hy with h | h
  · subst h; exact Int.le_refl _
  · have := (List.pairwise_cons.mp hsep).1 y h
    have := hnn a List.mem_cons_self
    omega

theorem separated_le_last {l : List Iv} (hsep : Separated l)
    (hnn : ∀ y ∈ l, y.1 ≤ y.2) (hne : l ≠ []) : ∀ y ∈ l, y.2 ≤ (l.getLast hne).2 := by
  induction l with
  | nil => exact absurd rfl hne
  | cons a l ih =>
    intro y hy
    cases l with
    | nil => simp at hy; subst hy; simp
    | cons b l' =>
      have hs := List.pairwise_cons.mp hsep
      have hnn' : ∀ z ∈ b :: l', z.1 ≤ z.2 := fun z hz => hnn z (List.mem_cons_of_mem _ hz)
      have ih' := ih hs.2 hnn' (by simp)
      rw [List.getLast_cons (by simp)]
      rcases List.mem_cons.mp hy with h | h
      · subst h
        have h1 := hs.1 _ (List.getLast_mem (l := b :: l') (by simp))
        have h2 := hnn' _ (List.getLast_mem (l := b :: l') (by simp))
        omega
      · exact ih' y h

/-! ### the marker sweep -/

theorem stateAt_append (l₁ l₂ : List Marker) (t : Int) :
    stateAt (l₁ ++ l₂) t = stateAt l₁ t + stateAt l₂ t := by
  induction l₁ with
  | nil => simp [stateAt]
  | cons m l ih => simp only [List.cons_append, stateAt, ih]; omega

theorem stateAt_perm {l₁ l₂ : List Marker} (h : l₁.Perm l₂) (t : Int) :
    stateAt l₁ t = stateAt l₂ t := by
  induction h with
  | nil => rfl
  | cons x _ ih => simp only [stateAt, ih]
  | swap x y l => simp only [stateAt]; omega
  | trans _ _ ih1 ih2 => rw [ih1, ih2]

theorem stateAt_of_lt {l : List Marker} {t : Int} (h : ∀ x ∈ l, t < x.1) : stateAt l t = 0 := by
  induction l with
  | nil => rfl
  | cons m l ih =>
    have := h m List.mem_cons_self
    simp only [stateAt]
    rw [ih (fun x hx => h x (List.mem_cons_of_mem _ hx))]
    have : ¬ m.1 ≤ t := by omega
    simp [this]

/-- Sum of all deltas. -/
def totalDelta : List Marker → Int
  | [] => 0
  | m :: ms => m.2 + totalDelta ms

theorem stateAt_of_ge {l : List Marker} {t : Int} (h : ∀ x ∈ l, x.1 ≤ t) :
    stateAt l t = totalDelta l := by
  induction l with
  | nil => rfl
  | cons m l ih =>
    have := h m List.mem_cons_self
    simp only [stateAt, totalDelta]
    rw [ih (fun x hx => h x (List.mem_cons_of_mem _ hx))]
    simp [this]

theorem sorted_le_getLast {m : Marker} {rest : List Marker} (hs : SortedByTime (m :: rest)) :
    ∀ x ∈ m :: rest, x.1 ≤ ((m :: rest).getLast (by simp)).1 := by
  induction rest generalizing m with
  | nil => intro x hx; simp at hx; subst hx; simp
  | cons m' rest ih =>
    intro x hx
    have hs' := List.pairwise_cons.mp hs
    rw [List.getLast_cons (by simp)]
    rcases List.mem_cons.mp hx with h | h
    · subst h
      have := hs'.1 _ (List.getLast_mem (l := m' :: rest) (by simp))
      exact this
    · exact ih hs'.2 x h

/-- The sweep over a time-sorted marker list equals the number of unit cells of
`[first time, last time)` on which the running state satisfies `P`. -/
theorem sweepFrom_eq_cells (P : Int → Bool) (rest : List Marker) :
    ∀ (m : Marker) (acc : Int), SortedByTime (m :: rest) →
      sweepFrom P acc (m :: rest)
        = (cells m.1 (((m :: rest).getLast (by simp)).1 - m.1).toNat
            (fun t => P (acc + stateAt (m :: rest) t)) : Int) := by
  induction rest with
  | nil => intro m acc _; simp [sweepFrom, cells]
  | cons m' rest ih =>
    intro m acc hs
    have hs' := List.pairwise_cons.mp hs
    have h12 : m.1 ≤ m'.1 := hs'.1 m' List.mem_cons_self
    have hlast : m'.1 ≤ ((m' :: rest).getLast (by simp)).1 :=
      sorted_le_getLast hs'.2 m' List.mem_cons_self
    simp only [sweepFrom]
    rw [ih m' (acc + m.2) hs'.2]
    rw [List.getLast_cons (a := m) (l := m' :: rest) (by simp)]
    generalize hL : ((m' :: rest).getLast (by simp)).1 = L at hlast ⊢
    obtain ⟨n1, hn1⟩ : ∃ k : Nat, m'.1 = m.1 + k := ⟨(m'.1 - m.1).toNat, by omega⟩
    obtain ⟨n2, hn2⟩ : ∃ k : Nat, L = m'.1 + k := ⟨(L - m'.1).toNat, by omega⟩
    have e1 : (L - m.1).toNat = n1 + n2 := by omega
    have e2 : (L - m'.1).toNat = n2 := by omega
    rw [e1, e2, cells_add]
    have hfirst : cells m.1 n1 (fun t => P (acc + stateAt (m :: m' :: rest) t))
        = if P (acc + m.2) then n1 else 0 := by
      have hconst : ∀ t, m.1 ≤ t → t < m.1 + n1 →
          P (acc + stateAt (m :: m' :: rest) t) = P (acc + m.2) := by
        intro t h1 h2
        have : stateAt (m' :: rest) t = 0 := by
          apply stateAt_of_lt
          intro x hx
          rcases List.mem_cons.mp hx with h | h
          · subst h; omega
          · have := (List.pairwise_cons.mp hs'.2).1 x h; omega
        simp only [stateAt] at this ⊢
        rw [this]; simp [h1]
      split
      · rename_i hp; exact cells_true (fun t h1 h2 => by show P _ = true; rw [hconst t h1 h2, hp])
      · rename_i hp
        exact cells_false (fun t h1 h2 => by show P _ = false; rw [hconst t h1 h2]; simpa using hp)
    have hsecond : cells (m.1 + n1) n2 (fun t => P (acc + stateAt (m :: m' :: rest) t))
        = cells m'.1 n2 (fun t => P (acc + m.2 + stateAt (m' :: rest) t)) := by
      rw [← hn1]
      apply cells_congr
      intro t h1 h2
      have : m.1 ≤ t := by omega
      simp only [stateAt, this, if_true]
      congr 1; omega
    rw [hfirst, hsecond]
    split <;> simp <;> omega


theorem totalDelta_append (l₁ l₂ : List Marker) :
    totalDelta (l₁ ++ l₂) = totalDelta l₁ + totalDelta l₂ := by
  induction l₁ with
  | nil => simp [totalDelta]
  | cons m l ih => simp only [List.cons_append, totalDelta, ih]; omega

theorem totalDelta_perm {l₁ l₂ : List Marker} (h : l₁.Perm l₂) :
    totalDelta l₁ = totalDelta l₂ := by
  induction h with
  | nil => rfl
  | cons x _ ih => simp only [totalDelta, ih]
  | swap x y l => simp only [totalDelta]; omega
  | trans _ _ ih1 ih2 => rw [ih1, ih2]

theorem totalDelta_markersOf (v : Int) (l : List Iv) : totalDelta (markersOf v l) = 0 := by
  induction l with
  | nil => rfl
  | cons x l ih => simp only [markersOf, totalDelta, ih]; omega

theorem mem_markersOf {v : Int} {l : List Iv} {m : Marker} (h : m ∈ markersOf v l) :
    ∃ x ∈ l, m.1 = x.1 ∨ m.1 = x.2 := by
  induction l with
  | nil => simp [markersOf] at h
  | cons x l ih =>
    simp only [markersOf, List.mem_cons] at h
    rcases h with h | h | h
    · exact ⟨x, List.mem_cons_self, Or.inl (by rw [h])⟩
    · exact ⟨x, List.mem_cons_self, Or.inr (by rw [h])⟩
    · obtain ⟨y, hy, h1⟩ := ih h
      exact ⟨y, List.mem_cons_of_mem _ hy, h1⟩

/-- For separated non-negative intervals the signed-marker step function is `v` exactly on the
union and `0` elsewhere. -/
theorem stateAt_markersOf (v : Int) {l : List Iv}
    (hsep : l.Pairwise fun x y => x.2 ≤ y.1) (hnn : ∀ x ∈ l, x.1 ≤ x.2) (t : Int) :
    stateAt (markersOf v l) t = if covers l t then v else 0 := by
  induction l with
  | nil => rfl
  | cons x l ih =>
    have hs := List.pairwise_cons.mp hsep
    have hx := hnn x List.mem_cons_self
    have ih' := ih hs.2 (fun y hy => hnn y (List.mem_cons_of_mem _ hy))
    simp only [markersOf, stateAt, ih', covers_cons]
    by_cases hc : covers l t = true
    · obtain ⟨y, hy, h1, h2⟩ := covers_iff.mp hc
      have := hs.1 y hy
      have hy' := hnn y (List.mem_cons_of_mem _ hy)
      have h3 : ¬ t < x.2 := by omega
      have h4 : x.1 ≤ t := by omega
      have h5 : x.2 ≤ t := by omega
      simp [hc, h3, h4, h5]; omega
    · have hc' : covers l t = false := by simpa using hc
      by_cases h1 : x.1 ≤ t <;> by_cases h2 : t < x.2 <;>
        simp [hc', h1, h2] <;> omega

/-- Window form of the sweep theorem: any window that contains every marker time. -/
theorem sweep_eq_cells_window (P : Int → Bool) (hP : P 0 = false) {ms : List Marker}
    (hs : SortedByTime ms) (htot : totalDelta ms = 0) {lo : Int} {n : Nat}
    (hwin : ∀ m ∈ ms, lo ≤ m.1 ∧ m.1 ≤ lo + n) :
    sweep P ms = (cells lo n (fun t => P (stateAt ms t)) : Int) := by
  cases ms with
  | nil =>
    simp only [sweep, sweepFrom, stateAt]
    rw [cells_false (fun _ _ _ => hP)]; rfl
  | cons m rest =>
    have hm := hwin m List.mem_cons_self
    have hLmem := List.getLast_mem (l := m :: rest) (by simp)
    have hL := hwin _ hLmem
    have hmL := sorted_le_getLast hs m List.mem_cons_self
    have hall := sorted_le_getLast hs
    simp only [sweep]
    rw [sweepFrom_eq_cells P rest m 0 hs]
    generalize ((m :: rest).getLast (by simp)).1 = L at hL hmL hall ⊢
    obtain ⟨k1, hk1⟩ : ∃ k : Nat, m.1 = lo + k := ⟨(m.1 - lo).toNat, by omega⟩
    obtain ⟨k2, hk2⟩ : ∃ k : Nat, L = m.1 + k := ⟨(L - m.1).toNat, by omega⟩
    obtain ⟨k3, hk3⟩ : ∃ k : Nat, lo + n = L + k := ⟨(lo + n - L).toNat, by omega⟩
    have hn : n = k1 + (k2 + k3) := by omega
    have e : (L - m.1).toNat = k2 := by omega
    subst hn
    rw [e, cells_add, cells_add]
    have h1 : cells lo k1 (fun t => P (stateAt (m :: rest) t)) = 0 := by
      apply cells_false
      intro t _ h2
      have : stateAt (m :: rest) t = 0 := by
        apply stateAt_of_lt
        intro x hx
        have := (List.pairwise_cons.mp hs).1
        rcases List.mem_cons.mp hx with h | h
        · subst h; omega
        · have := this x h; omega
      show P (stateAt (m :: rest) t) = false
      rw [this, hP]
    have h3 : cells (lo + ↑k1 + ↑k2) k3 (fun t => P (stateAt (m :: rest) t)) = 0 := by
      apply cells_false
      intro t h2 _
      have : stateAt (m :: rest) t = 0 := by
        rw [stateAt_of_ge, htot]
        intro x hx
        have := hall x hx
        omega
      show P (stateAt (m :: rest) t) = false
      rw [this, hP]
    rw [h1, h3, ← hk1]
    have : cells m.1 k2 (fun t => P (0 + stateAt (m :: rest) t))
        = cells m.1 k2 (fun t => P (stateAt (m :: rest) t)) := by
      apply cells_congr; intro t _ _; simp
    rw [this]; omega

end Hta
