import HtaVerif.Model.C08
/-!
Helper lemmas for the kernel loop of the critical-path graph: the two small finite maps
(`setLast`/`lastOn`, `ksSet`/`ksGet`).
-/
namespace Hta.C08

theorem mem_setLast {l : KS} {s : Int} {n : NodeId} {x : Int × NodeId} (h : x ∈ setLast l s n) :
    x = (s, n) ∨ x ∈ l := by
  unfold setLast at h
  split at h
  · obtain ⟨y, hy, rfl⟩ := List.mem_map.mp h
    split
    · exact Or.inl rfl
    · exact Or.inr hy
  · simp only [List.mem_append, List.mem_singleton] at h
    rcases h with h | h
    · exact Or.inr h
    · exact Or.inl h

theorem lastOn_mem {l : KS} {s : Int} {n : NodeId} (h : lastOn l s = some n) : (s, n) ∈ l := by
  unfold lastOn at h
  cases hf : l.find? (fun x => x.1 == s) with
  | none => simp [hf] at h
  | some y =>
    simp only [hf, Option.map_some, Option.some.injEq] at h
    have hy := List.mem_of_find?_eq_some hf
    have hp := List.find?_some hf
    have : y.1 = s := by simpa using hp
    have hyy : y = (s, n) := by
      cases y with
      | mk a b => simp only at this h; subst this; subst h; rfl
    rw [← hyy]; exact hy

theorem ksGet_mem {m : KSync} {i : Int} {v : Option Int} (h : ksGet m i = some v) : (i, v) ∈ m := by
  unfold ksGet at h
  cases hf : m.find? (fun x => x.1 == i) with
  | none => simp [hf] at h
  | some y =>
    simp only [hf, Option.map_some, Option.some.injEq] at h
    have hy := List.mem_of_find?_eq_some hf
    have hp := List.find?_some hf
    have : y.1 = i := by simpa using hp
    have hyy : y = (i, v) := by
      cases y with
      | mk a b => simp only at this h; subst this; subst h; rfl
    rw [← hyy]; exact hy

theorem mem_ksSet {m : KSync} {i : Int} {v : Option Int} {x : Int × Option Int} (h : x ∈ ksSet m i v) :
    x = (i, v) ∨ x ∈ m := by
  unfold ksSet at h
  split at h
  · obtain ⟨y, hy, rfl⟩ := List.mem_map.mp h
    split
    · exact Or.inl rfl
    · exact Or.inr hy
  · simp only [List.mem_append, List.mem_singleton] at h
    rcases h with h | h
    · exact Or.inr h
    · exact Or.inl h

/-- `lastIdx` returns the position of the last element satisfying `p` (counting from `i`). -/
theorem lastIdx_spec {α : Type} (p : α → Bool) (l : List α) (i : Nat) (acc : Option Nat) (k : Nat)
    (h : lastIdx p l i acc = some k) :
    (acc = some k ∧ ∀ x ∈ l, p x = false) ∨
    (i ≤ k ∧ ∃ x, l[k - i]? = some x ∧ p x = true ∧ ∀ j, k - i < j → ∀ y, l[j]? = some y → p y = false) := by
  induction l generalizing i acc with
  | nil =>
    simp only [lastIdx] at h
    exact Or.inl ⟨h, by intro x hx; cases hx⟩
  | cons a as ih =>
    simp only [lastIdx] at h
    rcases ih (i + 1) _ h with ⟨hacc, hall⟩ | ⟨hik, x, hx, hpx, hlast⟩
    · by_cases hpa : p a = true
      · simp only [hpa, if_true, Option.some.injEq] at hacc
        right
        refine ⟨by omega, a, ?_, hpa, ?_⟩
        · subst hacc; simp
        · intro j hj y hy
          subst hacc
          have : j = (j - 1) + 1 := by omega
          rw [this, List.getElem?_cons_succ] at hy
          exact hall y (List.mem_of_getElem? hy)
      · have hpa' : p a = false := by simpa using hpa
        simp only [hpa', Bool.false_eq_true, if_false] at hacc
        left
        exact ⟨hacc, by intro y hy; rcases List.mem_cons.mp hy with rfl | hy; exact hpa'; exact hall y hy⟩
    · right
      refine ⟨by omega, x, ?_, hpx, ?_⟩
      · have : k - i = (k - (i + 1)) + 1 := by omega
        rw [this, List.getElem?_cons_succ]; exact hx
      · intro j hj y hy
        have hj1 : j = (j - 1) + 1 := by omega
        rw [hj1, List.getElem?_cons_succ] at hy
        exact hlast (j - 1) (by omega) y hy


theorem lastIdx_none {α : Type} (p : α → Bool) (l : List α) (i : Nat)
    (h : lastIdx p l i none = none) : ∀ x ∈ l, p x = false := by
  induction l generalizing i with
  | nil => intro x hx; cases hx
  | cons a as ih =>
    simp only [lastIdx] at h
    by_cases hpa : p a = true
    · simp only [hpa, if_true] at h
      rcases hk : lastIdx p as (i + 1) (some i) with _ | k
      · -- an accumulator that is `some` can never become `none`
        exfalso
        have : ∀ (l : List α) (j : Nat) (a : Nat), lastIdx p l j (some a) ≠ none := by
          intro l
          induction l with
          | nil => intro j a h; simp [lastIdx] at h
          | cons b bs ihb =>
            intro j a h
            simp only [lastIdx] at h
            split at h
            · exact ihb _ _ h
            · exact ihb _ _ h
        exact this as (i + 1) i hk
      · rw [hk] at h; cases h
    · have hpa' : p a = false := by simpa using hpa
      simp only [hpa', Bool.false_eq_true, if_false] at h
      intro y hy
      rcases List.mem_cons.mp hy with rfl | hy
      · exact hpa'
      · exact ih (i + 1) h y hy


end Hta.C08
