import HtaVerif.Model.C08
/-!
Helper lemmas for the kernel loop of the critical-path graph: the two small finite maps
(`setLast`/`lastOn`, `ksSet`/`ksGet`).
-/
namespace Hta.C08

theorem mem_setLast {l : KS} {s : Int} {n : NodeId} {x : Int × NodeId} (h : x ∈ setLast l s n) :
    x = (s, n) ∨ x ∈ l := by
  unfold setLast at h
  split at h
  · obtain ⟨y, hy, rfl⟩ := List.mem_map.mp h
    split
    · exact Or.inl rfl
    · exact Or.inr hy
  · simp only [List.mem_append, List.mem_singleton] at h
    rcases h with h | h
    · exact Or.inr h
    · exact Or.inl h

theorem lastOn_mem {l : KS} {s : Int} {n : NodeId} (h : lastOn l s = some n) : (s, n) ∈ l := by
  unfold lastOn at h
  cases hf : l.find? (fun x => x.1 == s) with
  | none => simp [hf] at h
  | some y =>
    simp only [hf, Option.map_some, Option.some.injEq] at h
    have hy := List.mem_of_find?_eq_some hf
    have hp := List.find?_some hf
    have : y.1 = s := by simpa using hp
    have hyy : y = (s, n) := by
      cases y with
      | mk a b => simp only at this h; subst this; subst h; rfl
    rw [← hyy]; exact hy

theorem ksGet_mem {m : KSync} {i : Int} {v : Option Int} (h : ksGet m i = some v) : (i, v) ∈ m := by
  unfold ksGet at h
  cases hf : m.find? (fun x => x.1 == i) with
  | none => simp [hf] at h
  | some y =>
    simp only [hf, Option.map_some, Option.some.injEq] at h
    have hy := List.mem_of_find?_eq_some hf
    have hp := List.find?_some hf
    have : y.1 = i := by simpa using hp
    have hyy : y = (i, v) := by
      cases y with
      | mk a b => simp only at this h; subst this; subst h; rfl
    rw [← hyy]; exact hy

theorem mem_ksSet {m : KSync} {i : Int} {v : Option Int} {x : Int × Option Int} (h : x ∈ ksSet m i v) :
    x = (i, v) ∨ x ∈ m := by
  unfold ksSet at h
  split at h
  · obtain ⟨y, hy, rfl⟩ := List.mem_map.mp h
    split
    · exact Or.inl rfl
    · exact Or.inr hy
  · simp only [List.mem_append, List.mem_singleton] at h
    rcases h with h | h
    · exact Or.inr h
    · exact Or.inl h

end Hta.C08
