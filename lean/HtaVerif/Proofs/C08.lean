import HtaVerif.Model.C08
/-!
Helper lemmas for the kernel loop of the critical-path graph: the two small finite maps
(`setLast`/`lastOn`, `ksSet`/`ksGet`).
-/
namespace Hta.C08

theorem mem_setLast {l : KS} {s : Int} {n : NodeId} {x : Int × NodeId} (h : x ∈ setLast l s n) :
    x = (s, n) ∨ x ∈ l := by
  unfold setLast at h
  split at h
  · obtain ⟨y, hy, rfl⟩ := List.mem_map.mp h
    split
    · exact Or.inl rfl
    · exact Or.inr hy
  · simp only [List.mem_append, List.mem_singleton] at h
    rcases h with h | h
    · exact Or.inr h
    · exact Or.inl h

theorem lastOn_mem {l : KS} {s : Int} {n : NodeId} (h : lastOn l s = some n) : (s, n) ∈ l := by
  unfold lastOn at h
  cases hf : l.find? (fun x => x.1 == s) with
  | none => simp [hf] at h
  | some y =>
    simp only [hf, Option.map_some, Option.some.injEq] at h
    have hy := List.mem_of_find?_eq_some hf
    have hp := List.find?_some hf
    have : y.1 = s := by simpa using hp
    have hyy : y = (s, n) := by
      cases y with
      | mk a b => simp only at this h; subst this; subst h; rfl
    rw [← hyy]; exact hy

theorem ksGet_mem {m : KSync} {i : Int} {v : Option Int} (h : ksGet m i = some v) : (i, v) ∈ m := by
  unfold ksGet at h
  cases hf : m.find? (fun x => x.1 == i) with
  | none => simp [hf] at h
  | some y =>
    simp only [hf, Option.map_some, Option.some.injEq] at h
    have hy := List.mem_of_find?_eq_some hf
    have hp := List.find?_some hf
    have : y.1 = i := by simpa using hp
    have hyy : y = (i, v) := by
      cases y with
      | mk a b => simp only at this h; subst this; subst h; rfl
    rw [← hyy]; exact hy

theorem mem_ksSet {m : KSync} {i : Int} {v : Option Int} {x : Int × Option Int} (h : x ∈ ksSet m i v) :
    x = (i, v) ∨ x ∈ m := by
  unfold ksSet at h
  split at h
  · obtain ⟨y, hy, rfl⟩ := List.mem_map.mp h
    split
    · exact Or.inl rfl
    · exact Or.inr hy
  · simp only [List.mem_append, List.mem_singleton] at h
    rcases h with h | h
    · exact Or.inr h
    · exact Or.inl h

/-- `lastIdx` returns the position of the last element satisfying `p` (counting from `i`). -/
theorem lastIdx_spec {α : Type} (p : α → Bool) (l : List α) (i : Nat) (acc : Option Nat) (k : Nat)
    (h : lastIdx p l i acc = some k) :
    (acc = some k ∧ ∀ x ∈ l, p x = false) ∨
    (i ≤ k ∧ ∃ x, l[k - i]? = some x ∧ p x = true ∧ ∀ j, k - i < j → ∀ y, l[j]? = some y → p y = false) := by
  induction l generalizing i acc with
  | nil =>
    simp only [lastIdx] at h
    exact Or.inl ⟨h, by intro x hx; cases hx⟩
  | cons a as ih =>
    simp only [lastIdx] at h
    rcases ih (i + 1) _ h with ⟨hacc, hall⟩ | ⟨hik, x, hx, hpx, hlast⟩
    · by_cases hpa : p a = true
      · simp only [hpa, if_true, Option.some.injEq] at hacc
        right
        refine ⟨by omega, a, ?_, hpa, ?_⟩
        · subst hacc; simp
        · intro j hj y hy
          subst hacc
          have : j = (j - 1) + 1 := by omega
          rw [this, List.getElem?_cons_succ] at hy
          exact hall y (List.mem_of_getElem? hy)
      · have hpa' : p a = false := by simpa using hpa
        simp only [hpa', Bool.false_eq_true, if_false] at hacc
        left
        exact ⟨hacc, by intro y hy; rcases List.mem_cons.mp hy with rfl | hy; exact hpa'; exact hall y hy⟩
    · right
      refine ⟨by omega, x, ?_, hpx, ?_⟩
      · have : k - i = (k - (i + 1)) + 1 := by omega
        rw [this, List.getElem?_cons_succ]; exact hx
      · intro j hj y hy
        have hj1 : j = (j - 1) + 1 := by omega
        rw [hj1, List.getElem?_cons_succ] at hy
        exact hlast (j - 1) (by omega) y hy


theorem lastIdx_none {α : Type} (p : α → Bool) (l : List α) (i : Nat)
    (h : lastIdx p l i none = none) : ∀ x ∈ l, p x = false := by
  induction l generalizing i with
  | nil => intro x hx; cases hx
  | cons a as ih =>
    simp only [lastIdx] at h
    by_cases hpa : p a = true
    · simp only [hpa, if_true] at h
      rcases hk : lastIdx p as (i + 1) (some i) with _ | k
      · -- an accumulator that is `some` can never become `none`
        exfalso
        have : ∀ (l : List α) (j : Nat) (a : Nat), lastIdx p l j (some a) ≠ none := by
          intro l
          induction l with
          | nil => intro j a h; simp [lastIdx] at h
          | cons b bs ihb =>
            intro j a h
            simp only [lastIdx] at h
            split at h
            · exact ihb _ _ h
            · exact ihb _ _ h
        exact this as (i + 1) i hk
      · rw [hk] at h; cases h
    · have hpa' : p a = false := by simpa using hpa
      simp only [hpa', Bool.false_eq_true, if_false] at h
      intro y hy
      rcases List.mem_cons.mp hy with rfl | hy
      · exact hpa'
      · exact ih (i + 1) h y hy


/-! ### `setLast` / `lastOn` as a finite map with one entry per stream -/
theorem lastOn_setLast (l : KS) (s s' : Int) (n : NodeId) (hnd : (l.map (·.1)).Nodup) :
    lastOn (setLast l s n) s' = if s' = s then some n else lastOn l s' := by
  induction l with
  | nil =>
    simp only [setLast, List.any_nil, Bool.false_eq_true, if_false, List.nil_append, lastOn, List.find?_cons, List.find?_nil]
    by_cases h : s' = s
    · subst h; simp
    · have : (s == s') = false := by simpa using (fun e => h e.symm)
      simp [this, h]
  | cons x xs ih =>
    have hnd' := List.nodup_cons.mp hnd
    by_cases hx : x.1 = s
    · -- the head is the entry for `s`
      have hany : (x :: xs).any (fun y => y.1 == s) = true := by simp [hx]
      have hnot : ∀ y ∈ xs, (y.1 == s) = false := by
        intro y hy
        apply beq_false_of_ne
        intro h
        apply hnd'.1
        exact List.mem_map.mpr ⟨y, hy, by simp only []; rw [h, hx]⟩
      have hmap : xs.map (fun y => if y.1 == s then (s, n) else y) = xs := by
        have : ∀ y ∈ xs, (fun (y : Int × NodeId) => if y.1 == s then (s, n) else y) y = id y := by
          intro y hy; simp [hnot y hy]
        rw [List.map_congr_left this, List.map_id]
      simp only [setLast, hany, if_true, List.map_cons, hmap]
      have hxs : (x.1 == s) = true := by simp [hx]
      simp only [hxs, if_true, lastOn, List.find?_cons]
      by_cases h : s' = s
      · subst h; simp
      · have h1 : (s == s') = false := by simpa using (fun e => h e.symm)
        have h2 : (x.1 == s') = false := by rw [hx]; exact h1
        simp [h1, h2, h]
    · have hxs : (x.1 == s) = false := by simpa using hx
      have ih' := ih hnd'.2
      by_cases hany : xs.any (fun y => y.1 == s) = true
      · have hany' : (x :: xs).any (fun y => y.1 == s) = true := by simp [hany]
        simp only [setLast, hany', if_true, List.map_cons, hxs, Bool.false_eq_true, if_false] at ih' ⊢
        simp only [setLast, hany, if_true] at ih'
        simp only [lastOn, List.find?_cons] at ih' ⊢
        by_cases hx' : (x.1 == s') = true
        · have : s' ≠ s := by intro e; subst e; rw [hx'] at hxs; cases hxs
          simp [hx', this]
        · have hx'' : (x.1 == s') = false := by simpa using hx'
          simp only [hx'', Bool.false_eq_true, if_false]
          exact ih'
      · have hany0 : xs.any (fun y => y.1 == s) = false := by
          cases hb : xs.any (fun y => y.1 == s) with
          | true => exact absurd hb hany
          | false => rfl
        have hany' : (x :: xs).any (fun y => y.1 == s) = false := by simp [hany0, hxs]
        simp only [setLast, hany', Bool.false_eq_true, if_false, List.cons_append] at ih' ⊢
        simp only [setLast, hany0, Bool.false_eq_true, if_false] at ih'
        simp only [lastOn, List.find?_cons] at ih' ⊢
        by_cases hx' : (x.1 == s') = true
        · have : s' ≠ s := by intro e; subst e; rw [hx'] at hxs; cases hxs
          simp [hx', this]
        · have hx'' : (x.1 == s') = false := by simpa using hx'
          simp only [hx'', Bool.false_eq_true, if_false]
          exact ih'

theorem setLast_nodup (l : KS) (s : Int) (n : NodeId) (hnd : (l.map (·.1)).Nodup) :
    ((setLast l s n).map (·.1)).Nodup := by
  unfold setLast
  split
  · have : (l.map fun x => if x.1 == s then (s, n) else x).map (·.1) = l.map (·.1) := by
      rw [List.map_map]
      apply List.map_congr_left
      intro x _
      simp only [Function.comp]
      split
      · rename_i h; simpa using (by simpa using h : x.1 = s).symm
      · rfl
    rw [this]; exact hnd
  · rename_i h
    rw [List.map_append, List.map_cons, List.map_nil]
    apply List.nodup_append.mpr
    refine ⟨hnd, by simp, ?_⟩
    intro a ha b hb
    simp only [List.mem_singleton] at hb
    subst hb
    intro e
    apply h
    obtain ⟨y, hy, rfl⟩ := List.mem_map.mp ha
    exact List.any_eq_true.mpr ⟨y, hy, by simp [e]⟩

end Hta.C08
