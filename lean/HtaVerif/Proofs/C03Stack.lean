import HtaVerif.Proofs.C03Order
/-! The push/pop loop over a sorted token list: invariant and consequences. -/
namespace Hta.C03

def isOpen (t : Tok) : Bool := t.kind == -1

/-- The stack found when the start token of `f` is processed: exactly the start tokens of the
events opened before `f`'s start and closed after it, most recently opened first. -/
def StackFor (po : Int → Bool) (es : List Ev) (f : Ev) (stk : List Tok) : Prop :=
  stk.Pairwise (fun x y => tokLt po y x) ∧
  ∀ x, x ∈ stk ↔ ∃ e ∈ es, x = openTok e ∧ tokLt po x (openTok f) ∧ tokLt po (openTok f) (closeTok e)

def Good (po : Int → Bool) (es : List Ev) (f : Ev) (ent : Entry) : Prop :=
  ∃ stk, StackFor po es f stk ∧ ent = (f.idx, parentOf stk, stk.length)

structure Inv (po : Int → Bool) (es : List Ev) (P : List Tok) (s : St) : Prop where
  mem : ∀ x, x ∈ s.stack ↔ ∃ e ∈ es, x = openTok e ∧ x ∈ P ∧ closeTok e ∉ P
  sorted : s.stack.Pairwise (fun x y => tokLt po y x)
  outIdx : s.out.map (·.1) = (P.filter isOpen).map (·.idx)
  outGood : ∀ ent ∈ s.out, ∃ f ∈ es, openTok f ∈ P ∧ Good po es f ent

theorem mem_tokens {es : List Ev} {t : Tok} :
    t ∈ tokens es ↔ ∃ e ∈ es, t = openTok e ∨ t = closeTok e := by
  simp only [tokens, List.mem_append, List.mem_map]
  constructor
  · rintro (⟨e, he, rfl⟩ | ⟨e, he, rfl⟩)
    · exact ⟨e, he, Or.inl rfl⟩
    · exact ⟨e, he, Or.inr rfl⟩
  · rintro ⟨e, he, rfl | rfl⟩
    · exact Or.inl ⟨e, he, rfl⟩
    · exact Or.inr ⟨e, he, rfl⟩

theorem open_ne_close (e f : Ev) : openTok e ≠ closeTok f := by
  intro h
  have : (openTok e).kind = (closeTok f).kind := by rw [h]
  simp [openTok, closeTok] at this

theorem openTok_inj {es : List Ev} (wf : WF es) {e f : Ev} (he : e ∈ es) (hf : f ∈ es)
    (h : openTok e = openTok f) : e = f := by
  apply wf.idxInj e he f hf
  have : (openTok e).idx = (openTok f).idx := by rw [h]
  simpa [openTok] using this

theorem closeTok_inj {es : List Ev} (wf : WF es) {e f : Ev} (he : e ∈ es) (hf : f ∈ es)
    (h : closeTok e = closeTok f) : e = f := by
  apply wf.idxInj e he f hf
  have : (closeTok e).idx = (closeTok f).idx := by rw [h]
  simpa [closeTok] using this

/-- One step of the loop preserves the invariant. -/
theorem inv_step (po : Int → Bool) (es : List Ev) (wf : WF es) (S P Q : List Tok) (t : Tok) (s : St)
    (hperm : S.Perm (tokens es)) (hs : S.Pairwise (tokLt po)) (hS : S = P ++ t :: Q)
    (inv : Inv po es P s) : Inv po es (P ++ [t]) (step s t) := by
  -- facts about the position of `t`
  have hpw := hs
  rw [hS] at hpw
  have hPQ := List.pairwise_append.mp hpw
  have hbefore : ∀ x ∈ P, tokLt po x t := fun x hx => hPQ.2.2 x hx t List.mem_cons_self
  have hafter : ∀ y ∈ Q, tokLt po t y := fun y hy => (List.pairwise_cons.mp hPQ.2.1).1 y hy
  have htP : t ∉ P := fun h => tokLt_irrefl po t (hbefore t h)
  have hcover : ∀ u, u ∈ tokens es → u ∈ P ∨ u = t ∨ u ∈ Q := by
    intro u hu
    have : u ∈ S := hperm.mem_iff.mpr hu
    rw [hS] at this
    simpa [List.mem_append, List.mem_cons] using this
  have htS : t ∈ tokens es := hperm.mem_iff.mp (by rw [hS]; simp)
  obtain ⟨f, hf, hft⟩ := mem_tokens.mp htS
  have hdur : ∀ e ∈ es, 0 ≤ e.dur := wf.durNonneg
  -- membership helpers
  have inP_of_lt : ∀ u, u ∈ tokens es → tokLt po u t → u ∈ P := by
    intro u hu hlt
    rcases hcover u hu with h | h | h
    · exact h
    · subst h; exact absurd hlt (tokLt_irrefl po _)
    · exact absurd hlt (tokLt_asymm (hafter u h))
  have gt_of_notP : ∀ u, u ∈ tokens es → u ∉ P → u ≠ t → tokLt po t u := by
    intro u hu hnp hne
    rcases hcover u hu with h | h | h
    · exact absurd h hnp
    · exact absurd h hne
    · exact hafter u h
  rcases hft with rfl | rfl
  · -- start token of f: push
    have hk : (openTok f).kind == -1 := by simp [openTok]
    have hstep : step s (openTok f) = St.mk (openTok f :: s.stack)
        (s.out ++ [((openTok f).idx, parentOf s.stack, s.stack.length)]) := by
      simp [step, hk]
    rw [hstep]
    have hclose_notin : closeTok f ∉ P ++ [openTok f] := by
      intro h
      rcases List.mem_append.mp h with h | h
      · exact tokLt_asymm (open_lt_close po (hdur f hf)) (hbefore _ h)
      · simp at h; exact open_ne_close f f h.symm
    refine ⟨?_, ?_, ?_, ?_⟩
    · intro x
      simp only [List.mem_cons, List.mem_append, List.not_mem_nil, or_false]
      constructor
      · rintro (rfl | hx)
        · exact ⟨f, hf, rfl, Or.inr rfl, by simpa [List.mem_append] using hclose_notin⟩
        · obtain ⟨e, he, rfl, hxP, hce⟩ := (inv.mem x).mp hx
          refine ⟨e, he, rfl, Or.inl hxP, ?_⟩
          rintro (h | h)
          · exact hce h
          · exact open_ne_close f e h.symm
      · rintro ⟨e, he, rfl, hx, hce⟩
        rcases hx with hx | hx
        · right
          exact (inv.mem _).mpr ⟨e, he, rfl, hx, fun h => hce (Or.inl h)⟩
        · left; exact hx
    · apply List.pairwise_cons.mpr
      refine ⟨?_, inv.sorted⟩
      intro y hy
      obtain ⟨e, he, rfl, hyP, _⟩ := (inv.mem y).mp hy
      exact hbefore _ hyP
    · simp only [List.map_append, List.filter_append, List.map_cons, List.map_nil, List.filter_cons,
        List.filter_nil, inv.outIdx]
      simp [isOpen, hk]
    · intro ent hent
      rcases List.mem_append.mp hent with h | h
      · obtain ⟨g, hg, hgP, hgood⟩ := inv.outGood ent h
        exact ⟨g, hg, List.mem_append_left _ hgP, hgood⟩
      · simp at h
        refine ⟨f, hf, by simp, s.stack, ⟨inv.sorted, ?_⟩, by rw [h]; simp [openTok]⟩
        intro x
        constructor
        · intro hx
          obtain ⟨e, he, rfl, hxP, hce⟩ := (inv.mem x).mp hx
          refine ⟨e, he, rfl, hbefore _ hxP, ?_⟩
          exact gt_of_notP _ (mem_tokens.mpr ⟨e, he, Or.inr rfl⟩) hce (fun h => open_ne_close f e h.symm)
        · rintro ⟨e, he, rfl, hlt, hgt⟩
          refine (inv.mem _).mpr ⟨e, he, rfl, inP_of_lt _ (mem_tokens.mpr ⟨e, he, Or.inl rfl⟩) hlt, ?_⟩
          intro h
          exact tokLt_asymm hgt (hbefore _ h)
  · -- end token of f: pop; the top of the stack is f's start token
    have hk : ¬ ((closeTok f).kind == -1) := by simp [closeTok]
    have hstep : step s (closeTok f) = St.mk s.stack.tail s.out := by
      simp [step, hk]
    rw [hstep]
    have hopenP : openTok f ∈ P :=
      inP_of_lt _ (mem_tokens.mpr ⟨f, hf, Or.inl rfl⟩) (open_lt_close po (hdur f hf))
    have hopen_in : openTok f ∈ s.stack := (inv.mem _).mpr ⟨f, hf, rfl, hopenP, htP⟩
    -- the stack is `openTok f :: rest`
    obtain ⟨h, rest, hstack⟩ : ∃ h rest, s.stack = h :: rest := by
      cases hst : s.stack with
      | nil => rw [hst] at hopen_in; cases hopen_in
      | cons h rest => exact ⟨h, rest, rfl⟩
    have hsorted := inv.sorted
    rw [hstack] at hsorted hopen_in
    have hhead : h = openTok f := by
      apply Classical.byContradiction
      intro hne
      have hin : openTok f ∈ rest := by
        rcases List.mem_cons.mp hopen_in with h1 | h1
        · exact absurd h1.symm hne
        · exact h1
      have hlt : tokLt po (openTok f) h := (List.pairwise_cons.mp hsorted).1 _ hin
      obtain ⟨g, hg, rfl, hgP, hcg⟩ := (inv.mem h).mp (by rw [hstack]; exact List.mem_cons_self)
      have hgf : g ≠ f := fun e => hne (by rw [e])
      have hidx : f.idx ≠ g.idx := fun e => hgf (wf.idxInj g hg f hf e.symm)
      have hcne : closeTok g ≠ closeTok f := fun e => hgf (closeTok_inj wf hg hf e)
      have h3 : tokLt po (closeTok f) (closeTok g) :=
        gt_of_notP _ (mem_tokens.mpr ⟨g, hg, Or.inr rfl⟩) hcg hcne
      have h2 : tokLt po (openTok g) (closeTok f) := hbefore _ hgP
      exact laminar po (hdur f hf) (hdur g hg) hidx
        (fun ha hb => wf.nested f hf g hg ha hb) ⟨hlt, h2, h3⟩
    subst hhead
    have hnotin : openTok f ∉ rest := by
      intro h
      exact tokLt_irrefl po _ ((List.pairwise_cons.mp hsorted).1 _ h)
    refine ⟨?_, ?_, ?_, ?_⟩
    · intro x
      simp only [hstack, List.tail_cons, List.mem_append, List.mem_singleton]
      constructor
      · intro hx
        obtain ⟨e, he, rfl, hxP, hce⟩ := (inv.mem x).mp (by rw [hstack]; exact List.mem_cons_of_mem _ hx)
        refine ⟨e, he, rfl, Or.inl hxP, ?_⟩
        rintro (h | h)
        · exact hce h
        · have : e = f := closeTok_inj wf he hf h
          subst this
          exact hnotin hx
      · rintro ⟨e, he, rfl, hx, hce⟩
        have hxP : openTok e ∈ P := by
          rcases hx with hx | hx
          · exact hx
          · exact absurd hx (open_ne_close e f)
        have hin := (inv.mem _).mpr ⟨e, he, rfl, hxP, fun h => hce (Or.inl h)⟩
        rw [hstack] at hin
        rcases List.mem_cons.mp hin with h1 | h1
        · have : e = f := openTok_inj wf he hf h1
          subst this
          exact absurd (Or.inr rfl) hce
        · exact h1
    · simp only [hstack, List.tail_cons]
      exact (List.pairwise_cons.mp hsorted).2
    · simp only [List.filter_append, List.filter_cons, List.filter_nil, inv.outIdx]
      simp [isOpen, hk]
    · intro ent hent
      obtain ⟨g, hg, hgP, hgood⟩ := inv.outGood ent hent
      exact ⟨g, hg, List.mem_append_left _ hgP, hgood⟩

theorem inv_init (po : Int → Bool) (es : List Ev) : Inv po es [] { stack := [], out := [] } :=
  ⟨by intro x; simp, List.Pairwise.nil, rfl, by intro e h; cases h⟩

theorem inv_run (po : Int → Bool) (es : List Ev) (wf : WF es) (S : List Tok)
    (hperm : S.Perm (tokens es)) (hs : S.Pairwise (tokLt po)) :
    ∀ (Q P : List Tok) (s : St), S = P ++ Q → Inv po es P s → Inv po es S (Q.foldl step s) := by
  intro Q
  induction Q with
  | nil => intro P s hS inv; simp at hS; subst hS; exact inv
  | cons t Q ih =>
    intro P s hS inv
    have := inv_step po es wf S P Q t s hperm hs hS inv
    exact ih (P ++ [t]) (step s t) (by rw [hS]; simp) this

end Hta.C03
