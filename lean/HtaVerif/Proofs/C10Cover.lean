import HtaVerif.Props.C08
/-!
Helper theory for C10's covering clause: the event `_attribute_edge` picks for a span edge of a
host thread's call-stack walk covers the edge's time range.

The walk (`dfsRun`) visits the sorted endpoint tokens of one thread. `Laminar`/`TokFacts` collect what
the argument needs from that order (each fact stated relative to a split `toks = done ++ cur :: rest`),
`tokFacts_of_wf` derives all of them from `C03.WF` through the call-stack theorems of C03, `CovInv` is
the invariant of the walk, `dfsStep_cover`/`dfsRun_cover` the induction, `descs_cover` the statement
for everything the construction emits (the kernel loop only emits an event's own start → end span).
-/
set_option linter.unusedSimpArgs false
namespace Hta.C08
open C03 (Tok)

/-- What the sorted endpoint tokens of a properly nested thread guarantee, stated relative to every
split `toks = done ++ cur :: rest` (the order is laminar with respect to `parent`). -/
structure Laminar (toks : List Tok) (parent : Int → Int) : Prop where
  sorted : toks.Pairwise fun a b => a.time ≤ b.time
  openBeforeClose : ∀ done cur rest, toks = done ++ cur :: rest → cur.kind ≠ -1 →
    ∃ s ∈ done, s.idx = cur.idx ∧ s.kind = -1
  closeAfterOpen : ∀ done cur rest, toks = done ++ cur :: rest → cur.kind = -1 →
    ∃ e ∈ rest, e.idx = cur.idx ∧ e.kind ≠ -1
  parentOpen : ∀ done cur rest, toks = done ++ cur :: rest → 0 ≤ parent cur.idx →
    (∃ s ∈ done, s.idx = parent cur.idx ∧ s.kind = -1) ∧ (∃ e ∈ rest, e.idx = parent cur.idx ∧ e.kind ≠ -1)

/-- time of the start / end of event `i` as the graph sees it -/
def evStart (rows : List Row) (i : Int) : Int := tsOf rows ⟨i, true⟩
def evEnd (rows : List Row) (i : Int) : Int := tsOf rows ⟨i, false⟩

/-- The event attributed to a span edge covers the edge's time range. -/
def CoverOK (rows : List Row) (d : Desc) : Prop :=
  let a := attrEv (mkEdge rows d.src d.dst d.ty d.zero) d.par
  0 ≤ a → evStart rows a ≤ tsOf rows d.src ∧ tsOf rows d.dst ≤ evEnd rows a

structure CovInv (rows : List Row) (nodeEv : Int → Bool) (done rest : List Tok) (s : DS) : Prop where
  nodeLast : ∀ n, s.lastNode = some n → nodeEv n.ev = true
  /-- after a start node: the event is still open -/
  openLast : ∀ a, s.lastNode = some ⟨a, true⟩ → ∃ e ∈ rest, e.idx = a ∧ e.kind ≠ -1
  /-- after an end node: every node event opened so far started no later -/
  startsBefore : ∀ c, s.lastNode = some ⟨c, false⟩ → ∀ x ∈ done, nodeEv x.idx = true → x.kind = -1 → x.time ≤ evEnd rows c
  /-- after an end node: the recorded parent began no later and is still open -/
  parOK : ∀ c, s.lastNode = some ⟨c, false⟩ → 0 ≤ s.lastPar →
    evStart rows s.lastPar ≤ evEnd rows c ∧ ∃ e ∈ rest, e.idx = s.lastPar ∧ e.kind ≠ -1

theorem time_le_of_mem_rest {cur : Tok} {rest : List Tok}
    (hs : (cur :: rest).Pairwise fun a b => a.time ≤ b.time) {e : Tok} (he : e ∈ rest) : cur.time ≤ e.time :=
  (List.pairwise_cons.mp hs).1 e he


/-- Facts about the tokens of one thread that the covering argument uses. -/
structure TokFacts (rows : List Row) (toks : List Tok) (parent : Int → Int) : Prop where
  lam : Laminar toks parent
  kind : ∀ tk ∈ toks, tk.kind = -1 ∨ tk.kind = 1
  idx : ∀ tk ∈ toks, 0 ≤ tk.idx
  time : ∀ tk ∈ toks, tsOf rows ⟨tk.idx, tk.kind == -1⟩ = tk.time
  parentStart : ∀ tk ∈ toks, 0 ≤ parent tk.idx → evStart rows (parent tk.idx) ≤ evStart rows tk.idx

theorem tok_time_open {rows : List Row} {toks : List Tok} {parent : Int → Int} (F : TokFacts rows toks parent)
    {tk : Tok} (h : tk ∈ toks) (hk : tk.kind = -1) : evStart rows tk.idx = tk.time := by
  have := F.time tk h
  simpa [evStart, hk] using this

theorem tok_time_close {rows : List Row} {toks : List Tok} {parent : Int → Int} (F : TokFacts rows toks parent)
    {tk : Tok} (h : tk ∈ toks) (hk : tk.kind ≠ -1) : evEnd rows tk.idx = tk.time := by
  have := F.time tk h
  have hb : (tk.kind == -1) = false := by simpa using hk
  simpa [evEnd, hb] using this

theorem attrEv_op (rows : List Row) (src dst : NodeId) (z : Bool) (par : Int) :
    attrEv (mkEdge rows src dst .op z) par = if src.isStart then src.ev else if !dst.isStart then dst.ev else par := by
  have : (ETy.op == ETy.kk) = false := by decide
  simp [attrEv, mkEdge, this]

theorem dfsStep_cover (rows : List Row) (nodeEv : Int → Bool) (parent : Int → Int) (blocking : Int → Bool)
    (toks done rest : List Tok) (t : Tok) (s : DS) (F : TokFacts rows toks parent)
    (hsplit : toks = done ++ t :: rest) (inv : CovInv rows nodeEv done (t :: rest) s) :
    (∀ d ∈ (dfsStep nodeEv parent blocking s t).2, d.ty = .op → CoverOK rows d) ∧
    CovInv rows nodeEv (done ++ [t]) rest (dfsStep nodeEv parent blocking s t).1 := by
  have htmem : t ∈ toks := by rw [hsplit]; simp
  have hdone : ∀ x ∈ done, x ∈ toks := by intro x hx; rw [hsplit]; exact List.mem_append_left _ hx
  have hrest : ∀ x ∈ rest, x ∈ toks := by intro x hx; rw [hsplit]; simp [hx]
  have hsorted_all : toks.Pairwise fun a b => a.time ≤ b.time := F.lam.sorted
  have hdone_le : ∀ x ∈ done, x.time ≤ t.time := by
    intro x hx
    rw [hsplit] at hsorted_all
    exact (List.pairwise_append.mp hsorted_all).2.2 x hx t List.mem_cons_self
  have hrest_ge : ∀ e ∈ rest, t.time ≤ e.time := by
    intro e he
    rw [hsplit] at hsorted_all
    exact (List.pairwise_cons.mp (List.pairwise_append.mp hsorted_all).2.1).1 e he
  unfold dfsStep
  split
  · -- an event without graph nodes
    rename_i hnn
    have hnode : nodeEv t.idx = false := by simpa using hnn
    refine ⟨(by intro d hd; cases hd), ?_⟩
    split
    · -- its end token, and it was the recorded parent: the parent's parent takes over
      rename_i hm
      simp only [Bool.and_eq_true, beq_iff_eq] at hm
      refine ⟨inv.nodeLast, ?_, ?_, ?_⟩
      · intro a ha
        obtain ⟨e, he, hea, hek⟩ := inv.openLast a ha
        rcases List.mem_cons.mp he with rfl | he
        · have := inv.nodeLast _ ha; simp only at this; rw [← hea, hnode] at this; cases this
        · exact ⟨e, he, hea, hek⟩
      · intro c hc x hx hxn hxk
        rcases List.mem_append.mp hx with hx | hx
        · exact inv.startsBefore c hc x hx hxn hxk
        · simp only [List.mem_singleton] at hx; subst hx; rw [hnode] at hxn; cases hxn
      · intro c hc hp
        have hold := inv.parOK c hc (by rw [hm.2]; exact F.idx t htmem)
        obtain ⟨⟨sp, hsp, hspi, hspk⟩, ⟨ep, hep, hepi, hepk⟩⟩ := F.lam.parentOpen done t rest hsplit hp
        refine ⟨?_, ep, hep, hepi, hepk⟩
        have h1 := F.parentStart t htmem hp
        have h2 := hold.1
        rw [hm.2] at h2
        exact Int.le_trans h1 h2
    · rename_i hm
      refine ⟨inv.nodeLast, ?_, ?_, ?_⟩
      · intro a ha
        obtain ⟨e, he, hea, hek⟩ := inv.openLast a ha
        rcases List.mem_cons.mp he with rfl | he
        · have := inv.nodeLast _ ha; simp only at this; rw [← hea, hnode] at this; cases this
        · exact ⟨e, he, hea, hek⟩
      · intro c hc x hx hxn hxk
        rcases List.mem_append.mp hx with hx | hx
        · exact inv.startsBefore c hc x hx hxn hxk
        · simp only [List.mem_singleton] at hx; subst hx; rw [hnode] at hxn; cases hxn
      · intro c hc hp
        obtain ⟨h1, e, he, hei, hek⟩ := inv.parOK c hc hp
        refine ⟨h1, ?_⟩
        rcases List.mem_cons.mp he with rfl | he
        · exfalso
          apply hm
          have hk1 : e.kind = 1 := by rcases F.kind e htmem with h | h; exact absurd h hek; exact h
          simp [hk1, hei]
        · exact ⟨e, he, hei, hek⟩
  · rename_i hnn
    have hnode : nodeEv t.idx = true := by simpa using hnn
    split
    · -- start node
      rename_i hk
      have hk' : t.kind = -1 := by simpa using hk
      have hstart : tsOf rows ⟨t.idx, true⟩ = t.time := by have := tok_time_open F htmem hk'; simpa [evStart] using this
      constructor
      · intro d hd hty
        simp only [List.mem_append] at hd
        rcases hd with hd | hd
        · cases hdp : s.depth <;> cases hh : s.lastHigh <;> simp [hdp, hh] at hd
          subst hd; cases hty
        · cases hln : s.lastNode with
          | none => simp [hln] at hd
          | some ln =>
            simp [hln] at hd; subst hd
            unfold CoverOK
            simp only [attrEv_op]
            intro ha
            obtain ⟨lev, lst⟩ := ln
            cases lst with
            | true =>
              simp only [if_true, Bool.false_eq_true, if_false, Bool.not_true, Bool.not_false] at ha ⊢
              obtain ⟨e, he, hei, hek⟩ := inv.openLast lev hln
              have he' : e ∈ rest := by
                rcases List.mem_cons.mp he with rfl | he
                · exact absurd hk' hek
                · exact he
              refine ⟨by simp [evStart], ?_⟩
              rw [hstart]
              have := tok_time_close F (hrest e he') hek
              rw [hei] at this
              rw [this]; exact hrest_ge e he'
            | false =>
              simp only [if_true, Bool.false_eq_true, if_false, Bool.not_true, Bool.not_false] at ha ⊢
              obtain ⟨h1, e, he, hei, hek⟩ := inv.parOK lev hln (by simpa using ha)
              have he' : e ∈ rest := by
                rcases List.mem_cons.mp he with rfl | he
                · exact absurd hk' hek
                · exact he
              refine ⟨by simpa [evEnd] using h1, ?_⟩
              rw [hstart]
              have := tok_time_close F (hrest e he') hek
              rw [hei] at this
              rw [this]; exact hrest_ge e he'
      · refine ⟨by intro n h; simp at h; subst h; exact hnode, ?_, by intro c h; simp at h, by intro c h; simp at h⟩
        intro a ha
        simp at ha; subst ha
        exact F.lam.closeAfterOpen done t rest hsplit hk'
    · -- end node
      rename_i hk
      have hk' : t.kind ≠ -1 := by simpa using hk
      have hend : tsOf rows ⟨t.idx, false⟩ = t.time := by have := tok_time_close F htmem hk'; simpa [evEnd] using this
      obtain ⟨s0, hs0, hs0i, hs0k⟩ := F.lam.openBeforeClose done t rest hsplit hk'
      have hs0t : evStart rows t.idx = s0.time := by rw [← hs0i]; exact tok_time_open F (hdone s0 hs0) hs0k
      have hspan : ∀ d ∈ (match s.lastNode with
          | some ln => [(⟨ln, ⟨t.idx, false⟩, .op, blocking t.idx, s.lastPar⟩ : Desc)]
          | none => []), d.ty = .op → CoverOK rows d := by
        intro d hd _
        cases hln : s.lastNode with
        | none => simp [hln] at hd
        | some ln =>
          simp [hln] at hd; subst hd
          unfold CoverOK
          simp only [attrEv_op]
          intro ha
          obtain ⟨lev, lst⟩ := ln
          cases lst with
          | true =>
            simp only [if_true, Bool.false_eq_true, if_false, Bool.not_true, Bool.not_false] at ha ⊢
            obtain ⟨e, he, hei, hek⟩ := inv.openLast lev hln
            refine ⟨by simp [evStart], ?_⟩
            rw [hend]
            rcases List.mem_cons.mp he with rfl | he
            · have := tok_time_close F htmem hek; rw [hei] at this; rw [this]; exact Int.le_refl _
            · have := tok_time_close F (hrest e he) hek; rw [hei] at this; rw [this]; exact hrest_ge e he
          | false =>
            simp only [if_true, Bool.false_eq_true, if_false, Bool.not_true, Bool.not_false] at ha ⊢
            refine ⟨?_, by simp [evEnd]⟩
            rw [hs0t]
            have := inv.startsBefore lev hln s0 hs0 (by rw [hs0i]; exact hnode) hs0k
            simpa [evEnd] using this
      simp only []
      split
      · refine ⟨hspan, ⟨by intro n h; simp at h, by intro a h; simp at h, by intro c h; simp at h, by intro c h; simp at h⟩⟩
      · refine ⟨hspan, ⟨by intro n h; simp at h; subst h; exact hnode, by intro a h; simp at h, ?_, ?_⟩⟩
        · intro c hc x hx hxn hxk
          simp at hc; subst hc
          have hev : evEnd rows t.idx = t.time := by simpa [evEnd] using hend
          rw [hev]
          rcases List.mem_append.mp hx with hx | hx
          · exact hdone_le x hx
          · simp only [List.mem_singleton] at hx; subst hx; exact absurd hxk hk'
        · intro c hc hp
          simp at hc; subst hc
          simp only [] at hp ⊢
          obtain ⟨_, ⟨ep, hep, hepi, hepk⟩⟩ := F.lam.parentOpen done t rest hsplit hp
          refine ⟨?_, ep, hep, hepi, hepk⟩
          have h1 := F.parentStart t htmem hp
          have hev : evEnd rows t.idx = t.time := by simpa [evEnd] using hend
          rw [hev]
          have : s0.time ≤ t.time := hdone_le s0 hs0
          rw [hs0t] at h1
          exact Int.le_trans h1 this


theorem dfsRun_cover (rows : List Row) (nodeEv : Int → Bool) (parent : Int → Int) (blocking : Int → Bool)
    (toks : List Tok) (F : TokFacts rows toks parent) :
    ∀ (rest done : List Tok) (s : DS), toks = done ++ rest → CovInv rows nodeEv done rest s →
      ∀ d ∈ dfsRun nodeEv parent blocking s rest, d.ty = .op → CoverOK rows d := by
  intro rest
  induction rest with
  | nil => intro done s _ _ d hd; cases hd
  | cons t ts ih =>
    intro done s hsplit inv d hd
    obtain ⟨hok, hinv⟩ := dfsStep_cover rows nodeEv parent blocking toks done ts t s F hsplit inv
    simp only [dfsRun, List.mem_append] at hd
    rcases hd with hd | hd
    · exact hok d hd
    · exact ih (done ++ [t]) _ (by rw [hsplit]; simp) hinv d hd

open C03 in
/-- In a token list sorted by the strict token order, everything below `cur` lies before it. -/
theorem mem_done_of_lt {po : Int → Bool} {toks done rest : List Tok} {cur x : Tok}
    (hs : toks.Pairwise (tokLt po)) (hsplit : toks = done ++ cur :: rest) (hx : x ∈ toks) (hlt : tokLt po x cur) :
    x ∈ done := by
  rw [hsplit] at hs hx
  have hp := List.pairwise_append.mp hs
  rcases List.mem_append.mp hx with h | h
  · exact h
  · rcases List.mem_cons.mp h with rfl | h
    · exact absurd hlt (tokLt_irrefl po _)
    · exact absurd hlt (tokLt_asymm ((List.pairwise_cons.mp hp.2.1).1 x h))

open C03 in
theorem mem_rest_of_gt {po : Int → Bool} {toks done rest : List Tok} {cur x : Tok}
    (hs : toks.Pairwise (tokLt po)) (hsplit : toks = done ++ cur :: rest) (hx : x ∈ toks) (hlt : tokLt po cur x) :
    x ∈ rest := by
  rw [hsplit] at hs hx
  have hp := List.pairwise_append.mp hs
  rcases List.mem_append.mp hx with h | h
  · exact absurd hlt (tokLt_asymm (hp.2.2 x h cur List.mem_cons_self))
  · rcases List.mem_cons.mp h with rfl | h
    · exact absurd hlt (tokLt_irrefl po _)
    · exact h

open C03 in
theorem tokLt_time {po : Int → Bool} {a b : Tok} (h : tokLt po a b) : a.time ≤ b.time := by
  unfold tokLt keyLt at h
  have ka : (key po a).1 = a.time := by unfold key; split <;> (try split) <;> rfl
  have kb : (key po b).1 = b.time := by unfold key; split <;> (try split) <;> rfl
  rw [ka, kb] at h
  omega


open C03 in
/-- **The sorted endpoint tokens of a properly nested thread have every fact the covering argument
needs** — derived from `C03.WF` and the call-stack theorems of C03 (`entry_good`, `stackFor_mem`,
`open_lt_close`). -/
theorem tokFacts_of_wf (rows : List Row) (evs : List Ev) (wf : WF evs)
    (hev : ∀ e ∈ evs, 0 ≤ e.idx ∧ tsOf rows ⟨e.idx, true⟩ = e.ts ∧ tsOf rows ⟨e.idx, false⟩ = e.ts + e.dur) :
    TokFacts rows (sortToks (hasPO evs) (tokens evs))
      (fun (i : Int) => (((run evs).find? fun e => e.1 == i).map (·.2.1)).getD (-1)) := by
  have hperm := (sortToks_spec (hasPO evs) wf).1
  have hs := (sortToks_spec (hasPO evs) wf).2
  have hmem : ∀ tk, tk ∈ sortToks (hasPO evs) (tokens evs) ↔ ∃ e ∈ evs, tk = openTok e ∨ tk = closeTok e :=
    fun tk => (hperm.mem_iff).trans mem_tokens
  have htime : ∀ tk ∈ sortToks (hasPO evs) (tokens evs), tsOf rows ⟨tk.idx, tk.kind == -1⟩ = tk.time := by
    intro tk htk
    obtain ⟨e, he, rfl | rfl⟩ := (hmem tk).mp htk
    · simpa [openTok] using (hev e he).2.1
    · simpa [closeTok] using (hev e he).2.2
  -- the parent recorded for a token's event, when there is one
  have hpar : ∀ done cur rest, sortToks (hasPO evs) (tokens evs) = done ++ cur :: rest →
      0 ≤ (((run evs).find? fun e => e.1 == cur.idx).map (·.2.1)).getD (-1) →
      ∃ a ∈ evs, a.idx = (((run evs).find? fun e => e.1 == cur.idx).map (·.2.1)).getD (-1) ∧
        openTok a ∈ done ∧ closeTok a ∈ rest := by
    intro done cur rest hsplit hp
    have hcur : cur ∈ sortToks (hasPO evs) (tokens evs) := by rw [hsplit]; simp
    obtain ⟨f, hf, hcf⟩ := (hmem cur).mp hcur
    have hcidx : cur.idx = f.idx := by rcases hcf with rfl | rfl <;> rfl
    cases hfind : (run evs).find? (fun e => e.1 == cur.idx) with
    | none => rw [hfind] at hp; simp at hp
    | some ent =>
      rw [hfind] at hp
      simp only [Option.map_some, Option.getD_some] at hp ⊢
      have hent : ent ∈ run evs := List.mem_of_find?_eq_some hfind
      have hent1 : ent.1 = cur.idx := by simpa using List.find?_some hfind
      obtain ⟨g, hg, stk, hstk, heq⟩ := entry_good (hasPO evs) evs wf _ hperm hs ent hent
      have hgf : g = f := wf.idxInj g hg f hf (by
        have : ent.1 = g.idx := by rw [heq]
        rw [← this, hent1, hcidx])
      subst hgf
      have hp2 : ent.2.1 = parentOf stk := by rw [heq]
      cases hst : stk with
      | nil => rw [hp2, hst] at hp; simp [parentOf] at hp
      | cons x more =>
        obtain ⟨a, ha, hxa, hta⟩ := (stackFor_mem (hasPO evs) evs wf hf hstk x).mp (by rw [hst]; exact List.mem_cons_self)
        subst hxa
        refine ⟨a, ha, by rw [hp2, hst]; simp [parentOf, openTok], ?_, ?_⟩
        · apply mem_done_of_lt hs hsplit ((hmem _).mpr ⟨a, ha, Or.inl rfl⟩)
          rcases hcf with rfl | rfl
          · exact hta.1
          · exact tokLt_trans hta.1 (open_lt_close _ (wf.durNonneg g hf))
        · apply mem_rest_of_gt hs hsplit ((hmem _).mpr ⟨a, ha, Or.inr rfl⟩)
          rcases hcf with rfl | rfl
          · exact tokLt_trans (open_lt_close _ (wf.durNonneg g hf)) hta.2
          · exact hta.2
  refine ⟨⟨sortToks_time_sorted _ wf, ?_, ?_, ?_⟩, ?_, ?_, htime, ?_⟩
  · -- a close token's open token came earlier
    intro done cur rest hsplit hk
    have hcur : cur ∈ sortToks (hasPO evs) (tokens evs) := by rw [hsplit]; simp
    obtain ⟨e, he, rfl | rfl⟩ := (hmem cur).mp hcur
    · exact absurd rfl hk
    · exact ⟨openTok e, mem_done_of_lt hs hsplit ((hmem _).mpr ⟨e, he, Or.inl rfl⟩) (open_lt_close _ (wf.durNonneg e he)), rfl, rfl⟩
  · intro done cur rest hsplit hk
    have hcur : cur ∈ sortToks (hasPO evs) (tokens evs) := by rw [hsplit]; simp
    obtain ⟨e, he, rfl | rfl⟩ := (hmem cur).mp hcur
    · exact ⟨closeTok e, mem_rest_of_gt hs hsplit ((hmem _).mpr ⟨e, he, Or.inr rfl⟩) (open_lt_close _ (wf.durNonneg e he)), rfl, by simp [closeTok]⟩
    · simp [closeTok] at hk
  · intro done cur rest hsplit hp
    obtain ⟨a, _, hai, hd, hr⟩ := hpar done cur rest hsplit hp
    exact ⟨⟨openTok a, hd, hai, rfl⟩, ⟨closeTok a, hr, hai, by simp [closeTok]⟩⟩
  · intro tk htk
    obtain ⟨e, _, rfl | rfl⟩ := (hmem tk).mp htk
    · exact Or.inl rfl
    · exact Or.inr rfl
  · intro tk htk
    obtain ⟨e, he, rfl | rfl⟩ := (hmem tk).mp htk
    · exact (hev e he).1
    · exact (hev e he).1
  · intro tk htk hp
    obtain ⟨done, rest, hsplit⟩ := List.append_of_mem htk
    obtain ⟨a, ha, hai, hd, _⟩ := hpar done tk rest hsplit hp
    rw [← hai]
    obtain ⟨f, hf, hcf⟩ := (hmem tk).mp htk
    have hlt : tokLt (hasPO evs) (openTok a) tk := by
      have := hs
      rw [hsplit] at this
      exact (List.pairwise_append.mp this).2.2 _ hd tk List.mem_cons_self
    have h1 : evStart rows a.idx = a.ts := (hev a ha).2.1
    have h2 : evStart rows tk.idx = f.ts := by
      rcases hcf with rfl | rfl <;> exact (hev f hf).2.1
    rw [h1, h2]
    have := tokLt_time hlt
    rcases hcf with rfl | rfl
    · simpa [openTok] using this
    · -- the parent opened before the child's close; compare with the child's open instead
      have hd' : openTok a ∈ done := hd
      have hopen : tokLt (hasPO evs) (openTok a) (openTok f) := by
        -- via the stack membership of hpar's witness: rebuild from the open token's split
        obtain ⟨d2, r2, hs2⟩ := List.append_of_mem ((hmem (openTok f)).mpr ⟨f, hf, Or.inl rfl⟩)
        have hp' : 0 ≤ (((run evs).find? fun e => e.1 == (openTok f).idx).map (·.2.1)).getD (-1) := hp
        obtain ⟨a', ha', hai', hd2, _⟩ := hpar d2 (openTok f) r2 hs2 hp'
        have : a' = a := wf.idxInj a' ha' a ha (by rw [hai', hai]; rfl)
        subst this
        have := hs
        rw [hs2] at this
        exact (List.pairwise_append.mp this).2.2 _ hd2 _ List.mem_cons_self
      simpa [openTok] using tokLt_time hopen


/-- The only span edge the kernel loop emits for a row is that row's own start → end. -/
theorem kernelStep_op (rows clipped : List Row) (ws : Waits) (q : Int → Option Int) (zl : Bool)
    (st : KState) (r : Row) :
    ∀ d ∈ (kernelStep rows clipped ws q zl st r).2, d.ty = .op →
      d.src = ⟨r.idx, true⟩ ∧ d.dst = ⟨r.idx, false⟩ := by
  intro d hd hty
  unfold kernelStep at hd
  simp only [] at hd
  split at hd
  · split at hd
    · obtain ⟨_, rfl⟩ := eventStep_descs rows clipped ws st r d hd
      cases hty
    · split at hd
      · obtain ⟨n, _, rfl⟩ := List.mem_map.mp hd
        cases hty
      · cases hd
  · generalize ksEndOf clipped st.ksync r.idx = ke at hd
    simp only [List.mem_append, List.mem_singleton] at hd
    rcases hd with ((hd | hd) | hd) | hd
    · subst hd; exact ⟨rfl, rfl⟩
    · cases ke with
      | none => simp at hd
      | some n => simp only [List.mem_singleton] at hd; subst hd; cases hty
    · rcases mem_ite_cases hd with ⟨_, hd⟩ | ⟨_, hd⟩
      · simp only [List.mem_singleton] at hd; subst hd; cases hty
      · cases hl : lastOn st.last r.stream with
        | none => rw [hl] at hd; cases hd
        | some n =>
          rw [hl] at hd
          rcases mem_if hd with hd | hd
          · simp only [List.mem_singleton] at hd; subst hd; cases hty
          · cases hd
    · rcases mem_ite_cases hd with ⟨_, hd⟩ | ⟨_, hd⟩
      · simp only [List.mem_singleton] at hd; subst hd; cases hty
      · cases hd

theorem kernelRun_op (rows clipped : List Row) (ws : Waits) (q : Int → Option Int) (zl : Bool)
    (ks : List Row) (st : KState) :
    ∀ d ∈ kernelRun rows clipped ws q zl st ks, d.ty = .op →
      ∃ i, d.src = ⟨i, true⟩ ∧ d.dst = ⟨i, false⟩ := by
  induction ks generalizing st with
  | nil => intro d hd; cases hd
  | cons r rs ih =>
    intro d hd hty
    simp only [kernelRun, List.mem_append] at hd
    rcases hd with hd | hd
    · exact ⟨r.idx, kernelStep_op rows clipped ws q zl st r d hd hty⟩
    · exact ih _ d hd hty

/-- A span edge from an event's start to its own end is attributed to that event, which covers it. -/
theorem coverOK_own_span (rows : List Row) (d : Desc) (i : Int) (hty : d.ty = .op)
    (hs : d.src = ⟨i, true⟩) (hd : d.dst = ⟨i, false⟩) : CoverOK rows d := by
  obtain ⟨src, dst, ty, z, par⟩ := d
  simp only at hty hs hd
  subst hty hs hd
  unfold CoverOK
  simp only [attrEv_op]
  intro _
  exact ⟨Int.le_refl _, Int.le_refl _⟩

theorem threadDescs_cover (rows clipped : List Row) (t : Int × Int)
    (hrows : ∀ r ∈ clipped, findRow rows r.idx = some r)
    (hdur : ∀ r ∈ clipped, 0 ≤ r.dur) (hidx : ∀ r ∈ clipped, 0 ≤ r.idx)
    (hwf : C03.WF ((C13.threadRows clipped t).map fun r => (⟨r.idx, r.ts, max r.dur 0⟩ : C03.Ev))) :
    ∀ d ∈ threadDescs clipped t, d.ty = .op → CoverOK rows d := by
  unfold threadDescs
  simp only []
  split
  · intro d hd; cases hd
  · have hev : ∀ e ∈ ((C13.threadRows clipped t).map fun r => (⟨r.idx, r.ts, max r.dur 0⟩ : C03.Ev)),
        0 ≤ e.idx ∧ tsOf rows ⟨e.idx, true⟩ = e.ts ∧ tsOf rows ⟨e.idx, false⟩ = e.ts + e.dur := by
      intro e he
      obtain ⟨r, hr, rfl⟩ := List.mem_map.mp he
      have hrc : r ∈ clipped := (List.mem_filter.mp hr).1
      have := hdur r hrc
      refine ⟨hidx r hrc, by simp [tsOf, hrows r hrc, nodeTs], ?_⟩
      simp [tsOf, hrows r hrc, nodeTs]
      omega
    have F := tokFacts_of_wf rows _ hwf hev
    exact dfsRun_cover rows _ _ _ _ F _ [] _ (by simp)
      ⟨(by intro n h; cases h), (by intro a h; cases h), (by intro c h; cases h), (by intro c h; cases h)⟩

/-- **Every span edge the construction emits is attributed to an event whose span covers the edge's
time range** (when the rule attributes it to an event at all: the recorded parent may be the root, −1). -/
theorem descs_cover (rows : List Row) (ws : Waits) (w : Int × Int) (zl : Bool)
    (hrows : ∀ r ∈ clip rows w, findRow rows r.idx = some r)
    (hdur : ∀ r ∈ clip rows w, 0 ≤ r.dur) (hidx : ∀ r ∈ clip rows w, 0 ≤ r.idx)
    (hwf : ∀ t ∈ C13.threadsOf (clip rows w), C03.WF ((C13.threadRows (clip rows w) t).map fun r => (⟨r.idx, r.ts, max r.dur 0⟩ : C03.Ev))) :
    ∀ d ∈ descs rows (clip rows w) ws zl, d.ty = .op → CoverOK rows d := by
  intro d hd hty
  unfold descs at hd
  rcases List.mem_append.mp hd with hd | hd
  · obtain ⟨t, ht, hd⟩ := List.mem_flatMap.mp hd
    exact threadDescs_cover rows _ t hrows hdur hidx (hwf t ht) d hd hty
  · obtain ⟨i, hs, hdd⟩ := kernelRun_op rows _ ws _ zl _ _ d hd hty
    exact coverOK_own_span rows d i hty hs hdd

/-! ### the attributed event is an event of the same thread / stream -/

/-- The walk only ever remembers events of the family `P` (the events of the thread it walks). -/
structure FamInv (P : Int → Prop) (s : DS) : Prop where
  last : ∀ n, s.lastNode = some n → P n.ev
  high : ∀ n, s.lastHigh = some n → P n.ev
  par : 0 ≤ s.lastPar → P s.lastPar

def DescFam (P : Int → Prop) (d : Desc) : Prop := P d.src.ev ∧ P d.dst.ev ∧ (0 ≤ d.par → P d.par)

theorem dfsStep_fam (P : Int → Prop) (nodeEv : Int → Bool) (parent : Int → Int) (blocking : Int → Bool)
    (s : DS) (t : Tok) (ht : P t.idx) (hp : 0 ≤ parent t.idx → P (parent t.idx)) (inv : FamInv P s) :
    FamInv P (dfsStep nodeEv parent blocking s t).1 ∧
    ∀ d ∈ (dfsStep nodeEv parent blocking s t).2, DescFam P d := by
  unfold dfsStep
  split
  · refine ⟨?_, by intro d hd; cases hd⟩
    split
    · exact ⟨inv.last, inv.high, hp⟩
    · exact inv
  · split
    · refine ⟨⟨?_, inv.high, hp⟩, ?_⟩
      · intro n h; simp at h; subst h; exact ht
      · intro d hd
        simp only [List.mem_append] at hd
        rcases hd with hd | hd
        · cases hdp : s.depth <;> cases hh : s.lastHigh <;> simp [hdp, hh] at hd
          subst hd
          exact ⟨inv.high _ hh, ht, by intro h; simp at h⟩
        · cases hln : s.lastNode <;> simp [hln] at hd
          subst hd
          exact ⟨inv.last _ hln, ht, inv.par⟩
    · have hspan : ∀ d ∈ (match s.lastNode with
          | some ln => [(⟨ln, ⟨t.idx, false⟩, .op, blocking t.idx, s.lastPar⟩ : Desc)]
          | none => []), DescFam P d := by
        intro d hd
        cases hln : s.lastNode <;> simp [hln] at hd
        subst hd
        exact ⟨inv.last _ hln, ht, inv.par⟩
      simp only []
      split
      · refine ⟨⟨by intro n h; simp at h, ?_, inv.par⟩, hspan⟩
        intro n h; simp at h; subst h; exact ht
      · refine ⟨⟨?_, inv.high, hp⟩, hspan⟩
        intro n h; simp at h; subst h; exact ht

theorem dfsRun_fam (P : Int → Prop) (nodeEv : Int → Bool) (parent : Int → Int) (blocking : Int → Bool)
    (toks : List Tok) (s : DS) (ht : ∀ t ∈ toks, P t.idx) (hp : ∀ t ∈ toks, 0 ≤ parent t.idx → P (parent t.idx))
    (inv : FamInv P s) :
    ∀ d ∈ dfsRun nodeEv parent blocking s toks, DescFam P d := by
  induction toks generalizing s with
  | nil => intro d hd; cases hd
  | cons t ts ih =>
    obtain ⟨hinv, hok⟩ := dfsStep_fam P nodeEv parent blocking s t (ht t List.mem_cons_self) (hp t List.mem_cons_self) inv
    intro d hd
    simp only [dfsRun, List.mem_append] at hd
    rcases hd with hd | hd
    · exact hok d hd
    · exact ih _ (fun x hx => ht x (List.mem_cons_of_mem _ hx)) (fun x hx => hp x (List.mem_cons_of_mem _ hx)) hinv d hd

/-- Every descriptor of a thread's walk joins events of that thread, and the recorded parent is one of them. -/
theorem threadDescs_fam (rows clipped : List Row) (t : Int × Int)
    (hrows : ∀ r ∈ clipped, findRow rows r.idx = some r)
    (hdur : ∀ r ∈ clipped, 0 ≤ r.dur) (hidx : ∀ r ∈ clipped, 0 ≤ r.idx)
    (hwf : C03.WF ((C13.threadRows clipped t).map fun r => (⟨r.idx, r.ts, max r.dur 0⟩ : C03.Ev))) :
    ∀ d ∈ threadDescs clipped t, DescFam (fun i => ∃ r ∈ C13.threadRows clipped t, r.idx = i) d := by
  unfold threadDescs
  simp only []
  split
  · intro d hd; cases hd
  · have hev : ∀ e ∈ ((C13.threadRows clipped t).map fun r => (⟨r.idx, r.ts, max r.dur 0⟩ : C03.Ev)),
        0 ≤ e.idx ∧ tsOf rows ⟨e.idx, true⟩ = e.ts ∧ tsOf rows ⟨e.idx, false⟩ = e.ts + e.dur := by
      intro e he
      obtain ⟨r, hr, rfl⟩ := List.mem_map.mp he
      have hrc : r ∈ clipped := (List.mem_filter.mp hr).1
      have := hdur r hrc
      refine ⟨hidx r hrc, by simp [tsOf, hrows r hrc, nodeTs], ?_⟩
      simp [tsOf, hrows r hrc, nodeTs]
      omega
    have F := tokFacts_of_wf rows _ hwf hev
    have hperm := (C03.sortToks_spec (C03.hasPO ((C13.threadRows clipped t).map fun r => (⟨r.idx, r.ts, max r.dur 0⟩ : C03.Ev))) hwf).1
    have htok : ∀ tk ∈ C03.sortToks (C03.hasPO ((C13.threadRows clipped t).map fun r => (⟨r.idx, r.ts, max r.dur 0⟩ : C03.Ev)))
        (C03.tokens ((C13.threadRows clipped t).map fun r => (⟨r.idx, r.ts, max r.dur 0⟩ : C03.Ev))),
        ∃ r ∈ C13.threadRows clipped t, r.idx = tk.idx := by
      intro tk htk
      obtain ⟨e, he, h⟩ := C03.mem_tokens.mp (hperm.mem_iff.mp htk)
      obtain ⟨r, hr, rfl⟩ := List.mem_map.mp he
      refine ⟨r, hr, ?_⟩
      rcases h with rfl | rfl <;> rfl
    refine dfsRun_fam _ _ _ _ _ _ htok ?_ ⟨(by intro n h; cases h), (by intro n h; cases h), (by intro h; simp at h)⟩
    intro tk htk hp
    obtain ⟨done, rest, hsplit⟩ := List.append_of_mem htk
    obtain ⟨⟨s0, hs0, hs0i, _⟩, _⟩ := F.lam.parentOpen done tk rest hsplit hp
    obtain ⟨r, hr, hri⟩ := htok s0 (by rw [hsplit]; exact List.mem_append_left _ hs0)
    exact ⟨r, hr, by rw [hri, hs0i]⟩


theorem kernelRun_op_row (rows clipped : List Row) (ws : Waits) (q : Int → Option Int) (zl : Bool)
    (ks : List Row) (st : KState) :
    ∀ d ∈ kernelRun rows clipped ws q zl st ks, d.ty = .op →
      ∃ r ∈ ks, d.src = ⟨r.idx, true⟩ ∧ d.dst = ⟨r.idx, false⟩ := by
  induction ks generalizing st with
  | nil => intro d hd; cases hd
  | cons r rs ih =>
    intro d hd hty
    simp only [kernelRun, List.mem_append] at hd
    rcases hd with hd | hd
    · exact ⟨r, List.mem_cons_self, kernelStep_op rows clipped ws q zl st r d hd hty⟩
    · obtain ⟨r', hr', h⟩ := ih _ d hd hty
      exact ⟨r', List.mem_cons_of_mem _ hr', h⟩

theorem kernelRows_sub (rows clipped : List Row) : ∀ r ∈ kernelRows rows clipped, r ∈ clipped := by
  intro r hr
  unfold kernelRows at hr
  simp only [] at hr
  exact (List.mem_filter.mp ((List.mergeSort_perm _ _).mem_iff.mp hr)).1

/-- For a span descriptor: both nodes and the attributed event (unless it is the root) belong to `P`. -/
def AttrFam (rows : List Row) (P : Int → Prop) (d : Desc) : Prop :=
  P d.src.ev ∧ P d.dst.ev ∧
    (0 ≤ attrEv (mkEdge rows d.src d.dst d.ty d.zero) d.par → P (attrEv (mkEdge rows d.src d.dst d.ty d.zero) d.par))

theorem attrFam_of_descFam (rows : List Row) (P : Int → Prop) (d : Desc) (hty : d.ty = .op) (h : DescFam P d) :
    AttrFam rows P d := by
  obtain ⟨src, dst, ty, z, par⟩ := d
  simp only at hty
  subst hty
  refine ⟨h.1, h.2.1, ?_⟩
  simp only [attrEv_op]
  split
  · intro _; exact h.1
  · split
    · intro _; exact h.2.1
    · exact h.2.2

/-- Every span descriptor joins two nodes of one thread (one stream for a device activity), and the
event it is attributed to, if any, is an event of that thread too. -/
theorem descs_fam (rows : List Row) (ws : Waits) (w : Int × Int) (zl : Bool)
    (hrows : ∀ r ∈ clip rows w, findRow rows r.idx = some r)
    (hdur : ∀ r ∈ clip rows w, 0 ≤ r.dur) (hidx : ∀ r ∈ clip rows w, 0 ≤ r.idx)
    (hwf : ∀ t ∈ C13.threadsOf (clip rows w), C03.WF ((C13.threadRows (clip rows w) t).map fun r => (⟨r.idx, r.ts, max r.dur 0⟩ : C03.Ev))) :
    ∀ d ∈ descs rows (clip rows w) ws zl, d.ty = .op →
      ∃ t, AttrFam rows (fun i => ∃ r ∈ C13.threadRows (clip rows w) t, r.idx = i) d := by
  intro d hd hty
  unfold descs at hd
  rcases List.mem_append.mp hd with hd | hd
  · obtain ⟨t, ht, hd⟩ := List.mem_flatMap.mp hd
    exact ⟨t, attrFam_of_descFam rows _ d hty (threadDescs_fam rows _ t hrows hdur hidx (hwf t ht) d hd)⟩
  · obtain ⟨r, hr, hs, hdd⟩ := kernelRun_op_row rows _ ws _ zl _ _ d hd hty
    have hrc := kernelRows_sub rows _ r hr
    have hin : ∃ r' ∈ C13.threadRows (clip rows w) (r.pid, r.tid), r'.idx = r.idx :=
      ⟨r, List.mem_filter.mpr ⟨hrc, by simp [C13.threadRows]⟩, rfl⟩
    obtain ⟨src, dst, ty, z, par⟩ := d
    simp only at hty hs hdd
    subst hty hs hdd
    refine ⟨(r.pid, r.tid), hin, hin, ?_⟩
    simp only [attrEv_op]
    intro _; exact hin

end Hta.C08

