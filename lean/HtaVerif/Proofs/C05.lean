import HtaVerif.Proofs.Interval
import HtaVerif.Spec.C05

namespace Hta.C05

/-! ### kernel-type table -/

theorem stateAt_markersAll (types : List (Int × List Iv))
    (hs : ∀ p ∈ types, SortedByStart p.2 ∧ ∀ x ∈ p.2, x.1 ≤ x.2) (t : Int) :
    stateAt (markersAll types) t = maskAt types t := by
  induction types with
  | nil => rfl
  | cons p rest ih =>
    obtain ⟨v, s⟩ := p
    have h := hs (v, s) List.mem_cons_self
    have f := mergeSorted_facts h.1 h.2
    simp only [markersAll, maskAt, stateAt_append]
    rw [ih (fun q hq => hs q (List.mem_cons_of_mem _ hq)),
      stateAt_markersOf v (f.separated.imp (fun h => Int.le_of_lt h)) f.nonneg t, f.covers_eq t]

theorem totalDelta_markersAll (types : List (Int × List Iv)) : totalDelta (markersAll types) = 0 := by
  induction types with
  | nil => rfl
  | cons p rest ih =>
    obtain ⟨v, s⟩ := p
    simp only [markersAll, totalDelta_append, totalDelta_markersOf, ih]; rfl

theorem markersAll_window (types : List (Int × List Iv)) (lo : Int) (n : Nat)
    (hs : ∀ p ∈ types, SortedByStart p.2 ∧ ∀ x ∈ p.2, x.1 ≤ x.2)
    (hwin : ∀ p ∈ types, ∀ x ∈ p.2, lo ≤ x.1 ∧ x.2 ≤ lo + n) :
    ∀ m ∈ markersAll types, lo ≤ m.1 ∧ m.1 ≤ lo + n := by
  induction types with
  | nil => intro m hm; simp [markersAll] at hm
  | cons p rest ih =>
    obtain ⟨v, s⟩ := p
    intro m hm
    simp only [markersAll, List.mem_append] at hm
    rcases hm with h | h
    · have hh := hs (v, s) List.mem_cons_self
      have f := mergeSorted_facts hh.1 hh.2
      obtain ⟨y, hy, h1⟩ := mem_markersOf h
      obtain ⟨a, ha, h2⟩ := f.starts y hy
      obtain ⟨b, hb, h3⟩ := f.ends y hy
      have := hwin (v, s) List.mem_cons_self a ha
      have := hwin (v, s) List.mem_cons_self b hb
      have := f.nonneg y hy
      rcases h1 with h1 | h1 <;> omega
    · exact ih (fun q hq => hs q (List.mem_cons_of_mem _ hq))
        (fun q hq => hwin q (List.mem_cons_of_mem _ hq)) m h

/-! ### per-kernel table -/

theorem sumL_append (a b : List Int) : sumL (a ++ b) = sumL a + sumL b := by
  induction a with
  | nil => simp [sumL]
  | cons x xs ih => simp only [List.cons_append, sumL, ih]; omega

theorem sumL_perm {a b : List Int} (h : a.Perm b) : sumL a = sumL b := by
  induction h with
  | nil => rfl
  | cons x _ ih => simp only [sumL, ih]
  | swap x y l => simp only [sumL]; omega
  | trans _ _ ih1 ih2 => rw [ih1, ih2]

theorem sumL_map_add {α : Type} (l : List α) (f g : α → Int) :
    sumL (l.map fun x => f x + g x) = sumL (l.map f) + sumL (l.map g) := by
  induction l with
  | nil => rfl
  | cons x xs ih => simp only [List.map_cons, sumL, ih]; omega

theorem sumL_map_zero {α : Type} (l : List α) : sumL (l.map fun _ => (0 : Int)) = 0 := by
  induction l with
  | nil => rfl
  | cons x xs ih => simp only [List.map_cons, sumL, ih]; rfl

theorem sumL_indicator (ns : List String) (m : String) (d : Int) (hnd : ns.Nodup) :
    sumL (ns.map fun n => if m == n then d else 0) = if m ∈ ns then d else 0 := by
  induction ns with
  | nil => simp [sumL]
  | cons n ns ih =>
    have hnd' := List.nodup_cons.mp hnd
    simp only [List.map_cons, sumL, ih hnd'.2]
    by_cases h : m = n
    · subst h; simp [hnd'.1]
    · have : (m == n) = false := by simpa using h
      simp [this, h]

theorem dursOf_cons (m : String) (d : Int) (ks : List (String × Int)) (n : String) :
    sumL (dursOf ((m, d) :: ks) n) = (if m == n then d else 0) + sumL (dursOf ks n) := by
  simp only [dursOf, List.filter_cons]
  split <;> simp [sumL]

theorem group_sum_aux (ks : List (String × Int)) :
    ∀ ns : List String, ns.Nodup → (∀ k ∈ ks, k.1 ∈ ns) →
      sumL (ns.map fun n => sumL (dursOf ks n)) = sumL (ks.map (·.2)) := by
  induction ks with
  | nil => intro ns _ _; simp only [dursOf, List.filter_nil, List.map_nil, sumL]; exact sumL_map_zero ns
  | cons k ks ih =>
    intro ns hnd hcov
    obtain ⟨m, d⟩ := k
    have hm : m ∈ ns := hcov (m, d) List.mem_cons_self
    have : (fun n => sumL (dursOf ((m, d) :: ks) n))
        = fun n => (if m == n then d else 0) + sumL (dursOf ks n) := by
      funext n; exact dursOf_cons m d ks n
    rw [this, sumL_map_add, sumL_indicator ns m d hnd,
      ih ns hnd (fun k hk => hcov k (List.mem_cons_of_mem _ hk))]
    simp [hm, sumL]

theorem mem_distinct {l : List String} {n : String} : n ∈ distinct l ↔ n ∈ l := by
  induction l with
  | nil => simp [distinct]
  | cons a l ih =>
    simp only [distinct, List.mem_cons, List.mem_filter, ih]
    by_cases h : n = a
    · simp [h]
    · simp [h]

theorem distinct_nodup (l : List String) : (distinct l).Nodup := by
  induction l with
  | nil => simp [distinct]
  | cons a l ih =>
    simp only [distinct]
    apply List.nodup_cons.mpr
    refine ⟨?_, ih.filter _⟩
    simp [List.mem_filter]

theorem group_sum (ks : List (String × Int)) :
    sumL ((groupStats ks).map (·.sum)) = sumL (ks.map (·.2)) := by
  have := group_sum_aux ks (distinct (ks.map (·.1))) (distinct_nodup _)
    (fun k hk => mem_distinct.mpr (List.mem_map.mpr ⟨k, hk, rfl⟩))
  rw [← this]
  simp [groupStats, statOf, List.map_map, Function.comp_def]

theorem groupStats_names (ks : List (String × Int)) :
    (groupStats ks).map (·.name) = distinct (ks.map (·.1)) := by
  simp [groupStats, statOf, List.map_map, Function.comp_def]

theorem mem_groupStats {ks : List (String × Int)} {s : Stat} (h : s ∈ groupStats ks) :
    s.name ∈ ks.map (·.1) ∧ s = statOf ks s.name := by
  obtain ⟨n, hn, rfl⟩ := List.mem_map.mp h
  exact ⟨mem_distinct.mp hn, rfl⟩

theorem point_three (a b c : List Iv) (lo : Int) :
    ((if maskAt [(1, a), (2, b), (4, c)] lo == 1 then 1 else 0)
      + (if maskAt [(1, a), (2, b), (4, c)] lo == 2 then 1 else 0)
      + (if maskAt [(1, a), (2, b), (4, c)] lo == 3 then 1 else 0)
      + (if maskAt [(1, a), (2, b), (4, c)] lo == 4 then 1 else 0)
      + (if maskAt [(1, a), (2, b), (4, c)] lo == 5 then 1 else 0)
      + (if maskAt [(1, a), (2, b), (4, c)] lo == 6 then 1 else 0)
      + (if maskAt [(1, a), (2, b), (4, c)] lo == 7 then 1 else 0) : Nat)
      = (if (covers a lo || covers b lo || covers c lo) then 1 else 0) := by
  simp only [maskAt]
  rcases Bool.eq_false_or_eq_true (covers a lo) with ha | ha <;>
  rcases Bool.eq_false_or_eq_true (covers b lo) with hb | hb <;>
  rcases Bool.eq_false_or_eq_true (covers c lo) with hc | hc <;>
  simp [ha, hb, hc]

theorem point_two (a b : List Iv) (lo : Int) :
    ((if maskAt [(1, a), (2, b)] lo == 1 then 1 else 0)
      + (if maskAt [(1, a), (2, b)] lo == 2 then 1 else 0)
      + (if maskAt [(1, a), (2, b)] lo == 3 then 1 else 0) : Nat)
      = (if (covers a lo || covers b lo) then 1 else 0) := by
  simp only [maskAt]
  rcases Bool.eq_false_or_eq_true (covers a lo) with ha | ha <;>
  rcases Bool.eq_false_or_eq_true (covers b lo) with hb | hb <;>
  simp [ha, hb]

end Hta.C05
