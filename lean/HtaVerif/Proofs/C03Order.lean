import HtaVerif.Spec.C03
/-! Order-theoretic facts about the endpoint key (for an arbitrary `po`). -/
namespace Hta.C03

theorem keyLt_irrefl (a : Int × Int × Int × Int) : ¬ keyLt a a := by
  unfold keyLt; omega

theorem keyLt_trans {a b c : Int × Int × Int × Int} (h1 : keyLt a b) (h2 : keyLt b c) : keyLt a c := by
  unfold keyLt at *; omega

theorem keyLt_asymm {a b : Int × Int × Int × Int} (h1 : keyLt a b) : ¬ keyLt b a := by
  unfold keyLt at *; omega

theorem keyLt_total (a b : Int × Int × Int × Int) : keyLt a b ∨ a = b ∨ keyLt b a := by
  obtain ⟨a1, a2, a3, a4⟩ := a
  obtain ⟨b1, b2, b3, b4⟩ := b
  unfold keyLt
  simp only [Prod.mk.injEq]
  omega

theorem tokLt_irrefl (po : Int → Bool) (x : Tok) : ¬ tokLt po x x := keyLt_irrefl _
theorem tokLt_trans {po : Int → Bool} {x y z : Tok} (h1 : tokLt po x y) (h2 : tokLt po y z) : tokLt po x z :=
  keyLt_trans h1 h2
theorem tokLt_asymm {po : Int → Bool} {x y : Tok} (h : tokLt po x y) : ¬ tokLt po y x := keyLt_asymm h

/-- A token with kind ±1 and non-negative duration is determined by its key. -/
def TokOk (x : Tok) : Prop := (x.kind = -1 ∨ x.kind = 1) ∧ 0 ≤ x.dur

theorem key_inj (po : Int → Bool) {x y : Tok} (hx : TokOk x) (hy : TokOk y)
    (h : key po x = key po y) : x = y := by
  obtain ⟨xi, xd, xk, xt⟩ := x
  obtain ⟨yi, yd, yk, yt⟩ := y
  unfold TokOk at hx hy
  simp only at hx hy
  unfold key at h
  simp only [beq_iff_eq] at h
  have key : xi = yi ∧ xd = yd ∧ xk = yk ∧ xt = yt := by
    by_cases h1 : xd = 0 <;> by_cases h2 : yd = 0 <;> simp only [h1, h2, if_true, if_false] at h
    · by_cases h3 : xk = -1 <;> by_cases h4 : yk = -1 <;> simp only [h3, h4, if_true, if_false, Prod.mk.injEq] at h <;>
        (try split at h) <;> (try split at h) <;> omega
    · by_cases h3 : xk = -1 <;> by_cases h4 : yk = 1 <;> simp only [h3, h4, if_true, if_false, Prod.mk.injEq] at h <;>
        (try split at h) <;> omega
    · by_cases h3 : xk = 1 <;> by_cases h4 : yk = -1 <;> simp only [h3, h4, if_true, if_false, Prod.mk.injEq] at h <;>
        (try split at h) <;> omega
    · by_cases h3 : xk = 1 <;> by_cases h4 : yk = 1 <;> simp only [h3, h4, if_true, if_false, Prod.mk.injEq] at h <;> omega
  obtain ⟨a, b, c, d⟩ := key
  subst a; subst b; subst c; subst d; rfl

theorem tokLt_total (po : Int → Bool) {x y : Tok} (hx : TokOk x) (hy : TokOk y) (hne : x ≠ y) :
    tokLt po x y ∨ tokLt po y x := by
  rcases keyLt_total (key po x) (key po y) with h | h | h
  · exact Or.inl h
  · exact absurd (key_inj po hx hy h) hne
  · exact Or.inr h

theorem openTok_ok {e : Ev} (h : 0 ≤ e.dur) : TokOk (openTok e) := ⟨Or.inl rfl, h⟩
theorem closeTok_ok {e : Ev} (h : 0 ≤ e.dur) : TokOk (closeTok e) := ⟨Or.inr rfl, h⟩

end Hta.C03

namespace Hta.C03

theorem key_open_pos (po : Int → Bool) {e : Ev} (h : e.dur > 0) :
    key po (openTok e) = (e.ts, 2, -e.dur, e.idx) := by
  have : ¬ e.dur = 0 := by omega
  simp [key, openTok, this]

theorem key_close_pos (po : Int → Bool) {e : Ev} (h : e.dur > 0) :
    key po (closeTok e) = (e.ts + e.dur, 1, e.dur, -e.idx) := by
  have : ¬ e.dur = 0 := by omega
  simp [key, closeTok, this]

theorem key_open_zero (po : Int → Bool) {e : Ev} (h : e.dur = 0) :
    key po (openTok e) = (e.ts, if po e.ts then 3 else 0, 0, e.idx) := by
  simp [key, openTok, h]

theorem key_close_zero (po : Int → Bool) {e : Ev} (h : e.dur = 0) :
    key po (closeTok e) = (e.ts, if po e.ts then 3 else 0, 1, -e.idx) := by
  simp [key, closeTok, h]

/-- An event's start token precedes its end token. -/
theorem open_lt_close (po : Int → Bool) {e : Ev} (h : 0 ≤ e.dur) : tokLt po (openTok e) (closeTok e) := by
  unfold tokLt
  by_cases hz : e.dur = 0
  · rw [key_open_zero po hz, key_close_zero po hz]; unfold keyLt; simp
  · have hp : e.dur > 0 := by omega
    rw [key_open_pos po hp, key_close_pos po hp]; unfold keyLt; simp; omega

/-- The two-event nesting alternatives for positive durations. -/
def NestedPair (a b : Ev) : Prop :=
  a.fin ≤ b.ts ∨ b.fin ≤ a.ts ∨ (a.ts ≤ b.ts ∧ b.fin ≤ a.fin) ∨ (b.ts ≤ a.ts ∧ a.fin ≤ b.fin)

/-- Laminarity: the token intervals of two distinct events never cross. -/
theorem laminar (po : Int → Bool) {a b : Ev} (ha : 0 ≤ a.dur) (hb : 0 ≤ b.dur) (hne : a.idx ≠ b.idx)
    (hn : a.dur > 0 → b.dur > 0 → NestedPair a b) :
    ¬ (tokLt po (openTok a) (openTok b) ∧ tokLt po (openTok b) (closeTok a) ∧
        tokLt po (closeTok a) (closeTok b)) := by
  unfold tokLt
  by_cases haz : a.dur = 0 <;> by_cases hbz : b.dur = 0
  · rw [key_open_zero po haz, key_close_zero po haz, key_open_zero po hbz, key_close_zero po hbz]
    unfold keyLt
    cases po a.ts <;> cases po b.ts <;> simp <;> omega
  · have hbp : b.dur > 0 := by omega
    rw [key_open_zero po haz, key_close_zero po haz, key_open_pos po hbp, key_close_pos po hbp]
    unfold keyLt
    cases po a.ts <;> simp <;> omega
  · have hap : a.dur > 0 := by omega
    rw [key_open_pos po hap, key_close_pos po hap, key_open_zero po hbz, key_close_zero po hbz]
    unfold keyLt
    cases po b.ts <;> simp <;> omega
  · have hap : a.dur > 0 := by omega
    have hbp : b.dur > 0 := by omega
    have := hn hap hbp
    unfold NestedPair Ev.fin at this
    rw [key_open_pos po hap, key_close_pos po hap, key_open_pos po hbp, key_close_pos po hbp]
    unfold keyLt
    simp
    omega

/-- For a positive-duration `b`, enclosure in token order is exactly span enclosure. -/
theorem tokEncl_iff_encl (po : Int → Bool) {a b : Ev} (ha : 0 ≤ a.dur) (hb : b.dur > 0)
    (hne : a.idx ≠ b.idx) (hn : a.dur > 0 → NestedPair a b) :
    TokEncl po a b ↔ Encl a b := by
  unfold TokEncl Encl tokLt Ev.fin
  by_cases haz : a.dur = 0
  · rw [key_open_zero po haz, key_close_zero po haz, key_open_pos po hb, key_close_pos po hb]
    unfold keyLt
    cases po a.ts <;> simp <;> omega
  · have hap : a.dur > 0 := by omega
    have := hn hap
    unfold NestedPair Ev.fin at this
    rw [key_open_pos po hap, key_close_pos po hap, key_open_pos po hb, key_close_pos po hb]
    unfold keyLt
    simp
    omega

/-- Whatever encloses a zero-duration event in token order has a closed span containing its instant. -/
theorem tokEncl_zero_contains (po : Int → Bool) {a z : Ev} (ha : 0 ≤ a.dur) (hz : z.dur = 0)
    (h : TokEncl po a z) : a.ts ≤ z.ts ∧ z.ts ≤ a.ts + a.dur := by
  unfold TokEncl tokLt at h
  by_cases haz : a.dur = 0
  · rw [key_open_zero po haz, key_close_zero po haz, key_open_zero po hz, key_close_zero po hz] at h
    unfold keyLt at h
    simp at h
    omega
  · have hap : a.dur > 0 := by omega
    rw [key_open_pos po hap, key_close_pos po hap, key_open_zero po hz, key_close_zero po hz] at h
    unfold keyLt at h
    simp at h
    omega

end Hta.C03
