import HtaVerif.Proofs.Interval
import HtaVerif.Spec.C14

namespace Hta.C14

theorem totalDelta_filter_add (l : List Marker) (P : Marker → Bool) :
    totalDelta l = totalDelta (l.filter P) + totalDelta (l.filter fun m => !P m) := by
  induction l with
  | nil => rfl
  | cons m l ih =>
    simp only [List.filter_cons]
    cases P m <;> simp [totalDelta, ih] <;> omega

theorem stateAt_eq_filter (l : List Marker) (t : Int) :
    stateAt l t = totalDelta (l.filter fun m => decide (m.1 ≤ t)) := by
  induction l with
  | nil => rfl
  | cons m l ih =>
    simp only [stateAt, List.filter_cons, ih]
    by_cases h : m.1 ≤ t <;> simp [h, totalDelta]

theorem totalDelta_nonpos {l : List Marker} (h : ∀ m ∈ l, m.2 ≤ 0) : totalDelta l ≤ 0 := by
  induction l with
  | nil => simp [totalDelta]
  | cons m l ih =>
    have := h m List.mem_cons_self
    have := ih (fun x hx => h x (List.mem_cons_of_mem _ hx))
    simp only [totalDelta]; omega

theorem totalDelta_nonneg {l : List Marker} (h : ∀ m ∈ l, 0 ≤ m.2) : 0 ≤ totalDelta l := by
  induction l with
  | nil => simp [totalDelta]
  | cons m l ih =>
    have := h m List.mem_cons_self
    have := ih (fun x hx => h x (List.mem_cons_of_mem _ hx))
    simp only [totalDelta]; omega

theorem mem_running {ms : List Marker} {acc v : Int} (h : v ∈ running acc ms) :
    ∃ p q, p ≠ [] ∧ ms = p ++ q ∧ v = acc + totalDelta p := by
  induction ms generalizing acc with
  | nil => simp [running] at h
  | cons m ms ih =>
    simp only [running, List.mem_cons] at h
    rcases h with h | h
    · exact ⟨[m], ms, by simp, rfl, by simp [totalDelta, h]⟩
    · obtain ⟨p, q, hp, hms, hv⟩ := ih h
      refine ⟨m :: p, q, by simp, by simp [hms], ?_⟩
      simp only [totalDelta]; omega

theorem running_getLast (p : List Marker) (acc : Int) (hne : p ≠ []) :
    (running acc p).getLast? = some (acc + totalDelta p) := by
  induction p generalizing acc with
  | nil => exact absurd rfl hne
  | cons m p ih =>
    cases p with
    | nil => simp [running, totalDelta]
    | cons m' p' =>
      have := ih (acc + m.2) (by simp)
      simp only [running, totalDelta] at this ⊢
      rw [List.getLast?_cons_cons, this]
      congr 1; omega

theorem stateAt_qmarkers (pairs : List (Int × Int)) (t : Int) :
    stateAt (qmarkers pairs) t = outstanding pairs t := by
  induction pairs with
  | nil => rfl
  | cons p ps ih =>
    simp only [qmarkers, stateAt, outstanding, ih]
    split <;> split <;> omega

theorem outstanding_nonneg {pairs : List (Int × Int)} (h : ∀ p ∈ pairs, p.1 ≤ p.2) (t : Int) :
    0 ≤ outstanding pairs t := by
  induction pairs with
  | nil => simp [outstanding]
  | cons p ps ih =>
    have := h p List.mem_cons_self
    have := ih (fun x hx => h x (List.mem_cons_of_mem _ hx))
    simp only [outstanding]
    split <;> split <;> omega

theorem totalDelta_qmarkers (pairs : List (Int × Int)) : totalDelta (qmarkers pairs) = 0 := by
  induction pairs with
  | nil => rfl
  | cons p ps ih => simp only [qmarkers, totalDelta, ih]; omega

/-- Core of the non-negativity argument: in a list sorted by `(ts ↑, delta ↓)` every prefix
sum is bounded below by the step function just before or at the instant of its last row. -/
theorem prefix_ge_state {ms p q : List Marker} (hs : ms.Pairwise keyLe) (hms : ms = p ++ q)
    (x : Marker) (hx : x ∈ p) (hle : ∀ y ∈ p, y.1 ≤ x.1) :
    stateAt ms (x.1 - 1) ≤ totalDelta p ∨ stateAt ms x.1 ≤ totalDelta p := by
  subst hms
  have hpq := (List.pairwise_append.mp hs).2.2
  -- q has nothing before x's instant
  have hq_lt : (q.filter fun m => decide (m.1 ≤ x.1 - 1)) = [] := by
    apply List.filter_eq_nil_iff.mpr
    intro z hz
    have := hpq x hx z hz
    unfold keyLe at this
    simp; omega
  have hA : stateAt (p ++ q) (x.1 - 1) = totalDelta (p.filter fun m => decide (m.1 ≤ x.1 - 1)) := by
    rw [stateAt_eq_filter, List.filter_append, hq_lt, List.append_nil]
  have hsplit := totalDelta_filter_add p (fun m => decide (m.1 ≤ x.1 - 1))
  by_cases hneg : ∃ y ∈ p, y.1 = x.1 ∧ y.2 < 0
  · -- a negative marker of instant t is in p: every marker of q at instant t is negative too
    right
    obtain ⟨y, hy, hyt, hyn⟩ := hneg
    have hq_t : totalDelta (q.filter fun m => decide (m.1 ≤ x.1)) ≤ 0 := by
      apply totalDelta_nonpos
      intro z hz
      have hz' := List.mem_filter.mp hz
      have := hpq y hy z hz'.1
      unfold keyLe at this
      have h2 : z.1 ≤ x.1 := by simpa using hz'.2
      omega
    have hB : stateAt (p ++ q) x.1 = totalDelta (p.filter fun m => decide (m.1 ≤ x.1))
        + totalDelta (q.filter fun m => decide (m.1 ≤ x.1)) := by
      rw [stateAt_eq_filter, List.filter_append, totalDelta_append]
    have hall : p.filter (fun m => decide (m.1 ≤ x.1)) = p := by
      apply List.filter_eq_self.mpr
      intro m hm; simpa using hle m hm
    rw [hB, hall]; omega
  · left
    have hrest : 0 ≤ totalDelta (p.filter fun m => !decide (m.1 ≤ x.1 - 1)) := by
      apply totalDelta_nonneg
      intro m hm
      have hm' := List.mem_filter.mp hm
      have h1 := hle m hm'.1
      have h2 : ¬ m.1 ≤ x.1 - 1 := by simpa using hm'.2
      by_cases h3 : m.2 < 0
      · exact absurd ⟨m, hm'.1, by omega, h3⟩ hneg
      · omega
    rw [hA]; omega

end Hta.C14
