import HtaVerif.Model.C09
/-!
Helper lemmas for the longest-path dynamic programme of C09: it is a potential (bounds every path)
and every distance is attained by a path.
-/
namespace Hta.C09

theorem foldl_max_ge_init (l : List Int) (a : Int) : a ≤ l.foldl max a := by
  induction l generalizing a with
  | nil => exact Int.le_refl _
  | cons x xs ih => exact Int.le_trans (Int.le_max_left a x) (ih (max a x))

theorem le_foldl_max_of_mem (l : List Int) (a x : Int) (h : x ∈ l) : x ≤ l.foldl max a := by
  induction l generalizing a with
  | nil => cases h
  | cons y ys ih =>
    rcases List.mem_cons.mp h with rfl | h
    · exact Int.le_trans (Int.le_max_right a x) (foldl_max_ge_init ys (max a x))
    · exact ih (max a y) h

def keys (d : List (Nat × Int)) : List Nat := d.map (·.1)

theorem distOf_append_of_mem (d : List (Nat × Int)) (v : Nat) (x : Int) (u : Nat) (h : u ∈ keys d) :
    distOf (d ++ [(v, x)]) u = distOf d u := by
  unfold distOf
  obtain ⟨p, hp, hpu⟩ := List.mem_map.mp h
  have : (d.find? fun q => q.1 == u).isSome := by
    rw [List.find?_isSome]; exact ⟨p, hp, by simpa using hpu⟩
  rw [List.find?_append]
  cases hf : d.find? (fun q => q.1 == u) with
  | none => simp [hf] at this
  | some q => simp

theorem distOf_append_self (d : List (Nat × Int)) (v : Nat) (x : Int) (h : v ∉ keys d) :
    distOf (d ++ [(v, x)]) v = x := by
  unfold distOf
  have hn : d.find? (fun q => q.1 == v) = none := by
    rw [List.find?_eq_none]
    intro q hq hqv
    exact h (List.mem_map.mpr ⟨q, hq, by simpa using hqv⟩)
  rw [List.find?_append, hn]
  simp

theorem keys_dpStep (es : List WEdge) (d : List (Nat × Int)) (v : Nat) : keys (dpStep es d v) = keys d ++ [v] := by
  simp [dpStep, keys]

/-- `a` occurs before `b` in `l`. -/
def Before (l : List Nat) (a b : Nat) : Prop := ∃ pre post, l = pre ++ b :: post ∧ a ∈ pre

theorem dp_invariant (es : List WEdge) : ∀ (order : List Nat) (d : List (Nat × Int)),
    (keys d ++ order).Nodup →
    (∀ e ∈ es, e.dst ∈ order → e.src ∈ keys d ∨ Before order e.src e.dst) →
    (∀ e ∈ es, e.dst ∈ order →
        distOf (order.foldl (dpStep es) d) e.src + e.w ≤ distOf (order.foldl (dpStep es) d) e.dst) ∧
    (∀ v ∈ order, 0 ≤ distOf (order.foldl (dpStep es) d) v) ∧
    (∀ u ∈ keys d, distOf (order.foldl (dpStep es) d) u = distOf d u) := by
  intro order
  induction order with
  | nil =>
    intro d _ _
    exact ⟨(by intro e _ h; cases h), (by intro v h; cases h), (by intro u _; rfl)⟩
  | cons v rest ih =>
    intro d hnd htopo
    have hv_notin : v ∉ keys d := by
      intro h
      have := List.nodup_append.mp hnd
      exact this.2.2 v h v List.mem_cons_self rfl
    have hv_rest : v ∉ rest := by
      have := (List.nodup_append.mp hnd).2.1
      exact (List.nodup_cons.mp this).1
    let d1 := dpStep es d v
    have hk1 : keys d1 = keys d ++ [v] := keys_dpStep es d v
    have hnd1 : (keys d1 ++ rest).Nodup := by
      rw [hk1, List.append_assoc]; simpa using hnd
    have htopo1 : ∀ e ∈ es, e.dst ∈ rest → e.src ∈ keys d1 ∨ Before rest e.src e.dst := by
      intro e he hdst
      rcases htopo e he (List.mem_cons_of_mem _ hdst) with h | ⟨pre, post, hsplit, hsrc⟩
      · left; rw [hk1]; exact List.mem_append_left _ h
      · cases pre with
        | nil =>
          simp at hsrc
        | cons p pre' =>
          simp only [List.cons_append, List.cons.injEq] at hsplit
          obtain ⟨rfl, hrest⟩ := hsplit
          rcases List.mem_cons.mp hsrc with h | h
          · left; rw [hk1, h]; simp
          · right; exact ⟨pre', post, hrest, h⟩
    obtain ⟨ih1, ih2, ih3⟩ := ih d1 hnd1 htopo1
    have hfold : (v :: rest).foldl (dpStep es) d = rest.foldl (dpStep es) d1 := rfl
    rw [hfold]
    have hv_key1 : v ∈ keys d1 := by rw [hk1]; simp
    have hdv : distOf d1 v = ((es.filter fun e => e.dst == v).map fun e => distOf d e.src + e.w).foldl max 0 := by
      show distOf (dpStep es d v) v = _
      unfold dpStep
      simp only []
      rw [distOf_append_self d v _ hv_notin]
      rfl
    refine ⟨?_, ?_, ?_⟩
    · intro e he hdst
      rcases List.mem_cons.mp hdst with hdv' | hdst
      · -- the edge ends at the node just processed: its source was final already
        have hsrc : e.src ∈ keys d := by
          rcases htopo e he hdst with h | ⟨pre, post, hsplit, hsrc⟩
          · exact h
          · exfalso
            cases pre with
            | nil => simp at hsrc
            | cons p pre' =>
              simp only [List.cons_append, List.cons.injEq] at hsplit
              obtain ⟨_, hrest⟩ := hsplit
              apply hv_rest
              rw [hrest, ← hdv']
              simp
        have hsrc1 : e.src ∈ keys d1 := by rw [hk1]; exact List.mem_append_left _ hsrc
        rw [ih3 e.src hsrc1, hdv', ih3 v hv_key1, hdv]
        have hs : distOf d1 e.src = distOf d e.src := by
          show distOf (dpStep es d v) e.src = _
          unfold dpStep; simp only []
          exact distOf_append_of_mem d v _ e.src hsrc
        rw [hs]
        apply le_foldl_max_of_mem
        apply List.mem_map.mpr
        exact ⟨e, List.mem_filter.mpr ⟨he, by simp [hdv']⟩, rfl⟩
      · exact ih1 e he hdst
    · intro u hu
      rcases List.mem_cons.mp hu with rfl | hu
      · rw [ih3 u hv_key1, hdv]; exact foldl_max_ge_init _ 0
      · exact ih2 u hu
    · intro u hu
      have hu1 : u ∈ keys d1 := by rw [hk1]; exact List.mem_append_left _ hu
      rw [ih3 u hu1]
      show distOf (dpStep es d v) u = _
      unfold dpStep; simp only []
      exact distOf_append_of_mem d v _ u hu

end Hta.C09

namespace Hta.C09

theorem keys_foldl (es : List WEdge) (order : List Nat) (d : List (Nat × Int)) :
    keys (order.foldl (dpStep es) d) = keys d ++ order := by
  induction order generalizing d with
  | nil => simp
  | cons v rest ih => simp only [List.foldl_cons]; rw [ih, keys_dpStep]; simp

theorem distOf_of_not_mem (d : List (Nat × Int)) (v : Nat) (h : v ∉ keys d) : distOf d v = 0 := by
  unfold distOf
  have hn : d.find? (fun q => q.1 == v) = none := by
    rw [List.find?_eq_none]
    intro q hq hqv
    exact h (List.mem_map.mpr ⟨q, hq, by simpa using hqv⟩)
  simp [hn]

theorem best_nonneg (d : List (Nat × Int)) : 0 ≤ best d := foldl_max_ge_init _ 0

theorem distOf_le_best (d : List (Nat × Int)) (v : Nat) : distOf d v ≤ best d := by
  unfold distOf
  cases hf : d.find? (fun q => q.1 == v) with
  | none => simpa using best_nonneg d
  | some q =>
    simp only [Option.map_some, Option.getD_some]
    apply le_foldl_max_of_mem
    exact List.mem_map.mpr ⟨q, List.mem_of_find?_eq_some hf, rfl⟩

end Hta.C09

namespace Hta.C09

/-- at most one edge per ordered pair of nodes (a DiGraph) -/
def EdgesUnique (es : List WEdge) : Prop :=
  ∀ a ∈ es, ∀ b ∈ es, a.src = b.src → a.dst = b.dst → a = b

theorem findEdge_of_mem {es : List WEdge} (hu : EdgesUnique es) {e : WEdge} (he : e ∈ es) :
    findEdge es e.src e.dst = some e := by
  unfold findEdge
  cases hf : es.find? (fun x => x.src == e.src && x.dst == e.dst) with
  | none =>
    have := List.find?_eq_none.mp hf e he
    simp at this
  | some x =>
    have hx := List.mem_of_find?_eq_some hf
    have hp := List.find?_some hf
    simp only [Bool.and_eq_true, beq_iff_eq] at hp
    rw [hu x hx e he hp.1 hp.2]

/-- appending one more edge at the end of a path -/
theorem path_snoc (es : List WEdge) (e : WEdge) (hfe : findEdge es e.src e.dst = some e) :
    ∀ (p : List Nat) (a : Nat), isPath es (a :: p) = true → (a :: p).getLast (by simp) = e.src →
      isPath es ((a :: p) ++ [e.dst]) = true ∧
      pathWeight es ((a :: p) ++ [e.dst]) = pathWeight es (a :: p) + e.w := by
  intro p
  induction p with
  | nil =>
    intro a _ hlast
    simp only [List.getLast_singleton] at hlast
    subst hlast
    simp [isPath, pathWeight, hfe]
  | cons b rest ih =>
    intro a hp hlast
    simp only [isPath, Bool.and_eq_true] at hp
    have hlast' : (b :: rest).getLast (by simp) = e.src := by
      simpa [List.getLast_cons] using hlast
    obtain ⟨ih1, ih2⟩ := ih b hp.2 hlast'
    constructor
    · simp only [List.cons_append, isPath, Bool.and_eq_true]
      exact ⟨hp.1, by simpa using ih1⟩
    · simp only [List.cons_append, pathWeight]
      have : pathWeight es (b :: (rest ++ [e.dst])) = pathWeight es (b :: rest) + e.w := by simpa using ih2
      rw [this]; omega

theorem foldl_max_mem_or_init (l : List Int) (a : Int) : l.foldl max a = a ∨ l.foldl max a ∈ l := by
  induction l generalizing a with
  | nil => exact Or.inl rfl
  | cons x xs ih =>
    simp only [List.foldl_cons]
    rcases ih (max a x) with h | h
    · rw [h]
      rcases Int.le_total a x with hax | hxa
      · right; rw [Int.max_eq_right hax]; exact List.mem_cons_self
      · left; exact Int.max_eq_left hxa
    · right; exact List.mem_cons_of_mem _ h

/-- Every distance of the programme is attained by a path of the graph ending at that node. -/
theorem dp_attained (es : List WEdge) (huniq : EdgesUnique es) : ∀ (order : List Nat) (d : List (Nat × Int)),
    (keys d ++ order).Nodup →
    (∀ e ∈ es, e.dst ∈ order → e.src ∈ keys d ∨ Before order e.src e.dst) →
    (∀ u ∈ keys d, ∃ p a, isPath es (a :: p) = true ∧ (a :: p).getLast (by simp) = u ∧ pathWeight es (a :: p) = distOf d u) →
    ∀ u ∈ keys d ++ order, ∃ p a, isPath es (a :: p) = true ∧ (a :: p).getLast (by simp) = u ∧
      pathWeight es (a :: p) = distOf (order.foldl (dpStep es) d) u := by
  intro order
  induction order with
  | nil => intro d _ _ hd u hu; simpa using hd u (by simpa using hu)
  | cons v rest ih =>
    intro d hnd htopo hd u hu
    have hv_notin : v ∉ keys d := by
      intro h
      exact (List.nodup_append.mp hnd).2.2 v h v List.mem_cons_self rfl
    have hv_rest : v ∉ rest := (List.nodup_cons.mp (List.nodup_append.mp hnd).2.1).1
    have hk1 : keys (dpStep es d v) = keys d ++ [v] := keys_dpStep es d v
    have hnd1 : (keys (dpStep es d v) ++ rest).Nodup := by
      rw [hk1, List.append_assoc]; simpa using hnd
    have htopo1 : ∀ e ∈ es, e.dst ∈ rest → e.src ∈ keys (dpStep es d v) ∨ Before rest e.src e.dst := by
      intro e he hdst
      rcases htopo e he (List.mem_cons_of_mem _ hdst) with h | ⟨pre, post, hsplit, hsrc⟩
      · left; rw [hk1]; exact List.mem_append_left _ h
      · cases pre with
        | nil => simp at hsrc
        | cons p pre' =>
          simp only [List.cons_append, List.cons.injEq] at hsplit
          obtain ⟨rfl, hrest⟩ := hsplit
          rcases List.mem_cons.mp hsrc with h | h
          · left; rw [hk1, h]; simp
          · right; exact ⟨pre', post, hrest, h⟩
    have hdv : distOf (dpStep es d v) v = ((es.filter fun e => e.dst == v).map fun e => distOf d e.src + e.w).foldl max 0 := by
      unfold dpStep; simp only []
      rw [distOf_append_self d v _ hv_notin]; rfl
    have hd1 : ∀ w ∈ keys (dpStep es d v), ∃ p a, isPath es (a :: p) = true ∧ (a :: p).getLast (by simp) = w ∧
        pathWeight es (a :: p) = distOf (dpStep es d v) w := by
      intro w hw
      rw [hk1] at hw
      rcases List.mem_append.mp hw with hw | hw
      · obtain ⟨p, a, h1, h2, h3⟩ := hd w hw
        refine ⟨p, a, h1, h2, ?_⟩
        rw [h3]
        unfold dpStep; simp only []
        exact (distOf_append_of_mem d v _ w hw).symm
      · simp only [List.mem_singleton] at hw
        subst hw
        rw [hdv]
        rcases foldl_max_mem_or_init ((es.filter fun e => e.dst == w).map fun e => distOf d e.src + e.w) 0 with h0 | hm
        · exact ⟨[], w, by simp [isPath], by simp, by rw [h0]; simp [pathWeight]⟩
        · obtain ⟨e, hef, hval⟩ := List.mem_map.mp hm
          have he := (List.mem_filter.mp hef).1
          have hdst : e.dst = w := by simpa using (List.mem_filter.mp hef).2
          have hsrc : e.src ∈ keys d := by
            rcases htopo e he (by rw [hdst]; exact List.mem_cons_self) with h | ⟨pre, post, hsplit, hsrc⟩
            · exact h
            · exfalso
              cases pre with
              | nil => simp at hsrc
              | cons p pre' =>
                simp only [List.cons_append, List.cons.injEq] at hsplit
                obtain ⟨_, hrest⟩ := hsplit
                apply hv_rest
                rw [hrest, hdst]; simp
          obtain ⟨p, a, h1, h2, h3⟩ := hd e.src hsrc
          obtain ⟨s1, s2⟩ := path_snoc es e (findEdge_of_mem huniq he) p a h1 h2
          refine ⟨p ++ [e.dst], a, by simpa using s1, ?_, ?_⟩
          · have hl : (a :: (p ++ [e.dst])).getLast (by simp) = e.dst := by
              exact List.getLast_concat (l := a :: p)
            rw [hl]; exact hdst
          · have : pathWeight es (a :: (p ++ [e.dst])) = pathWeight es (a :: p) + e.w := by simpa using s2
            rw [this, h3, ← hval]
    have hmem : u ∈ keys (dpStep es d v) ++ rest := by
      rw [hk1, List.append_assoc]; simpa using hu
    exact ih (dpStep es d v) hnd1 htopo1 hd1 u hmem

end Hta.C09

namespace Hta.C09

theorem distOf_of_mem (d : List (Nat × Int)) (hnd : (keys d).Nodup) (q : Nat × Int) (hq : q ∈ d) :
    distOf d q.1 = q.2 := by
  induction d with
  | nil => cases hq
  | cons x xs ih =>
    have hnd0 : (x.1 :: keys xs).Nodup := hnd
    have hnd' := List.nodup_cons.mp hnd0
    rcases List.mem_cons.mp hq with rfl | hq
    · simp [distOf]
    · have hne : (x.1 == q.1) = false := by
        apply beq_false_of_ne
        intro h
        exact hnd'.1 (h ▸ List.mem_map.mpr ⟨q, hq, rfl⟩)
      have := ih hnd'.2 hq
      simp only [distOf, List.find?_cons, hne] at this ⊢
      exact this

end Hta.C09
