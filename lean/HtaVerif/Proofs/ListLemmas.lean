/-! General list lemmas (core Lean only). -/
namespace Hta

theorem nodup_map_inj {α β : Type} {f : α → β} {l : List α} (h : (l.map f).Nodup)
    {a b : α} (ha : a ∈ l) (hb : b ∈ l) (hab : f a = f b) : a = b := by
  induction l with
  | nil => cases ha
  | cons x xs ih =>
    simp only [List.map_cons, List.nodup_cons, List.mem_map, not_exists, not_and] at h
    rcases List.mem_cons.mp ha with rfl | ha' <;> rcases List.mem_cons.mp hb with rfl | hb'
    · rfl
    · exact absurd hab.symm (h.1 b hb')
    · exact absurd hab (h.1 a ha')
    · exact ih h.2 ha' hb'

theorem nodup_map_filter {α β : Type} {f : α → β} {l : List α} (p : α → Bool)
    (h : (l.map f).Nodup) : ((l.filter p).map f).Nodup :=
  (List.Sublist.map f (List.filter_sublist)).nodup h

end Hta
