/-! General list lemmas (core Lean only). -/
namespace Hta

theorem nodup_map_inj {α β : Type} {f : α → β} {l : List α} (h : (l.map f).Nodup)
    {a b : α} (ha : a ∈ l) (hb : b ∈ l) (hab : f a = f b) : a = b := by
  induction l with
  | nil => cases ha
  | cons x xs ih =>
    simp only [List.map_cons, List.nodup_cons, List.mem_map, not_exists, not_and] at h
    rcases List.mem_cons.mp ha with rfl | ha' <;> rcases List.mem_cons.mp hb with rfl | hb'
    · rfl
    · exact absurd hab.symm (h.1 b hb')
    · exact absurd hab (h.1 a ha')
    · exact ih h.2 ha' hb'

theorem nodup_map_filter {α β : Type} {f : α → β} {l : List α} (p : α → Bool)
    (h : (l.map f).Nodup) : ((l.filter p).map f).Nodup :=
  (List.Sublist.map f (List.filter_sublist)).nodup h

theorem length_le_one_of_all_eq {α : Type} {l : List α} (hnd : l.Nodup)
    (h : ∀ a ∈ l, ∀ b ∈ l, a = b) : l.length ≤ 1 := by
  cases l with
  | nil => simp
  | cons a t =>
    cases t with
    | nil => simp
    | cons b t' =>
      exfalso
      have hab : a = b := h a List.mem_cons_self b (List.mem_cons_of_mem _ List.mem_cons_self)
      have := (List.nodup_cons.mp hnd).1
      rw [hab] at this
      exact this List.mem_cons_self

theorem pairwise_of_length_le_one {α : Type} {R : α → α → Prop} {l : List α} (h : l.length ≤ 1) :
    l.Pairwise R := by
  cases l with
  | nil => exact List.Pairwise.nil
  | cons a t =>
    cases t with
    | nil => exact List.pairwise_singleton R a
    | cons b t' => simp at h

theorem nodup_map_of_inj_on {α β : Type} {f : α → β} {l : List α} (hnd : l.Nodup)
    (hinj : ∀ a ∈ l, ∀ b ∈ l, f a = f b → a = b) : (l.map f).Nodup := by
  induction l with
  | nil => exact List.nodup_nil
  | cons x xs ih =>
    have h := List.nodup_cons.mp hnd
    rw [List.map_cons, List.nodup_cons]
    refine ⟨?_, ih h.2 (fun a ha b hb => hinj a (List.mem_cons_of_mem _ ha) b (List.mem_cons_of_mem _ hb))⟩
    intro hmem
    obtain ⟨y, hy, hfy⟩ := List.mem_map.mp hmem
    have := hinj y (List.mem_cons_of_mem _ hy) x List.mem_cons_self hfy
    subst this
    exact h.1 hy

end Hta
