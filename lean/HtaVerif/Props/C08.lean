import HtaVerif.Spec.C08
import HtaVerif.Props.C03
/-!
# C08 — critical-path graph is a forward-in-time DAG with typed, non-negative edges
-/
namespace Hta.C08

/-! ### every analysed event contributes exactly one start and one end node -/

theorem C08_nodes_two_per_event (clipped : List Row) (n : NodeId) (ts : Int) :
    (n, ts) ∈ nodesOf clipped ↔
      ∃ r ∈ clipped, hasNode r = true ∧ n.ev = r.idx ∧ ts = nodeTs r n.isStart := by
  simp only [nodesOf, List.mem_flatMap, List.mem_filter, List.mem_cons, Prod.mk.injEq,
    List.not_mem_nil, or_false]
  constructor
  · rintro ⟨r, ⟨hr, hn⟩, (⟨rfl, rfl⟩ | ⟨rfl, rfl⟩)⟩
    · exact ⟨r, hr, hn, rfl, by simp [nodeTs]⟩
    · exact ⟨r, hr, hn, rfl, by simp [nodeTs]⟩
  · rintro ⟨r, hr, hn, hev, hts⟩
    refine ⟨r, ⟨hr, hn⟩, ?_⟩
    obtain ⟨ev, st⟩ := n
    simp only at hev hts
    subst hev
    cases st
    · right; exact ⟨rfl, by simpa [nodeTs] using hts⟩
    · left; exact ⟨rfl, by simpa [nodeTs] using hts⟩

theorem nodesOf_length (clipped : List Row) :
    (nodesOf clipped).length = 2 * (clipped.filter hasNode).length := by
  unfold nodesOf
  induction clipped.filter hasNode with
  | nil => rfl
  | cons r rs ih => simp only [List.flatMap_cons, List.length_append, List.length_cons, List.length_nil, ih]; omega

/-! ### invariants of the edge set -/

def AllEdges (P : Edge → Prop) (g : G) : Prop := ∀ e ∈ g.edges, P e

theorem allEdges_addEdge {P : Edge → Prop} {g : G} {e : Edge} (hg : AllEdges P g) (he : P e) :
    AllEdges P (addEdge g e) := by
  intro x hx
  simp only [addEdge, List.mem_append, List.mem_filter, List.mem_singleton] at hx
  rcases hx with ⟨h, _⟩ | rfl
  · exact hg x h
  · exact he

theorem allEdges_attributeEdge {P : Edge → Prop} {g : G} (e : Edge) (p : Int) (hg : AllEdges P g) :
    AllEdges P (attributeEdge g e p) := by
  unfold attributeEdge
  split
  · exact hg
  · exact hg

/-- Folding emitted descriptors preserves any property that each emitted edge has. -/
theorem allEdges_applyAll {P : Edge → Prop} (rows : List Row) (ds : List Desc) (g : G)
    (hds : ∀ d ∈ ds, P (mkEdge rows d.src d.dst d.ty d.zero)) (hg : AllEdges P g) :
    AllEdges P (applyAll rows g ds) := by
  unfold applyAll
  induction ds generalizing g with
  | nil => exact hg
  | cons d ds ih =>
    simp only [List.foldl_cons]
    apply ih _ (fun x hx => hds x (List.mem_cons_of_mem _ hx))
    unfold applyDesc
    exact allEdges_attributeEdge _ _ (allEdges_addEdge hg (hds d List.mem_cons_self))

theorem mkEdge_weightOK (rows : List Row) (src dst : NodeId) (ty : ETy) (z : Bool) :
    WeightOK rows (mkEdge rows src dst ty z) := by
  unfold WeightOK mkEdge
  constructor
  · rintro (h | h) <;> simp only [] at h <;> subst h <;> simp +decide
  · simp only []
    split
    · exact Or.inl rfl
    · exact Or.inr rfl

/-- **Weight rule.** Every edge of the graph weighs either the time difference of its
endpoints or zero, and dependency / synchronisation edges always weigh zero. -/
theorem C08_edge_weight_rule (rows : List Row) (ws : Waits) (w : Int × Int) (zl : Bool) :
    ∀ e ∈ (build rows ws w zl).2.edges, WeightOK rows e :=
  allEdges_applyAll rows _ _ (fun d _ => mkEdge_weightOK rows _ _ _ _) (by intro e he; cases he)

/-- Every edge of the graph joins the nodes of an emitted descriptor: forwardness of the graph
reduces to forwardness of what the two loops emit. -/
theorem C08_forward_of_descs (rows : List Row) (ws : Waits) (w : Int × Int) (zl : Bool)
    (h : ∀ d ∈ descs rows (clip rows w) ws zl, tsOf rows d.src ≤ tsOf rows d.dst) :
    ∀ e ∈ (build rows ws w zl).2.edges, Forward rows e :=
  allEdges_applyAll rows _ _ (fun d hd => by unfold Forward mkEdge; exact h d hd) (by intro e he; cases he)

/-- Hence: in a graph whose edges point forward in time no weight is negative. -/
theorem C08_weights_nonneg (rows : List Row) (ws : Waits) (w : Int × Int) (zl : Bool)
    (hfwd : ∀ e ∈ (build rows ws w zl).2.edges, Forward rows e) :
    ∀ e ∈ (build rows ws w zl).2.edges, 0 ≤ e.weight := by
  intro e he
  have h1 := (C08_edge_weight_rule rows ws w zl e he).2
  have h2 := hfwd e he
  unfold Forward at h2
  rcases h1 with h | h <;> omega

/-! ### acyclicity from a topological certificate -/

theorem walk_rank_lt {edges : List Edge} {rank : NodeId → Nat} (h : checkTopo edges rank = true)
    {a b : NodeId} (w : Walk edges a b) : rank a < rank b := by
  have hall : ∀ e ∈ edges, rank e.src < rank e.dst := by
    intro e he
    have := List.all_eq_true.mp h e he
    simpa using this
  induction w with
  | single e he => exact hall e he
  | cons e he _ ih => exact Nat.lt_trans (hall e he) ih

/-- **Soundness of the certificate checker**: a graph that passes `checkTopo` for some rank has
no cycle. The harness obtains the rank from a topological order and the check runs in Lean on
the implementation's own edge list. -/
theorem C08_checkTopo_sound (edges : List Edge) (rank : NodeId → Nat)
    (h : checkTopo edges rank = true) : Acyclic edges := by
  intro n w
  exact Nat.lt_irrefl _ (walk_rank_lt h w)

/-- Forward-in-time edges with strictly positive time difference cannot lie on a cycle of
equal... (a cycle would have to consist of equal-time edges only): every walk is forward. -/
theorem walk_forward {rows : List Row} {edges : List Edge} (hf : ∀ e ∈ edges, Forward rows e)
    {a b : NodeId} (w : Walk edges a b) : tsOf rows a ≤ tsOf rows b := by
  induction w with
  | single e he => exact hf e he
  | cons e he _ ih => exact Int.le_trans (hf e he) ih

/-! ### call-stack edges point forward in time -/

/-- The DFS invariant: the remembered nodes are no later than the time of the last token. -/
structure DfsInv (rows : List Row) (T : Int) (s : DS) : Prop where
  last : ∀ n, s.lastNode = some n → tsOf rows n ≤ T
  high : ∀ n, s.lastHigh = some n → tsOf rows n ≤ T

/-- One DFS step at a token whose node time is `t.time ≥ T`: the emitted edges go forward and
the invariant is re-established at `t.time`. -/
theorem dfsStep_inv (rows : List Row) (nodeEv : Int → Bool) (parent : Int → Int) (blocking : Int → Bool)
    (s : DS) (t : C03.Tok) (T : Int) (hT : T ≤ t.time)
    (hts : nodeEv t.idx = true → tsOf rows ⟨t.idx, t.kind == -1⟩ = t.time)
    (inv : DfsInv rows T s) :
    DfsInv rows t.time (dfsStep nodeEv parent blocking s t).1 ∧
    ∀ d ∈ (dfsStep nodeEv parent blocking s t).2, tsOf rows d.src ≤ tsOf rows d.dst := by
  unfold dfsStep
  split
  · refine ⟨⟨?_, ?_⟩, by intro d hd; cases hd⟩
    · intro n h
      have h' : s.lastNode = some n := by split at h <;> exact h
      exact Int.le_trans (inv.last n h') hT
    · intro n h
      have h' : s.lastHigh = some n := by split at h <;> exact h
      exact Int.le_trans (inv.high n h') hT
  · rename_i hne
    have hne' : nodeEv t.idx = true := by simpa using hne
    have htime := hts hne'
    split
    · rename_i hk
      have hstart : tsOf rows ⟨t.idx, true⟩ = t.time := by simpa [hk] using htime
      refine ⟨⟨?_, ?_⟩, ?_⟩
      · intro n h; simp at h; subst h; rw [hstart]; exact Int.le_refl _
      · intro n h; exact Int.le_trans (inv.high n h) hT
      · intro d hd
        simp only [List.mem_append] at hd
        rcases hd with hd | hd
        · cases hdp : s.depth <;> cases hh : s.lastHigh <;> simp [hdp, hh] at hd
          subst hd
          rename_i h
          show tsOf rows h ≤ tsOf rows ⟨t.idx, true⟩
          rw [hstart]; exact Int.le_trans (inv.high _ hh) hT
        · cases hln : s.lastNode <;> simp [hln] at hd
          subst hd
          rename_i ln
          show tsOf rows ln ≤ tsOf rows ⟨t.idx, true⟩
          rw [hstart]; exact Int.le_trans (inv.last _ hln) hT
    · rename_i hk
      have hend : tsOf rows ⟨t.idx, false⟩ = t.time := by
        have : (t.kind == -1) = false := by simpa using hk
        simpa [this] using htime
      have hspan : ∀ d ∈ (match s.lastNode with
          | some ln => [(⟨ln, ⟨t.idx, false⟩, .op, blocking t.idx, s.lastPar⟩ : Desc)]
          | none => []), tsOf rows d.src ≤ tsOf rows d.dst := by
        intro d hd
        cases hln : s.lastNode <;> simp [hln] at hd
        subst hd
        rename_i ln
        show tsOf rows ln ≤ tsOf rows ⟨t.idx, false⟩
        rw [hend]; exact Int.le_trans (inv.last _ hln) hT
      simp only []
      split
      · refine ⟨⟨by intro n h; simp at h, ?_⟩, hspan⟩
        intro n h; simp at h; subst h; rw [hend]; exact Int.le_refl _
      · refine ⟨⟨?_, fun n h => Int.le_trans (inv.high n h) hT⟩, hspan⟩
        intro n h; simp at h; subst h; rw [hend]; exact Int.le_refl _

/-- **Call-stack edges point forward in time**: for any token list that is non-decreasing in
time (what the sorted endpoint list of C03 is) and whose tokens carry the times of their
nodes, every span and dependency edge the DFS emits goes forward. -/
theorem C08_callstack_edges_forward (rows : List Row) (nodeEv : Int → Bool) (parent : Int → Int)
    (blocking : Int → Bool) (toks : List C03.Tok)
    (hsorted : toks.Pairwise fun a b => a.time ≤ b.time)
    (hts : ∀ t ∈ toks, nodeEv t.idx = true → tsOf rows ⟨t.idx, t.kind == -1⟩ = t.time)
    (s : DS) (T : Int) (hT : ∀ t ∈ toks, T ≤ t.time) (inv : DfsInv rows T s) :
    ∀ d ∈ dfsRun nodeEv parent blocking s toks, tsOf rows d.src ≤ tsOf rows d.dst := by
  induction toks generalizing s T with
  | nil => intro d hd; cases hd
  | cons t ts ih =>
    have hp := List.pairwise_cons.mp hsorted
    obtain ⟨hinv, hfw⟩ := dfsStep_inv rows nodeEv parent blocking s t T (hT t List.mem_cons_self)
      (hts t List.mem_cons_self) inv
    intro d hd
    simp only [dfsRun, List.mem_append] at hd
    rcases hd with hd | hd
    · exact hfw d hd
    · exact ih hp.2 (fun x hx => hts x (List.mem_cons_of_mem _ hx)) _ t.time (fun x hx => hp.1 x hx) hinv d hd

/-! ### kernel-loop edges: typed, and forward under the causal hypotheses -/

/-- What the kernel loop may emit for a row, as the property states it: the kernel's own span; a
launch-delay edge from the start of the runtime call the kernel is linked to; a kernel-kernel edge
from the end of the last kernel seen on the same stream; a synchronisation edge from a kernel's end
to the end of the host call that waited for it (Stream / Context Sync: the last kernel of a stream;
Event Sync: the kernel launched last before the event was recorded) or to the start of the kernel
that waited for it (a dependency scheduled by an earlier Stream Wait Event). -/
def KernelDescOK (rows : List Row) (ws : Waits) (st : KState) (r : Row) (d : Desc) : Prop :=
  (d.ty = .op ∧ d.src = ⟨r.idx, true⟩ ∧ d.dst = ⟨r.idx, false⟩) ∨
  (d.ty = .launch ∧ d.src = ⟨r.link, true⟩ ∧ d.dst = ⟨r.idx, true⟩) ∨
  (d.ty = .kk ∧ lastOn st.last r.stream = some d.src ∧ d.dst = ⟨r.idx, true⟩) ∨
  (d.ty = .sync ∧ d.dst = ⟨r.link, false⟩ ∧ ∃ s, lastOn st.last s = some d.src) ∨
  (d.ty = .sync ∧ d.dst = ⟨r.link, false⟩ ∧ r.name = "Event Sync" ∧
      d.src = ⟨linkOf rows (syncPrev rows ws r), false⟩) ∨
  (d.ty = .sync ∧ d.dst = ⟨r.idx, true⟩ ∧ ∃ s, ksGet st.ksync r.idx = some (some s) ∧ d.src = ⟨s, false⟩)

theorem mem_lastOn_of_mem_map {st : KS} {n : NodeId} (h : n ∈ st.map (·.2)) (hnd : (st.map (·.1)).Nodup) :
    ∃ s, lastOn st s = some n := by
  induction st with
  | nil => cases h
  | cons x xs ih =>
    simp only [List.map_cons, List.mem_cons] at h
    have hnd' := List.nodup_cons.mp hnd
    rcases h with rfl | h
    · exact ⟨x.1, by simp [lastOn]⟩
    · obtain ⟨s, hs⟩ := ih h hnd'.2
      refine ⟨s, ?_⟩
      have hsx : (x.1 == s) = false := by
        apply beq_false_of_ne
        intro heq
        have : s ∈ xs.map (·.1) := by
          unfold lastOn at hs
          cases hf : xs.find? (fun y => y.1 == s) with
          | none => simp [hf] at hs
          | some y =>
            have hy := List.mem_of_find?_eq_some hf
            have hp := List.find?_some hf
            exact List.mem_map.mpr ⟨y, hy, by simpa using hp⟩
        exact hnd'.1 (by show x.1 ∈ _; rw [heq]; exact this)
      simp only [lastOn, List.find?_cons, hsx] at hs ⊢
      exact hs

theorem mem_if {α : Type} {c : Prop} [Decidable c] {a : α} {l1 l2 : List α}
    (h : a ∈ if c then l1 else l2) : a ∈ l1 ∨ a ∈ l2 := by
  split at h
  · exact Or.inl h
  · exact Or.inr h

theorem ksEndOf_some {clipped : List Row} {ks : KSync} {i : Int} {n : NodeId}
    (h : ksEndOf clipped ks i = some n) : ∃ s, ksGet ks i = some (some s) ∧ n = ⟨s, false⟩ := by
  unfold ksEndOf at h
  split at h
  · rename_i s hs
    split at h
    · exact ⟨s, hs, by simpa using h.symm⟩
    · cases h
  · cases h

theorem eventStep_descs (rows clipped : List Row) (ws : Waits) (st : KState) (r : Row) :
    ∀ d ∈ (eventStep rows clipped ws st r).2,
      r.name ≠ "Stream Wait Event" ∧
      d = ⟨⟨linkOf rows (syncPrev rows ws r), false⟩, ⟨r.link, false⟩, .sync, false, -1⟩ := by
  intro d hd
  unfold eventStep at hd
  split at hd
  · cases hd
  · split at hd
    · split at hd
      · split at hd
        · cases hd
        · split at hd <;> cases hd
      · cases hd
    · rename_i hname
      split at hd
      · simp only [List.mem_singleton] at hd
        exact ⟨by simpa using hname, hd⟩
      · cases hd

/-- **Edge types join only what they stand for** (kernel loop, including CUDA-event based
synchronisation). -/
theorem C08_kernel_edge_types (rows clipped : List Row) (ws : Waits) (q : Int → Option Int) (zl : Bool)
    (st : KState) (r : Row) (hnd : (st.last.map (·.1)).Nodup) :
    ∀ d ∈ (kernelStep rows clipped ws q zl st r).2, KernelDescOK rows ws st r d := by
  intro d hd
  unfold kernelStep at hd
  simp only [] at hd
  split at hd
  · -- synchronisation records
    split at hd
    · rename_i hor
      obtain ⟨hne, rfl⟩ := eventStep_descs rows clipped ws st r d hd
      right; right; right; right; left
      refine ⟨rfl, rfl, ?_, rfl⟩
      simp only [Bool.or_eq_true, beq_iff_eq] at hor
      rcases hor with h | h
      · exact absurd h hne
      · exact h
    · split at hd
      · obtain ⟨n, hn, rfl⟩ := List.mem_map.mp hd
        right; right; right; left
        refine ⟨rfl, rfl, ?_⟩
        split at hn
        · exact mem_lastOn_of_mem_map hn hnd
        · cases hl : lastOn st.last r.stream with
          | none => simp [hl] at hn
          | some m => simp [hl] at hn; subst hn; exact ⟨r.stream, hl⟩
      · cases hd
  · -- kernels
    generalize hke : ksEndOf clipped st.ksync r.idx = ke at hd
    simp only [List.mem_append, List.mem_singleton] at hd
    rcases hd with ((hd | hd) | hd) | hd
    · subst hd; left; exact ⟨rfl, rfl, rfl⟩
    · -- GPU -> GPU dependency
      right; right; right; right; right
      cases ke with
      | none => simp at hd
      | some n =>
        simp only [List.mem_singleton] at hd
        subst hd
        obtain ⟨s, hs, rfl⟩ := ksEndOf_some hke
        exact ⟨rfl, rfl, s, hs, rfl⟩
    · rcases mem_if hd with hd | hd
      · simp only [List.mem_singleton] at hd; subst hd; right; left; exact ⟨rfl, rfl, rfl⟩
      · cases hl : lastOn st.last r.stream with
        | none => rw [hl] at hd; cases hd
        | some n =>
          rw [hl] at hd
          rcases mem_if hd with hd | hd
          · simp only [List.mem_singleton] at hd; subst hd; right; right; left; exact ⟨rfl, hl, rfl⟩
          · cases hd
    · rcases mem_if hd with hd | hd
      · simp only [List.mem_singleton] at hd; subst hd; right; left; exact ⟨rfl, rfl, rfl⟩
      · cases hd

/-- The sorted endpoint tokens of C03 are non-decreasing in time. -/
theorem sortToks_time_sorted (po : Int → Bool) {es : List C03.Ev} (wf : C03.WF es) :
    (C03.sortToks po (C03.tokens es)).Pairwise fun a b => a.time ≤ b.time := by
  have := (C03.sortToks_spec po wf).2
  apply this.imp
  intro a b h
  unfold C03.tokLt C03.keyLt at h
  have ka : (C03.key po a).1 = a.time := by unfold C03.key; split <;> (try split) <;> rfl
  have kb : (C03.key po b).1 = b.time := by unfold C03.key; split <;> (try split) <;> rfl
  rw [ka, kb] at h
  omega

example : checkTopo [⟨⟨1, true⟩, ⟨1, false⟩, 5, .op⟩, ⟨⟨1, false⟩, ⟨2, true⟩, 0, .dep⟩]
    (fun n => if n.ev == 1 then (if n.isStart then 0 else 1) else 2) = true := by decide

end Hta.C08
