import HtaVerif.Spec.C08
import HtaVerif.Props.C03
import HtaVerif.Proofs.C08
/-!
# C08 — critical-path graph is a forward-in-time DAG with typed, non-negative edges
-/
namespace Hta.C08

/-! ### every analysed event contributes exactly one start and one end node -/

theorem C08_nodes_two_per_event (clipped : List Row) (n : NodeId) (ts : Int) :
    (n, ts) ∈ nodesOf clipped ↔
      ∃ r ∈ clipped, hasNode r = true ∧ n.ev = r.idx ∧ ts = nodeTs r n.isStart := by
  simp only [nodesOf, List.mem_flatMap, List.mem_filter, List.mem_cons, Prod.mk.injEq,
    List.not_mem_nil, or_false]
  constructor
  · rintro ⟨r, ⟨hr, hn⟩, (⟨rfl, rfl⟩ | ⟨rfl, rfl⟩)⟩
    · exact ⟨r, hr, hn, rfl, by simp [nodeTs]⟩
    · exact ⟨r, hr, hn, rfl, by simp [nodeTs]⟩
  · rintro ⟨r, hr, hn, hev, hts⟩
    refine ⟨r, ⟨hr, hn⟩, ?_⟩
    obtain ⟨ev, st⟩ := n
    simp only at hev hts
    subst hev
    cases st
    · right; exact ⟨rfl, by simpa [nodeTs] using hts⟩
    · left; exact ⟨rfl, by simpa [nodeTs] using hts⟩

theorem nodesOf_length (clipped : List Row) :
    (nodesOf clipped).length = 2 * (clipped.filter hasNode).length := by
  unfold nodesOf
  induction clipped.filter hasNode with
  | nil => rfl
  | cons r rs ih => simp only [List.flatMap_cons, List.length_append, List.length_cons, List.length_nil, ih]; omega

/-! ### invariants of the edge set -/

def AllEdges (P : Edge → Prop) (g : G) : Prop := ∀ e ∈ g.edges, P e

theorem allEdges_addEdge {P : Edge → Prop} {g : G} {e : Edge} (hg : AllEdges P g) (he : P e) :
    AllEdges P (addEdge g e) := by
  intro x hx
  simp only [addEdge, List.mem_append, List.mem_filter, List.mem_singleton] at hx
  rcases hx with ⟨h, _⟩ | rfl
  · exact hg x h
  · exact he

theorem allEdges_attributeEdge {P : Edge → Prop} {g : G} (e : Edge) (p : Int) (hg : AllEdges P g) :
    AllEdges P (attributeEdge g e p) := by
  unfold attributeEdge
  split
  · exact hg
  · exact hg

/-- Folding emitted descriptors preserves any property that each emitted edge has. -/
theorem allEdges_applyAll {P : Edge → Prop} (rows : List Row) (ds : List Desc) (g : G)
    (hds : ∀ d ∈ ds, P (mkEdge rows d.src d.dst d.ty d.zero)) (hg : AllEdges P g) :
    AllEdges P (applyAll rows g ds) := by
  unfold applyAll
  induction ds generalizing g with
  | nil => exact hg
  | cons d ds ih =>
    simp only [List.foldl_cons]
    apply ih _ (fun x hx => hds x (List.mem_cons_of_mem _ hx))
    unfold applyDesc
    exact allEdges_attributeEdge _ _ (allEdges_addEdge hg (hds d List.mem_cons_self))

theorem mkEdge_weightOK (rows : List Row) (src dst : NodeId) (ty : ETy) (z : Bool) :
    WeightOK rows (mkEdge rows src dst ty z) := by
  unfold WeightOK mkEdge
  constructor
  · rintro (h | h) <;> simp only [] at h <;> subst h <;> simp +decide
  · simp only []
    split
    · exact Or.inl rfl
    · exact Or.inr rfl

/-- **Weight rule.** Every edge of the graph weighs either the time difference of its
endpoints or zero, and dependency / synchronisation edges always weigh zero. -/
theorem C08_edge_weight_rule (rows : List Row) (ws : Waits) (w : Int × Int) (zl : Bool) :
    ∀ e ∈ (build rows ws w zl).2.edges, WeightOK rows e :=
  allEdges_applyAll rows _ _ (fun d _ => mkEdge_weightOK rows _ _ _ _) (by intro e he; cases he)

/-- Every edge of the graph joins the nodes of an emitted descriptor: forwardness of the graph
reduces to forwardness of what the two loops emit. -/
theorem C08_forward_of_descs (rows : List Row) (ws : Waits) (w : Int × Int) (zl : Bool)
    (h : ∀ d ∈ descs rows (clip rows w) ws zl, tsOf rows d.src ≤ tsOf rows d.dst) :
    ∀ e ∈ (build rows ws w zl).2.edges, Forward rows e :=
  allEdges_applyAll rows _ _ (fun d hd => by unfold Forward mkEdge; exact h d hd) (by intro e he; cases he)

/-- Hence: in a graph whose edges point forward in time no weight is negative. -/
theorem C08_weights_nonneg (rows : List Row) (ws : Waits) (w : Int × Int) (zl : Bool)
    (hfwd : ∀ e ∈ (build rows ws w zl).2.edges, Forward rows e) :
    ∀ e ∈ (build rows ws w zl).2.edges, 0 ≤ e.weight := by
  intro e he
  have h1 := (C08_edge_weight_rule rows ws w zl e he).2
  have h2 := hfwd e he
  unfold Forward at h2
  rcases h1 with h | h <;> omega

/-! ### acyclicity from a topological certificate -/

theorem walk_rank_lt {edges : List Edge} {rank : NodeId → Nat} (h : checkTopo edges rank = true)
    {a b : NodeId} (w : Walk edges a b) : rank a < rank b := by
  have hall : ∀ e ∈ edges, rank e.src < rank e.dst := by
    intro e he
    have := List.all_eq_true.mp h e he
    simpa using this
  induction w with
  | single e he => exact hall e he
  | cons e he _ ih => exact Nat.lt_trans (hall e he) ih

/-- **Soundness of the certificate checker**: a graph that passes `checkTopo` for some rank has
no cycle. The harness obtains the rank from a topological order and the check runs in Lean on
the implementation's own edge list. -/
theorem C08_checkTopo_sound (edges : List Edge) (rank : NodeId → Nat)
    (h : checkTopo edges rank = true) : Acyclic edges := by
  intro n w
  exact Nat.lt_irrefl _ (walk_rank_lt h w)

/-- Forward-in-time edges with strictly positive time difference cannot lie on a cycle of
equal... (a cycle would have to consist of equal-time edges only): every walk is forward. -/
theorem walk_forward {rows : List Row} {edges : List Edge} (hf : ∀ e ∈ edges, Forward rows e)
    {a b : NodeId} (w : Walk edges a b) : tsOf rows a ≤ tsOf rows b := by
  induction w with
  | single e he => exact hf e he
  | cons e he _ ih => exact Int.le_trans (hf e he) ih

/-! ### call-stack edges point forward in time -/

/-- The DFS invariant: the remembered nodes are no later than the time of the last token. -/
structure DfsInv (rows : List Row) (T : Int) (s : DS) : Prop where
  last : ∀ n, s.lastNode = some n → tsOf rows n ≤ T
  high : ∀ n, s.lastHigh = some n → tsOf rows n ≤ T

/-- One DFS step at a token whose node time is `t.time ≥ T`: the emitted edges go forward and
the invariant is re-established at `t.time`. -/
theorem dfsStep_inv (rows : List Row) (nodeEv : Int → Bool) (parent : Int → Int) (blocking : Int → Bool)
    (s : DS) (t : C03.Tok) (T : Int) (hT : T ≤ t.time)
    (hts : nodeEv t.idx = true → tsOf rows ⟨t.idx, t.kind == -1⟩ = t.time)
    (inv : DfsInv rows T s) :
    DfsInv rows t.time (dfsStep nodeEv parent blocking s t).1 ∧
    ∀ d ∈ (dfsStep nodeEv parent blocking s t).2, tsOf rows d.src ≤ tsOf rows d.dst := by
  unfold dfsStep
  split
  · refine ⟨⟨?_, ?_⟩, by intro d hd; cases hd⟩
    · intro n h
      have h' : s.lastNode = some n := by split at h <;> exact h
      exact Int.le_trans (inv.last n h') hT
    · intro n h
      have h' : s.lastHigh = some n := by split at h <;> exact h
      exact Int.le_trans (inv.high n h') hT
  · rename_i hne
    have hne' : nodeEv t.idx = true := by simpa using hne
    have htime := hts hne'
    split
    · rename_i hk
      have hstart : tsOf rows ⟨t.idx, true⟩ = t.time := by simpa [hk] using htime
      refine ⟨⟨?_, ?_⟩, ?_⟩
      · intro n h; simp at h; subst h; rw [hstart]; exact Int.le_refl _
      · intro n h; exact Int.le_trans (inv.high n h) hT
      · intro d hd
        simp only [List.mem_append] at hd
        rcases hd with hd | hd
        · cases hdp : s.depth <;> cases hh : s.lastHigh <;> simp [hdp, hh] at hd
          subst hd
          rename_i h
          show tsOf rows h ≤ tsOf rows ⟨t.idx, true⟩
          rw [hstart]; exact Int.le_trans (inv.high _ hh) hT
        · cases hln : s.lastNode <;> simp [hln] at hd
          subst hd
          rename_i ln
          show tsOf rows ln ≤ tsOf rows ⟨t.idx, true⟩
          rw [hstart]; exact Int.le_trans (inv.last _ hln) hT
    · rename_i hk
      have hend : tsOf rows ⟨t.idx, false⟩ = t.time := by
        have : (t.kind == -1) = false := by simpa using hk
        simpa [this] using htime
      have hspan : ∀ d ∈ (match s.lastNode with
          | some ln => [(⟨ln, ⟨t.idx, false⟩, .op, blocking t.idx, s.lastPar⟩ : Desc)]
          | none => []), tsOf rows d.src ≤ tsOf rows d.dst := by
        intro d hd
        cases hln : s.lastNode <;> simp [hln] at hd
        subst hd
        rename_i ln
        show tsOf rows ln ≤ tsOf rows ⟨t.idx, false⟩
        rw [hend]; exact Int.le_trans (inv.last _ hln) hT
      simp only []
      split
      · refine ⟨⟨by intro n h; simp at h, ?_⟩, hspan⟩
        intro n h; simp at h; subst h; rw [hend]; exact Int.le_refl _
      · refine ⟨⟨?_, fun n h => Int.le_trans (inv.high n h) hT⟩, hspan⟩
        intro n h; simp at h; subst h; rw [hend]; exact Int.le_refl _

/-- **Call-stack edges point forward in time**: for any token list that is non-decreasing in
time (what the sorted endpoint list of C03 is) and whose tokens carry the times of their
nodes, every span and dependency edge the DFS emits goes forward. -/
theorem C08_callstack_edges_forward (rows : List Row) (nodeEv : Int → Bool) (parent : Int → Int)
    (blocking : Int → Bool) (toks : List C03.Tok)
    (hsorted : toks.Pairwise fun a b => a.time ≤ b.time)
    (hts : ∀ t ∈ toks, nodeEv t.idx = true → tsOf rows ⟨t.idx, t.kind == -1⟩ = t.time)
    (s : DS) (T : Int) (hT : ∀ t ∈ toks, T ≤ t.time) (inv : DfsInv rows T s) :
    ∀ d ∈ dfsRun nodeEv parent blocking s toks, tsOf rows d.src ≤ tsOf rows d.dst := by
  induction toks generalizing s T with
  | nil => intro d hd; cases hd
  | cons t ts ih =>
    have hp := List.pairwise_cons.mp hsorted
    obtain ⟨hinv, hfw⟩ := dfsStep_inv rows nodeEv parent blocking s t T (hT t List.mem_cons_self)
      (hts t List.mem_cons_self) inv
    intro d hd
    simp only [dfsRun, List.mem_append] at hd
    rcases hd with hd | hd
    · exact hfw d hd
    · exact ih hp.2 (fun x hx => hts x (List.mem_cons_of_mem _ hx)) _ t.time (fun x hx => hp.1 x hx) hinv d hd

/-! ### kernel-loop edges: typed, and forward under the causal hypotheses -/

/-- What the kernel loop may emit for a row, as the property states it: the kernel's own span; a
launch-delay edge from the start of the runtime call the kernel is linked to; a kernel-kernel edge
from the end of the last kernel seen on the same stream; a synchronisation edge from a kernel's end
to the end of the host call that waited for it (Stream / Context Sync: the last kernel of a stream;
Event Sync: the kernel launched last before the event was recorded) or to the start of the kernel
that waited for it (a dependency scheduled by an earlier Stream Wait Event). -/
def KernelDescOK (rows : List Row) (ws : Waits) (st : KState) (r : Row) (d : Desc) : Prop :=
  (d.ty = .op ∧ d.src = ⟨r.idx, true⟩ ∧ d.dst = ⟨r.idx, false⟩) ∨
  (d.ty = .launch ∧ d.src = ⟨r.link, true⟩ ∧ d.dst = ⟨r.idx, true⟩) ∨
  (d.ty = .kk ∧ lastOn st.last r.stream = some d.src ∧ d.dst = ⟨r.idx, true⟩) ∨
  (d.ty = .sync ∧ d.dst = ⟨r.link, false⟩ ∧ ∃ s, lastOn st.last s = some d.src) ∨
  (d.ty = .sync ∧ d.dst = ⟨r.link, false⟩ ∧ r.name = "Event Sync" ∧
      d.src = ⟨linkOf rows (syncPrev rows ws r), false⟩) ∨
  (d.ty = .sync ∧ d.dst = ⟨r.idx, true⟩ ∧ ∃ s, ksGet st.ksync r.idx = some (some s) ∧ d.src = ⟨s, false⟩)

theorem mem_lastOn_of_mem_map {st : KS} {n : NodeId} (h : n ∈ st.map (·.2)) (hnd : (st.map (·.1)).Nodup) :
    ∃ s, lastOn st s = some n := by
  induction st with
  | nil => cases h
  | cons x xs ih =>
    simp only [List.map_cons, List.mem_cons] at h
    have hnd' := List.nodup_cons.mp hnd
    rcases h with rfl | h
    · exact ⟨x.1, by simp [lastOn]⟩
    · obtain ⟨s, hs⟩ := ih h hnd'.2
      refine ⟨s, ?_⟩
      have hsx : (x.1 == s) = false := by
        apply beq_false_of_ne
        intro heq
        have : s ∈ xs.map (·.1) := by
          unfold lastOn at hs
          cases hf : xs.find? (fun y => y.1 == s) with
          | none => simp [hf] at hs
          | some y =>
            have hy := List.mem_of_find?_eq_some hf
            have hp := List.find?_some hf
            exact List.mem_map.mpr ⟨y, hy, by simpa using hp⟩
        exact hnd'.1 (by show x.1 ∈ _; rw [heq]; exact this)
      simp only [lastOn, List.find?_cons, hsx] at hs ⊢
      exact hs

theorem mem_if {α : Type} {c : Prop} [Decidable c] {a : α} {l1 l2 : List α}
    (h : a ∈ if c then l1 else l2) : a ∈ l1 ∨ a ∈ l2 := by
  split at h
  · exact Or.inl h
  · exact Or.inr h

theorem mem_ite_cases {α : Type} {c : Prop} [Decidable c] {a : α} {l1 l2 : List α}
    (h : a ∈ if c then l1 else l2) : (c ∧ a ∈ l1) ∨ (¬ c ∧ a ∈ l2) := by
  split at h
  · rename_i hc; exact Or.inl ⟨hc, h⟩
  · rename_i hc; exact Or.inr ⟨hc, h⟩

theorem ksEndOf_some {clipped : List Row} {ks : KSync} {i : Int} {n : NodeId}
    (h : ksEndOf clipped ks i = some n) : ∃ s, ksGet ks i = some (some s) ∧ n = ⟨s, false⟩ := by
  unfold ksEndOf at h
  split at h
  · rename_i s hs
    split at h
    · exact ⟨s, hs, by simpa using h.symm⟩
    · cases h
  · cases h

theorem eventStep_descs (rows clipped : List Row) (ws : Waits) (st : KState) (r : Row) :
    ∀ d ∈ (eventStep rows clipped ws st r).2,
      r.name ≠ "Stream Wait Event" ∧
      d = ⟨⟨linkOf rows (syncPrev rows ws r), false⟩, ⟨r.link, false⟩, .sync, false, -1⟩ := by
  intro d hd
  unfold eventStep at hd
  split at hd
  · cases hd
  · split at hd
    · split at hd
      · split at hd
        · cases hd
        · split at hd <;> cases hd
      · cases hd
    · rename_i hname
      split at hd
      · simp only [List.mem_singleton] at hd
        exact ⟨by simpa using hname, hd⟩
      · cases hd

/-- **Edge types join only what they stand for** (kernel loop, including CUDA-event based
synchronisation). -/
theorem C08_kernel_edge_types (rows clipped : List Row) (ws : Waits) (q : Int → Option Int) (zl : Bool)
    (st : KState) (r : Row) (hnd : (st.last.map (·.1)).Nodup) :
    ∀ d ∈ (kernelStep rows clipped ws q zl st r).2, KernelDescOK rows ws st r d := by
  intro d hd
  unfold kernelStep at hd
  simp only [] at hd
  split at hd
  · -- synchronisation records
    split at hd
    · rename_i hor
      obtain ⟨hne, rfl⟩ := eventStep_descs rows clipped ws st r d hd
      right; right; right; right; left
      refine ⟨rfl, rfl, ?_, rfl⟩
      simp only [Bool.or_eq_true, beq_iff_eq] at hor
      rcases hor with h | h
      · exact absurd h hne
      · exact h
    · split at hd
      · obtain ⟨n, hn, rfl⟩ := List.mem_map.mp hd
        right; right; right; left
        refine ⟨rfl, rfl, ?_⟩
        split at hn
        · exact mem_lastOn_of_mem_map hn hnd
        · cases hl : lastOn st.last r.stream with
          | none => simp [hl] at hn
          | some m => simp [hl] at hn; subst hn; exact ⟨r.stream, hl⟩
      · cases hd
  · -- kernels
    generalize hke : ksEndOf clipped st.ksync r.idx = ke at hd
    simp only [List.mem_append, List.mem_singleton] at hd
    rcases hd with ((hd | hd) | hd) | hd
    · subst hd; left; exact ⟨rfl, rfl, rfl⟩
    · -- GPU -> GPU dependency
      right; right; right; right; right
      cases ke with
      | none => simp at hd
      | some n =>
        simp only [List.mem_singleton] at hd
        subst hd
        obtain ⟨s, hs, rfl⟩ := ksEndOf_some hke
        exact ⟨rfl, rfl, s, hs, rfl⟩
    · rcases mem_if hd with hd | hd
      · simp only [List.mem_singleton] at hd; subst hd; right; left; exact ⟨rfl, rfl, rfl⟩
      · cases hl : lastOn st.last r.stream with
        | none => rw [hl] at hd; cases hd
        | some n =>
          rw [hl] at hd
          rcases mem_if hd with hd | hd
          · simp only [List.mem_singleton] at hd; subst hd; right; right; left; exact ⟨rfl, hl, rfl⟩
          · cases hd
    · rcases mem_if hd with hd | hd
      · simp only [List.mem_singleton] at hd; subst hd; right; left; exact ⟨rfl, rfl, rfl⟩
      · cases hd

/-! ### kernel-loop edges point forward in time for a causally consistent processing order -/

def isK (r : Row) : Bool := r.cat != "cuda_sync"

/-- Causal consistency of the rows the kernel loop processes, in processing order `ks`, stated on
exactly the pairs the loop relates:
* a device activity starts no earlier than its launch call (`launch`) and has a non-negative length;
* activities of one stream do not overlap (`fifo`);
* a blocking Stream / Context synchronisation returns no earlier than the work of the awaited
  stream(s) that precedes it (`sync`);
* `cudaEventSynchronize` returns no earlier than the kernel its event waits for (`evsync`);
* the kernel that follows a `cudaStreamWaitEvent` on the waiting stream starts no earlier than the
  kernel the awaited event stands for ends (`wait`). -/
structure Causal (rows clipped : List Row) (ws : Waits) (ks : List Row) : Prop where
  ids : ∀ r ∈ ks, findRow rows r.idx = some r
  dur : ∀ r ∈ ks, isK r = true → 0 ≤ r.dur
  launch : ∀ r ∈ ks, isK r = true → hasNodeIn clipped r.link = true → tsOf rows ⟨r.link, true⟩ ≤ r.ts
  fifo : ks.Pairwise fun a b => isK a = true → isK b = true → a.stream = b.stream → a.ts + a.dur ≤ b.ts
  sync : ks.Pairwise fun a b => isK a = true → isK b = false →
    (b.name = "Context Sync" ∨ (b.name = "Stream Sync" ∧ a.stream = b.stream)) →
    a.ts + a.dur ≤ tsOf rows ⟨b.link, false⟩
  evsync : ∀ r ∈ ks, r.name = "Event Sync" →
    tsOf rows ⟨linkOf rows (syncPrev rows ws r), false⟩ ≤ tsOf rows ⟨r.link, false⟩
  wait : ∀ w ∈ ks, w.name = "Stream Wait Event" → ∀ nl, nextLaunch rows w.link = some nl →
    tsOf rows ⟨linkOf rows (syncPrev rows ws w), false⟩ ≤ tsOf rows ⟨linkOf rows nl, true⟩

/-- Loop invariant: every remembered "last node of a stream" is the end of an already processed
activity of that stream, and every pending GPU->GPU dependency is forward in time. -/
structure KInv (rows : List Row) (done : List Row) (st : KState) : Prop where
  last : ∀ x ∈ st.last, ∃ a ∈ done, isK a = true ∧ a.stream = x.1 ∧ x.2 = ⟨a.idx, false⟩ ∧ findRow rows a.idx = some a
  pend : ∀ i s, (i, some s) ∈ st.ksync → tsOf rows ⟨s, false⟩ ≤ tsOf rows ⟨i, true⟩

theorem tsOf_start {rows : List Row} {r : Row} (h : findRow rows r.idx = some r) :
    tsOf rows ⟨r.idx, true⟩ = r.ts := by simp [tsOf, h, nodeTs]

theorem tsOf_end {rows : List Row} {r : Row} (h : findRow rows r.idx = some r) :
    tsOf rows ⟨r.idx, false⟩ = r.ts + r.dur := by simp [tsOf, h, nodeTs]

/-- One step of the kernel loop: emitted edges go forward, the invariant is kept. `hprev` relates
the row to everything processed before it (it is what `Causal` provides for a suffix). -/
theorem kernelStep_forward (rows clipped : List Row) (ws : Waits) (q : Int → Option Int) (zl : Bool)
    (done : List Row) (st : KState) (r : Row) (inv : KInv rows done st)
    (hid : findRow rows r.idx = some r)
    (hdur : isK r = true → 0 ≤ r.dur)
    (hlaunch : isK r = true → hasNodeIn clipped r.link = true → tsOf rows ⟨r.link, true⟩ ≤ r.ts)
    (hfifo : ∀ a ∈ done, isK a = true → isK r = true → a.stream = r.stream → a.ts + a.dur ≤ r.ts)
    (hsync : ∀ a ∈ done, isK a = true → isK r = false →
      (r.name = "Context Sync" ∨ (r.name = "Stream Sync" ∧ a.stream = r.stream)) →
      a.ts + a.dur ≤ tsOf rows ⟨r.link, false⟩)
    (hev : r.name = "Event Sync" →
      tsOf rows ⟨linkOf rows (syncPrev rows ws r), false⟩ ≤ tsOf rows ⟨r.link, false⟩)
    (hwait : r.name = "Stream Wait Event" → ∀ nl, nextLaunch rows r.link = some nl →
      tsOf rows ⟨linkOf rows (syncPrev rows ws r), false⟩ ≤ tsOf rows ⟨linkOf rows nl, true⟩) :
    (∀ d ∈ (kernelStep rows clipped ws q zl st r).2, tsOf rows d.src ≤ tsOf rows d.dst) ∧
    KInv rows (r :: done) (kernelStep rows clipped ws q zl st r).1 := by
  have inv' : KInv rows (r :: done) st :=
    ⟨fun x hx => by
        obtain ⟨a, ha, h⟩ := inv.last x hx
        exact ⟨a, List.mem_cons_of_mem _ ha, h⟩, inv.pend⟩
  have nilOK : ∀ d ∈ ([] : List Desc), tsOf rows d.src ≤ tsOf rows d.dst := by intro d hd; cases hd
  unfold kernelStep
  simp only []
  split
  · -- synchronisation records
    rename_i hcat
    have hk : isK r = false := by simp [isK, bne, hcat]
    split
    · -- Stream Wait Event / Event Sync
      rename_i hor
      unfold eventStep
      split
      · exact ⟨nilOK, inv'⟩
      · split
        · rename_i hname
          have hname' : r.name = "Stream Wait Event" := by simpa using hname
          cases hnl : nextLaunch rows r.link with
          | none => exact ⟨nilOK, inv'⟩
          | some nl =>
            simp only []
            split
            · exact ⟨nilOK, inv'⟩
            · split
              · exact ⟨nilOK, inv'⟩
              · refine ⟨nilOK, ⟨inv'.last, ?_⟩⟩
                intro i s hmem
                rcases mem_ksSet hmem with h | h
                · simp only [Prod.mk.injEq, Option.some.injEq] at h
                  obtain ⟨rfl, rfl⟩ := h
                  exact hwait hname' nl hnl
                · exact inv.pend i s h
        · rename_i hname
          split
          · refine ⟨?_, inv'⟩
            intro d hd
            simp only [List.mem_singleton] at hd
            subst hd
            simp only [Bool.or_eq_true, beq_iff_eq] at hor
            rcases hor with h | h
            · exact absurd h (by simpa using hname)
            · exact hev h
          · exact ⟨nilOK, inv'⟩
    · split
      · -- Stream Sync / Context Sync
        rename_i hcond
        refine ⟨?_, inv'⟩
        intro d hd
        obtain ⟨n, hn, rfl⟩ := List.mem_map.mp hd
        simp only [Bool.and_eq_true, Bool.or_eq_true, beq_iff_eq] at hcond
        have hmem : ∃ x ∈ st.last, x.2 = n ∧ (r.name = "Context Sync" ∨ (r.name = "Stream Sync" ∧ x.1 = r.stream)) := by
          split at hn
          · rename_i hctx
            obtain ⟨x, hx, rfl⟩ := List.mem_map.mp hn
            exact ⟨x, hx, rfl, Or.inl (by simpa using hctx)⟩
          · rename_i hctx
            cases hl : lastOn st.last r.stream with
            | none => simp [hl] at hn
            | some m =>
              simp [hl] at hn; subst hn
              refine ⟨(r.stream, n), lastOn_mem hl, rfl, Or.inr ⟨?_, rfl⟩⟩
              rcases hcond.1 with h | h
              · exact h
              · exact absurd h (by simpa using hctx)
        obtain ⟨x, hx, rfl, hwhich⟩ := hmem
        obtain ⟨a, ha, hka, hst, hn2, hfa⟩ := inv.last x hx
        show tsOf rows x.2 ≤ tsOf rows ⟨r.link, false⟩
        rw [hn2, tsOf_end hfa]
        apply hsync a ha hka hk
        rcases hwhich with h | ⟨h1, h2⟩
        · exact Or.inl h
        · exact Or.inr ⟨h1, by rw [hst]; exact h2⟩
      · exact ⟨nilOK, inv'⟩
  · -- device activities
    rename_i hcat
    have hk : isK r = true := by simp [isK, bne]; simpa using hcat
    have hs := tsOf_start hid
    have he := tsOf_end hid
    generalize hke : ksEndOf clipped st.ksync r.idx = ke
    constructor
    · intro d hd
      simp only [List.mem_append, List.mem_singleton] at hd
      rcases hd with ((hd | hd) | hd) | hd
      · subst hd
        show tsOf rows ⟨r.idx, true⟩ ≤ tsOf rows ⟨r.idx, false⟩
        rw [hs, he]; have := hdur hk; omega
      · cases ke with
        | none => simp at hd
        | some n =>
          simp only [List.mem_singleton] at hd
          subst hd
          obtain ⟨s, hs', rfl⟩ := ksEndOf_some hke
          exact inv.pend r.idx s (ksGet_mem hs')
      · rcases mem_ite_cases hd with ⟨hc, hd⟩ | ⟨_, hd⟩
        · simp only [List.mem_singleton] at hd; subst hd
          show tsOf rows ⟨r.link, true⟩ ≤ tsOf rows ⟨r.idx, true⟩
          rw [hs]
          simp only [Bool.and_eq_true] at hc
          exact hlaunch hk hc.2
        · cases hl : lastOn st.last r.stream with
          | none => rw [hl] at hd; cases hd
          | some n =>
            rw [hl] at hd
            rcases mem_if hd with hd | hd
            · simp only [List.mem_singleton] at hd; subst hd
              obtain ⟨a, ha, hka, hst, hn2, hfa⟩ := inv.last _ (lastOn_mem hl)
              show tsOf rows n ≤ tsOf rows ⟨r.idx, true⟩
              simp only at hn2 hst
              rw [hn2, tsOf_end hfa, hs]
              exact hfifo a ha hka hk hst
            · cases hd
      · rcases mem_ite_cases hd with ⟨hc, hd⟩ | ⟨_, hd⟩
        · simp only [List.mem_singleton] at hd; subst hd
          show tsOf rows ⟨r.link, true⟩ ≤ tsOf rows ⟨r.idx, true⟩
          rw [hs]
          simp only [Bool.and_eq_true] at hc
          exact hlaunch hk hc.2
        · cases hd
    · constructor
      · intro x hx
        rcases mem_setLast hx with rfl | hx
        · exact ⟨r, List.mem_cons_self, hk, rfl, rfl, hid⟩
        · exact inv'.last x hx
      · intro i s hmem
        simp only [] at hmem
        split at hmem
        · rcases mem_ksSet hmem with h | h
          · simp at h
          · exact inv.pend i s h
        · exact inv.pend i s hmem

theorem kernelRun_forward (rows clipped : List Row) (ws : Waits) (q : Int → Option Int) (zl : Bool)
    (ks : List Row) (hc : Causal rows clipped ws ks) (done : List Row) (st : KState) (inv : KInv rows done st)
    (xfifo : ∀ a ∈ done, ∀ b ∈ ks, isK a = true → isK b = true → a.stream = b.stream → a.ts + a.dur ≤ b.ts)
    (xsync : ∀ a ∈ done, ∀ b ∈ ks, isK a = true → isK b = false →
      (b.name = "Context Sync" ∨ (b.name = "Stream Sync" ∧ a.stream = b.stream)) →
      a.ts + a.dur ≤ tsOf rows ⟨b.link, false⟩) :
    ∀ d ∈ kernelRun rows clipped ws q zl st ks, tsOf rows d.src ≤ tsOf rows d.dst := by
  induction ks generalizing done st with
  | nil => intro d hd; cases hd
  | cons r rs ih =>
    have hf := List.pairwise_cons.mp hc.fifo
    have hsy := List.pairwise_cons.mp hc.sync
    have hr : r ∈ r :: rs := List.mem_cons_self
    obtain ⟨hfw, hinv⟩ := kernelStep_forward rows clipped ws q zl done st r inv (hc.ids r hr) (hc.dur r hr)
      (hc.launch r hr) (fun a ha => xfifo a ha r hr) (fun a ha => xsync a ha r hr) (hc.evsync r hr) (hc.wait r hr)
    intro d hd
    simp only [kernelRun, List.mem_append] at hd
    rcases hd with hd | hd
    · exact hfw d hd
    · have hc' : Causal rows clipped ws rs :=
        ⟨fun x hx => hc.ids x (List.mem_cons_of_mem _ hx), fun x hx => hc.dur x (List.mem_cons_of_mem _ hx),
         fun x hx => hc.launch x (List.mem_cons_of_mem _ hx), hf.2, hsy.2,
         fun x hx => hc.evsync x (List.mem_cons_of_mem _ hx), fun x hx => hc.wait x (List.mem_cons_of_mem _ hx)⟩
      refine ih hc' (r :: done) _ hinv ?_ ?_ d hd
      · intro a ha b hb
        rcases List.mem_cons.mp ha with rfl | ha
        · exact hf.1 b hb
        · exact xfifo a ha b (List.mem_cons_of_mem _ hb)
      · intro a ha b hb
        rcases List.mem_cons.mp ha with rfl | ha
        · exact hsy.1 b hb
        · exact xsync a ha b (List.mem_cons_of_mem _ hb)

/-- **Kernel-loop edges point forward in time.** For any processing order `ks` of device
activities and synchronisation records that is causally consistent (`Causal`), every edge the
kernel loop emits — kernel spans, launch delays (also the zero-weight ones), kernel-to-kernel
delays, and all four kinds of synchronisation edge — goes from an earlier-or-equal to a
later-or-equal time. -/
theorem C08_kernel_edges_forward (rows clipped : List Row) (ws : Waits) (q : Int → Option Int) (zl : Bool)
    (ks : List Row) (hc : Causal rows clipped ws ks) :
    ∀ d ∈ kernelRun rows clipped ws q zl ⟨[], []⟩ ks, tsOf rows d.src ≤ tsOf rows d.dst :=
  kernelRun_forward rows clipped ws q zl ks hc [] ⟨[], []⟩
    ⟨(by intro x hx; cases hx), (by intro i s h; cases h)⟩
    (by intro a ha; cases ha) (by intro a ha; cases ha)

/-! Non-vacuity: a launch, its kernel and a Stream Sync record that returns after the kernel form a
causally consistent processing order. -/
def exRows : List Row := [
  { idx := 1, ts := 0, dur := 2, pid := 1, tid := 1, stream := -1, corr := 5, link := 2, name := "cudaLaunchKernel", cat := "cuda_runtime" },
  { idx := 2, ts := 1, dur := 4, pid := 0, tid := 7, stream := 7, corr := 5, link := 1, name := "k", cat := "kernel" },
  { idx := 3, ts := 6, dur := 9, pid := 1, tid := 1, stream := -1, corr := 6, link := 4, name := "cudaStreamSynchronize", cat := "cuda_runtime" },
  { idx := 4, ts := 6, dur := 9, pid := 0, tid := 7, stream := 7, corr := 6, link := 3, name := "Stream Sync", cat := "cuda_sync" }]
def exK : Row := { idx := 2, ts := 1, dur := 4, pid := 0, tid := 7, stream := 7, corr := 5, link := 1, name := "k", cat := "kernel" }
def exS : Row := { idx := 4, ts := 6, dur := 9, pid := 0, tid := 7, stream := 7, corr := 6, link := 3, name := "Stream Sync", cat := "cuda_sync" }
example : Causal exRows exRows [] [exK, exS] := by
  refine ⟨?_, ?_, ?_, ?_, ?_, ?_, ?_⟩
  · intro r hr; simp only [List.mem_cons, List.not_mem_nil, or_false] at hr; rcases hr with rfl | rfl <;> rfl
  · intro r hr; simp only [List.mem_cons, List.not_mem_nil, or_false] at hr; rcases hr with rfl | rfl <;> decide
  · intro r hr; simp only [List.mem_cons, List.not_mem_nil, or_false] at hr; rcases hr with rfl | rfl <;> decide
  · simp only [List.pairwise_cons, List.mem_cons, List.not_mem_nil, or_false, forall_eq, List.Pairwise.nil, and_true]
    refine ⟨?_, ?_⟩ <;> (try intro a ha; cases ha) <;> decide
  · simp only [List.pairwise_cons, List.mem_cons, List.not_mem_nil, or_false, forall_eq, List.Pairwise.nil, and_true]
    refine ⟨?_, ?_⟩ <;> (try intro a ha; cases ha) <;> decide
  · intro r hr; simp only [List.mem_cons, List.not_mem_nil, or_false] at hr; rcases hr with rfl | rfl <;> decide
  · intro r hr; simp only [List.mem_cons, List.not_mem_nil, or_false] at hr; rcases hr with rfl | rfl <;> intro h <;> simp [exK, exS] at h

/-! ### every edge joins nodes of analysed events -/

/-- Both endpoints of a descriptor are nodes of analysed events. -/
def DescNodesOK (clipped : List Row) (d : Desc) : Prop :=
  hasNodeIn clipped d.src.ev = true ∧ hasNodeIn clipped d.dst.ev = true

structure DfsNodesInv (clipped : List Row) (s : DS) : Prop where
  last : ∀ n, s.lastNode = some n → hasNodeIn clipped n.ev = true
  high : ∀ n, s.lastHigh = some n → hasNodeIn clipped n.ev = true

theorem dfsStep_nodes (clipped : List Row) (parent : Int → Int) (blocking : Int → Bool) (s : DS) (t : C03.Tok)
    (inv : DfsNodesInv clipped s) :
    DfsNodesInv clipped (dfsStep (hasNodeIn clipped) parent blocking s t).1 ∧
    ∀ d ∈ (dfsStep (hasNodeIn clipped) parent blocking s t).2, DescNodesOK clipped d := by
  unfold dfsStep
  split
  · refine ⟨⟨?_, ?_⟩, by intro d hd; cases hd⟩
    · intro n h
      have h' : s.lastNode = some n := by split at h <;> exact h
      exact inv.last n h'
    · intro n h
      have h' : s.lastHigh = some n := by split at h <;> exact h
      exact inv.high n h'
  · rename_i hne
    have hnode : hasNodeIn clipped t.idx = true := by simpa using hne
    split
    · refine ⟨⟨?_, ?_⟩, ?_⟩
      · intro n h; simp at h; subst h; exact hnode
      · intro n h; exact inv.high n h
      · intro d hd
        simp only [List.mem_append] at hd
        rcases hd with hd | hd
        · cases hdp : s.depth <;> cases hh : s.lastHigh <;> simp [hdp, hh] at hd
          subst hd
          exact ⟨inv.high _ hh, hnode⟩
        · cases hln : s.lastNode <;> simp [hln] at hd
          subst hd
          exact ⟨inv.last _ hln, hnode⟩
    · have hspan : ∀ d ∈ (match s.lastNode with
          | some ln => [(⟨ln, ⟨t.idx, false⟩, .op, blocking t.idx, s.lastPar⟩ : Desc)]
          | none => []), DescNodesOK clipped d := by
        intro d hd
        cases hln : s.lastNode <;> simp [hln] at hd
        subst hd
        exact ⟨inv.last _ hln, hnode⟩
      simp only []
      split
      · refine ⟨⟨by intro n h; simp at h, ?_⟩, hspan⟩
        intro n h; simp at h; subst h; exact hnode
      · refine ⟨⟨?_, fun n h => inv.high n h⟩, hspan⟩
        intro n h; simp at h; subst h; exact hnode

theorem dfsRun_nodes (clipped : List Row) (parent : Int → Int) (blocking : Int → Bool) (toks : List C03.Tok)
    (s : DS) (inv : DfsNodesInv clipped s) :
    ∀ d ∈ dfsRun (hasNodeIn clipped) parent blocking s toks, DescNodesOK clipped d := by
  induction toks generalizing s with
  | nil => intro d hd; cases hd
  | cons t ts ih =>
    obtain ⟨hinv, hok⟩ := dfsStep_nodes clipped parent blocking s t inv
    intro d hd
    simp only [dfsRun, List.mem_append] at hd
    rcases hd with hd | hd
    · exact hok d hd
    · exact ih _ hinv d hd



theorem ksEndOf_hasNode {clipped : List Row} {ks : KSync} {i : Int} {n : NodeId}
    (h : ksEndOf clipped ks i = some n) : hasNodeIn clipped n.ev = true := by
  unfold ksEndOf at h
  split at h
  · split at h
    · rename_i hn; simp at h; subst h; exact hn
    · cases h
  · cases h

theorem eventStep_nodes (rows clipped : List Row) (ws : Waits) (st : KState) (r : Row) :
    (eventStep rows clipped ws st r).1.last = st.last ∧
    ∀ d ∈ (eventStep rows clipped ws st r).2, DescNodesOK clipped d := by
  unfold eventStep
  split
  · exact ⟨rfl, by intro d hd; cases hd⟩
  · split
    · split
      · split
        · exact ⟨rfl, by intro d hd; cases hd⟩
        · split
          · exact ⟨rfl, by intro d hd; cases hd⟩
          · exact ⟨rfl, by intro d hd; cases hd⟩
      · exact ⟨rfl, by intro d hd; cases hd⟩
    · split
      · rename_i hc
        refine ⟨rfl, ?_⟩
        intro d hd
        simp only [List.mem_singleton] at hd
        subst hd
        simp only [Bool.and_eq_true] at hc
        exact ⟨hc.1, hc.2⟩
      · exact ⟨rfl, by intro d hd; cases hd⟩

/-- One step of the kernel loop only joins nodes of analysed events, provided the row itself is
analysed when it is a device activity. -/
theorem kernelStep_nodes (rows clipped : List Row) (ws : Waits) (q : Int → Option Int) (zl : Bool)
    (st : KState) (r : Row)
    (inv : ∀ x ∈ st.last, hasNodeIn clipped x.2.ev = true)
    (hrow : (r.cat == "cuda_sync") = false → hasNodeIn clipped r.idx = true) :
    (∀ x ∈ (kernelStep rows clipped ws q zl st r).1.last, hasNodeIn clipped x.2.ev = true) ∧
    ∀ d ∈ (kernelStep rows clipped ws q zl st r).2, DescNodesOK clipped d := by
  unfold kernelStep
  simp only []
  split
  · split
    · obtain ⟨h1, h2⟩ := eventStep_nodes rows clipped ws st r
      exact ⟨by rw [h1]; exact inv, h2⟩
    · split
      · rename_i hcond
        refine ⟨inv, ?_⟩
        intro d hd
        obtain ⟨n, hn, rfl⟩ := List.mem_map.mp hd
        simp only [Bool.and_eq_true] at hcond
        refine ⟨?_, hcond.2⟩
        split at hn
        · obtain ⟨x, hx, rfl⟩ := List.mem_map.mp hn
          exact inv x hx
        · cases hl : lastOn st.last r.stream with
          | none => simp [hl] at hn
          | some m =>
            simp [hl] at hn; subst hn
            exact inv _ (lastOn_mem hl)
      · exact ⟨inv, by intro d hd; cases hd⟩
  · rename_i hcat
    have hr : hasNodeIn clipped r.idx = true := hrow (by simpa using hcat)
    generalize hke : ksEndOf clipped st.ksync r.idx = ke
    constructor
    · intro x hx
      rcases mem_setLast hx with rfl | hx
      · exact hr
      · exact inv x hx
    · intro d hd
      simp only [List.mem_append, List.mem_singleton] at hd
      rcases hd with ((hd | hd) | hd) | hd
      · subst hd; exact ⟨hr, hr⟩
      · cases ke with
        | none => simp at hd
        | some n =>
          simp only [List.mem_singleton] at hd
          subst hd
          exact ⟨ksEndOf_hasNode hke, hr⟩
      · rcases mem_ite_cases hd with ⟨hc, hd⟩ | ⟨_, hd⟩
        · simp only [List.mem_singleton] at hd; subst hd
          simp only [Bool.and_eq_true] at hc
          exact ⟨hc.2, hr⟩
        · cases hl : lastOn st.last r.stream with
          | none => rw [hl] at hd; cases hd
          | some n =>
            rw [hl] at hd
            rcases mem_if hd with hd | hd
            · simp only [List.mem_singleton] at hd; subst hd
              exact ⟨inv _ (lastOn_mem hl), hr⟩
            · cases hd
      · rcases mem_ite_cases hd with ⟨hc, hd⟩ | ⟨_, hd⟩
        · simp only [List.mem_singleton] at hd; subst hd
          simp only [Bool.and_eq_true] at hc
          exact ⟨hc.2, hr⟩
        · cases hd

theorem kernelRun_nodes (rows clipped : List Row) (ws : Waits) (q : Int → Option Int) (zl : Bool)
    (ks : List Row) (st : KState)
    (inv : ∀ x ∈ st.last, hasNodeIn clipped x.2.ev = true)
    (hrows : ∀ r ∈ ks, (r.cat == "cuda_sync") = false → hasNodeIn clipped r.idx = true) :
    ∀ d ∈ kernelRun rows clipped ws q zl st ks, DescNodesOK clipped d := by
  induction ks generalizing st with
  | nil => intro d hd; cases hd
  | cons r rs ih =>
    obtain ⟨h1, h2⟩ := kernelStep_nodes rows clipped ws q zl st r inv (hrows r List.mem_cons_self)
    intro d hd
    simp only [kernelRun, List.mem_append] at hd
    rcases hd with hd | hd
    · exact h2 d hd
    · exact ih _ h1 (fun x hx => hrows x (List.mem_cons_of_mem _ hx)) d hd



theorem threadDescs_nodes (clipped : List Row) (t : Int × Int) :
    ∀ d ∈ threadDescs clipped t, DescNodesOK clipped d := by
  unfold threadDescs
  simp only []
  split
  · intro d hd; cases hd
  · exact dfsRun_nodes clipped _ _ _ _ ⟨(by intro n h; cases h), (by intro n h; cases h)⟩

theorem kernelRows_hasNode (rows clipped : List Row)
    (hids : ∀ r ∈ clipped, findRow clipped r.idx = some r)
    (hnames : ∀ r ∈ clipped, (r.name == "Event Sync" || r.name == "Context Sync") = true → (r.cat == "cuda_sync") = true) :
    ∀ r ∈ kernelRows rows clipped, (r.cat == "cuda_sync") = false → hasNodeIn clipped r.idx = true := by
  intro r hr hcat
  unfold kernelRows at hr
  simp only [] at hr
  have hr' := (List.mem_mergeSort).mp hr
  obtain ⟨hmem, hcond⟩ := List.mem_filter.mp hr'
  simp only [Bool.and_eq_true, Bool.or_eq_true, decide_eq_true_eq] at hcond
  have hstream : (r.stream != -1) = true := by
    rcases hcond.1 with (h | h) | h
    · exact h
    · have := hnames r hmem (by simp [h]); rw [hcat] at this; cases this
    · have := hnames r hmem (by simp [h]); rw [hcat] at this; cases this
  unfold hasNodeIn
  rw [hids r hmem]
  simp only [Option.map_some, Option.getD_some, hasNode, Bool.or_eq_true, Bool.and_eq_true, decide_eq_true_eq]
  right
  exact ⟨hstream, hcond.2⟩

/-- **Every edge joins nodes of analysed events**: both endpoints of every edge of the graph are the
start or end node of an event of the analysed window that has nodes (`C08_nodes_two_per_event`),
for every frame with unique event ids in which the records named `Event Sync` / `Context Sync`
carry the synchronisation category. -/
theorem C08_edges_join_analysed_events (rows : List Row) (ws : Waits) (w : Int × Int) (zl : Bool)
    (hids : ∀ r ∈ clip rows w, findRow (clip rows w) r.idx = some r)
    (hnames : ∀ r ∈ clip rows w, (r.name == "Event Sync" || r.name == "Context Sync") = true → (r.cat == "cuda_sync") = true) :
    ∀ e ∈ (build rows ws w zl).2.edges,
      hasNodeIn (clip rows w) e.src.ev = true ∧ hasNodeIn (clip rows w) e.dst.ev = true := by
  apply allEdges_applyAll (P := fun e => hasNodeIn (clip rows w) e.src.ev = true ∧ hasNodeIn (clip rows w) e.dst.ev = true)
  · intro d hd
    have : DescNodesOK (clip rows w) d := by
      unfold descs at hd
      rcases List.mem_append.mp hd with hd | hd
      · obtain ⟨t, _, hdt⟩ := List.mem_flatMap.mp hd
        exact threadDescs_nodes _ t d hdt
      · exact kernelRun_nodes rows _ ws _ zl _ _ (by intro x hx; cases hx)
          (kernelRows_hasNode rows _ hids hnames) d hd
    exact this
  · intro e he; cases he


/-! ### what the CUDA-event tables stand for -/

/-- **What an event stands for**: for a `cudaEventRecord` call whose stream is known, the model's
`index_previous_launch` is the launch call that is *last* in start order among the linked launches
that put work on that stream of that device no later than the record call; and it is -1 exactly
when there is no such launch. -/
theorem C08_prevLaunch_spec (rows : List Row) (ws : Waits) (rec : Row) (s gpu : Int)
    (hs : recordStream rows ws rec.corr = some (s, gpu)) :
    let P := fun (l : Launch) => l.stream == s && l.gpu == gpu && decide (l.call.ts ≤ rec.ts)
    (∀ l ∈ launches rows, P l = false) ∧ prevLaunch rows ws rec = -1 ∨
    ∃ (k : Nat) (l : Launch), (launches rows)[k]? = some l ∧ P l = true ∧ prevLaunch rows ws rec = l.call.idx ∧
      ∀ j : Nat, k < j → ∀ l', (launches rows)[j]? = some l' → P l' = false := by
  intro P
  unfold prevLaunch
  simp only [hs]
  cases hk : lastIdx (fun (l : Launch) => l.stream == s && l.gpu == gpu && decide (l.call.ts ≤ rec.ts)) (launches rows) 0 none with
  | none =>
    left
    exact ⟨lastIdx_none _ _ 0 hk, rfl⟩
  | some k =>
    right
    rcases lastIdx_spec _ _ 0 none k hk with ⟨h, _⟩ | ⟨_, x, hx, hpx, hlast⟩
    · cases h
    · refine ⟨k, x, by simpa using hx, hpx, ?_, ?_⟩
      · simp only [Nat.sub_zero] at hx
        simp [hx]
      · intro j hj l' hl'
        exact hlast j (by omega) l' hl'

/-- **Which kernel waits**: for a linked `cudaStreamWaitEvent` call the model's `index_next_launch` is
the *first* launch call in start order, of the same host thread, that puts work on the waiting
stream after the wait call started; -1 when there is none. -/
theorem C08_nextLaunch_spec (rows : List Row) (callIdx : Int) (c k : Row)
    (hc : rows.find? (fun c => c.idx == callIdx && c.name == "cudaStreamWaitEvent" && decide (c.link > 0)) = some c)
    (hk : rows.find? (fun k => k.idx == c.link && k.stream != -1 && decide (k.link > 0)) = some k) :
    let Q := fun (l : Launch) => l.call.pid == c.pid && l.call.tid == c.tid && l.stream == k.stream && decide (l.call.ts > c.ts)
    (nextLaunch rows callIdx = some (-1) ∧ ∀ l ∈ launches rows, Q l = false) ∨
    ∃ l pre post, launches rows = pre ++ l :: post ∧ Q l = true ∧ nextLaunch rows callIdx = some l.call.idx ∧
      ∀ l' ∈ pre, Q l' = false := by
  intro Q
  unfold nextLaunch
  simp only [hc, hk]
  cases hf : (launches rows).find? Q with
  | none =>
    left
    have := List.find?_eq_none.mp hf
    refine ⟨by simp, ?_⟩
    intro l hl
    simpa using this l hl
  | some l =>
    right
    obtain ⟨hq, pre, post, hsplit, hpre⟩ := List.find?_eq_some_iff_append.mp hf
    refine ⟨l, pre, post, hsplit, hq, by simp, ?_⟩
    intro l' hl'
    simpa using hpre l' hl'


/-- The sorted endpoint tokens of C03 are non-decreasing in time. -/
theorem sortToks_time_sorted (po : Int → Bool) {es : List C03.Ev} (wf : C03.WF es) :
    (C03.sortToks po (C03.tokens es)).Pairwise fun a b => a.time ≤ b.time := by
  have := (C03.sortToks_spec po wf).2
  apply this.imp
  intro a b h
  unfold C03.tokLt C03.keyLt at h
  have ka : (C03.key po a).1 = a.time := by unfold C03.key; split <;> (try split) <;> rfl
  have kb : (C03.key po b).1 = b.time := by unfold C03.key; split <;> (try split) <;> rfl
  rw [ka, kb] at h
  omega

example : checkTopo [⟨⟨1, true⟩, ⟨1, false⟩, 5, .op⟩, ⟨⟨1, false⟩, ⟨2, true⟩, 0, .dep⟩]
    (fun n => if n.ev == 1 then (if n.isStart then 0 else 1) else 2) = true := by decide

/-! ### edge types at the level of the whole kernel loop: what the `last` table stands for -/

/-- `a` is the device activity processed most recently on stream `s`, in the list `done` of the rows
processed so far (most recent first). -/
def LastOnStream (done : List Row) (s : Int) (a : Row) : Prop :=
  ∃ l1 l2, done = l1 ++ a :: l2 ∧ isK a = true ∧ a.stream = s ∧ ∀ x ∈ l1, isK x = true → x.stream ≠ s

/-- The kernel loop's table `last` holds, per stream, the end node of the activity processed most
recently on that stream — and one entry per stream. -/
structure LastInv (done : List Row) (st : KState) : Prop where
  nodup : (st.last.map (·.1)).Nodup
  exact : ∀ s n, lastOn st.last s = some n → ∃ a, LastOnStream done s a ∧ n = ⟨a.idx, false⟩

theorem kernelStep_last (rows clipped : List Row) (ws : Waits) (q : Int → Option Int) (zl : Bool)
    (st : KState) (r : Row) :
    (kernelStep rows clipped ws q zl st r).1.last =
      if isK r then setLast st.last r.stream ⟨r.idx, false⟩ else st.last := by
  unfold kernelStep isK
  simp only []
  split
  · rename_i h
    have : (r.cat != "cuda_sync") = false := by simp [bne, h]
    rw [this]
    simp only [Bool.false_eq_true, if_false]
    split
    · exact (eventStep_nodes rows clipped ws st r).1
    · split <;> rfl
  · rename_i h
    have : (r.cat != "cuda_sync") = true := by
      have : (r.cat == "cuda_sync") = false := by simpa using h
      simp [bne, this]
    rw [this]
    simp

theorem kernelStep_lastInv (rows clipped : List Row) (ws : Waits) (q : Int → Option Int) (zl : Bool)
    (done : List Row) (st : KState) (r : Row) (inv : LastInv done st) :
    LastInv (r :: done) (kernelStep rows clipped ws q zl st r).1 := by
  have hl := kernelStep_last rows clipped ws q zl st r
  cases hk : isK r with
  | false =>
    rw [hk] at hl
    simp only [Bool.false_eq_true, if_false] at hl
    refine ⟨by rw [hl]; exact inv.nodup, ?_⟩
    intro s n h
    rw [hl] at h
    obtain ⟨a, ⟨l1, l2, hd, ha, has, hno⟩, rfl⟩ := inv.exact s n h
    refine ⟨a, ⟨r :: l1, l2, by rw [hd]; rfl, ha, has, ?_⟩, rfl⟩
    intro x hx hxk
    rcases List.mem_cons.mp hx with rfl | hx
    · rw [hk] at hxk; cases hxk
    · exact hno x hx hxk
  | true =>
    rw [hk] at hl
    simp only [if_true] at hl
    refine ⟨by rw [hl]; exact setLast_nodup _ _ _ inv.nodup, ?_⟩
    intro s n h
    rw [hl, lastOn_setLast _ _ _ _ inv.nodup] at h
    by_cases hs : s = r.stream
    · rw [if_pos hs] at h
      simp only [Option.some.injEq] at h
      subst h
      exact ⟨r, ⟨[], done, rfl, hk, hs.symm, by intro x hx; cases hx⟩, rfl⟩
    · rw [if_neg hs] at h
      obtain ⟨a, ⟨l1, l2, hd, ha, has, hno⟩, rfl⟩ := inv.exact s n h
      refine ⟨a, ⟨r :: l1, l2, by rw [hd]; rfl, ha, has, ?_⟩, rfl⟩
      intro x hx hxk
      rcases List.mem_cons.mp hx with rfl | hx
      · exact fun e => hs e.symm
      · exact hno x hx hxk

/-- Every descriptor of the kernel loop is emitted at some row `r` of the processing order, in a
state whose `last` table describes exactly the rows processed before `r`, and it has one of the six
typed shapes of `KernelDescOK` there. -/
theorem kernelRun_types (rows clipped : List Row) (ws : Waits) (q : Int → Option Int) (zl : Bool)
    (ks : List Row) (done : List Row) (st : KState) (inv : LastInv done st) :
    ∀ d ∈ kernelRun rows clipped ws q zl st ks,
      ∃ pre r post st', ks = pre ++ r :: post ∧ LastInv (pre.reverse ++ done) st' ∧ KernelDescOK rows ws st' r d := by
  induction ks generalizing done st with
  | nil => intro d hd; cases hd
  | cons r rs ih =>
    intro d hd
    simp only [kernelRun, List.mem_append] at hd
    rcases hd with hd | hd
    · exact ⟨[], r, rs, st, rfl, by simpa using inv, C08_kernel_edge_types rows clipped ws q zl st r inv.nodup d hd⟩
    · obtain ⟨pre, r', post, st', hks, hinv, hok⟩ := ih (r :: done) _ (kernelStep_lastInv rows clipped ws q zl done st r inv) d hd
      refine ⟨r :: pre, r', post, st', by rw [hks]; rfl, ?_, hok⟩
      simpa [List.reverse_cons, List.append_assoc] using hinv

/-- **A kernel-to-kernel edge joins consecutive kernels of one stream**: in any processing order `ks`,
a `kk` edge runs from the end of a device activity `a` to the start of a later activity `b` of the same
stream, and no activity of that stream is processed between the two. -/
theorem C08_kk_edges_join_consecutive_kernels (rows clipped : List Row) (ws : Waits) (q : Int → Option Int)
    (zl : Bool) (ks : List Row) :
    ∀ d ∈ kernelRun rows clipped ws q zl ⟨[], []⟩ ks, d.ty = .kk →
      ∃ pre a mid b post, ks = pre ++ a :: (mid ++ b :: post) ∧ isK a = true ∧ a.stream = b.stream ∧
        d.src = ⟨a.idx, false⟩ ∧ d.dst = ⟨b.idx, true⟩ ∧ ∀ x ∈ mid, isK x = true → x.stream ≠ b.stream := by
  intro d hd hty
  obtain ⟨pre, b, post, st', hks, hinv, hok⟩ :=
    kernelRun_types rows clipped ws q zl ks [] ⟨[], []⟩ ⟨by simp, by intro s n h; simp [lastOn] at h⟩ d hd
  rcases hok with h | h | h | h | h | h
  · rw [h.1] at hty; cases hty
  · rw [h.1] at hty; cases hty
  · obtain ⟨_, hlast, hdst⟩ := h
    obtain ⟨a, ⟨l1, l2, hd', ha, has, hno⟩, hsrc⟩ := hinv.exact _ _ hlast
    simp only [List.append_nil] at hd'
    -- pre.reverse = l1 ++ a :: l2, so pre = l2.reverse ++ a :: l1.reverse
    have hpre : pre = l2.reverse ++ a :: l1.reverse := by
      have := congrArg List.reverse hd'
      simpa [List.reverse_append, List.reverse_cons, List.append_assoc] using this
    refine ⟨l2.reverse, a, l1.reverse, b, post, ?_, ha, has, hsrc, hdst, ?_⟩
    · rw [hks, hpre]; simp [List.append_assoc]
    · intro x hx; exact hno x (List.mem_reverse.mp hx)
  · rw [h.1] at hty; cases hty
  · rw [h.1] at hty; cases hty
  · rw [h.1] at hty; cases hty

/-- **A Stream / Context synchronisation edge starts at the end of the activity processed last on some
stream before the synchronisation record**, and ends at the end of the host call the record is linked to. -/
theorem C08_sync_edges_from_last_activity (rows clipped : List Row) (ws : Waits) (q : Int → Option Int)
    (zl : Bool) (ks : List Row) :
    ∀ d ∈ kernelRun rows clipped ws q zl ⟨[], []⟩ ks, d.ty = .sync →
      ∃ pre r post, ks = pre ++ r :: post ∧
        ((d.dst = ⟨r.link, false⟩ ∧ ∃ a s, LastOnStream pre.reverse s a ∧ d.src = ⟨a.idx, false⟩) ∨
         (d.dst = ⟨r.link, false⟩ ∧ r.name = "Event Sync" ∧ d.src = ⟨linkOf rows (syncPrev rows ws r), false⟩) ∨
         (d.dst = ⟨r.idx, true⟩ ∧ ∃ k, d.src = ⟨k, false⟩)) := by
  intro d hd hty
  obtain ⟨pre, r, post, st', hks, hinv, hok⟩ :=
    kernelRun_types rows clipped ws q zl ks [] ⟨[], []⟩ ⟨by simp, by intro s n h; simp [lastOn] at h⟩ d hd
  refine ⟨pre, r, post, hks, ?_⟩
  rcases hok with h | h | h | h | h | h
  · rw [h.1] at hty; cases hty
  · rw [h.1] at hty; cases hty
  · rw [h.1] at hty; cases hty
  · obtain ⟨_, hdst, s, hs⟩ := h
    obtain ⟨a, hla, hsrc⟩ := hinv.exact _ _ hs
    simp only [List.append_nil] at hla
    exact Or.inl ⟨hdst, a, s, hla, hsrc⟩
  · exact Or.inr (Or.inl ⟨h.2.1, h.2.2.1, h.2.2.2⟩)
  · obtain ⟨_, hdst, s, _, hsrc⟩ := h
    exact Or.inr (Or.inr ⟨hdst, s, hsrc⟩)


/-- **A launch-delay edge runs from a launch call to the kernel it launched**: from the start of the
runtime call linked to a device activity `r` of the processing order to the start of `r`. -/
theorem C08_launch_edges_join_call_and_kernel (rows clipped : List Row) (ws : Waits) (q : Int → Option Int)
    (zl : Bool) (ks : List Row) :
    ∀ d ∈ kernelRun rows clipped ws q zl ⟨[], []⟩ ks, d.ty = .launch →
      ∃ r ∈ ks, d.src = ⟨r.link, true⟩ ∧ d.dst = ⟨r.idx, true⟩ := by
  intro d hd hty
  obtain ⟨pre, r, post, st', hks, _, hok⟩ :=
    kernelRun_types rows clipped ws q zl ks [] ⟨[], []⟩ ⟨by simp, by intro s n h; simp [lastOn] at h⟩ d hd
  have hr : r ∈ ks := by rw [hks]; simp
  rcases hok with h | h | h | h | h | h
  · rw [h.1] at hty; cases hty
  · exact ⟨r, hr, h.2.1, h.2.2⟩
  · rw [h.1] at hty; cases hty
  · rw [h.1] at hty; cases hty
  · rw [h.1] at hty; cases hty
  · rw [h.1] at hty; cases hty

/-! ### the whole graph: call-stack edges of every thread and the kernel loop together -/

theorem threadDescs_forward (rows clipped : List Row) (t : Int × Int)
    (hrows : ∀ r ∈ clipped, findRow rows r.idx = some r)
    (hdur : ∀ r ∈ clipped, 0 ≤ r.dur)
    (hwf : C03.WF ((C13.threadRows clipped t).map fun r => (⟨r.idx, r.ts, max r.dur 0⟩ : C03.Ev))) :
    ∀ d ∈ threadDescs clipped t, tsOf rows d.src ≤ tsOf rows d.dst := by
  unfold threadDescs
  simp only []
  split
  · intro d hd; cases hd
  · generalize hevs : ((C13.threadRows clipped t).map fun r => (⟨r.idx, r.ts, max r.dur 0⟩ : C03.Ev)) = evs at hwf ⊢
    have hsorted := sortToks_time_sorted (C03.hasPO evs) hwf
    have hperm := (C03.sortToks_spec (C03.hasPO evs) hwf).1
    -- every token carries the time of the node it stands for
    have hts : ∀ tk ∈ C03.sortToks (C03.hasPO evs) (C03.tokens evs),
        (fun (i : Int) => ((findRow clipped i).map hasNode).getD false) tk.idx = true →
        tsOf rows ⟨tk.idx, tk.kind == -1⟩ = tk.time := by
      intro tk htk _
      have hmem : tk ∈ C03.tokens evs := hperm.subset htk
      unfold C03.tokens at hmem
      rw [← hevs] at hmem
      simp only [List.map_map, List.mem_append, List.mem_map, Function.comp] at hmem
      rcases hmem with ⟨r, hr, rfl⟩ | ⟨r, hr, rfl⟩
      · have hrc : r ∈ clipped := (List.mem_filter.mp hr).1
        simp [C03.openTok, tsOf, hrows r hrc, nodeTs]
      · have hrc : r ∈ clipped := (List.mem_filter.mp hr).1
        have := hdur r hrc
        simp [C03.closeTok, tsOf, hrows r hrc, nodeTs]
        omega
    cases htoks : C03.sortToks (C03.hasPO evs) (C03.tokens evs) with
    | nil => intro d hd; simp [dfsRun] at hd
    | cons t0 rest =>
      rw [htoks] at hsorted hts
      have hp := List.pairwise_cons.mp hsorted
      refine C08_callstack_edges_forward rows _ _ _ (t0 :: rest) hsorted hts _ t0.time ?_ ⟨(by intro n h; cases h), (by intro n h; cases h)⟩
      intro x hx
      rcases List.mem_cons.mp hx with rfl | hx
      · exact Int.le_refl _
      · exact hp.1 x hx

/-- **The whole graph points forward in time and carries no negative weight** — for a frame with
unique event ids, properly nested host threads and a causally consistent device side (`Causal`,
stated on the order in which the kernel loop processes its rows). -/
theorem C08_graph_forward (rows : List Row) (ws : Waits) (w : Int × Int) (zl : Bool)
    (hrows : ∀ r ∈ clip rows w, findRow rows r.idx = some r)
    (hdur : ∀ r ∈ clip rows w, 0 ≤ r.dur)
    (hwf : ∀ t ∈ C13.threadsOf (clip rows w), C03.WF ((C13.threadRows (clip rows w) t).map fun r => (⟨r.idx, r.ts, max r.dur 0⟩ : C03.Ev)))
    (hcausal : Causal rows (clip rows w) ws (kernelRows rows (clip rows w))) :
    (∀ e ∈ (build rows ws w zl).2.edges, Forward rows e) ∧ (∀ e ∈ (build rows ws w zl).2.edges, 0 ≤ e.weight) := by
  have hf : ∀ e ∈ (build rows ws w zl).2.edges, Forward rows e := by
    apply C08_forward_of_descs
    intro d hd
    unfold descs at hd
    rcases List.mem_append.mp hd with hd | hd
    · obtain ⟨t, ht, hdt⟩ := List.mem_flatMap.mp hd
      exact threadDescs_forward rows _ t hrows hdur (hwf t ht) d hdt
    · exact C08_kernel_edges_forward rows _ ws _ zl _ hcausal d hd
  exact ⟨hf, C08_weights_nonneg rows ws w zl hf⟩

/-! ### causal consistency stated on the trace: the kernel loop's sort order is consistent -/

/-- The three-part key the kernel loop sorts by: a synchronisation record counts with its end, everything else with
its start; then the end; then the start of the linked runtime call. -/
def kkey (rows : List Row) (r : Row) : Int × Int × Int :=
  (if r.cat == "cuda_sync" then r.ts + r.dur else r.ts, r.ts + r.dur, ((findRow rows r.link).map (·.ts)).getD 0)

def kle (rows : List Row) (a b : Row) : Bool :=
  let ka := kkey rows a
  let kb := kkey rows b
  decide (ka.1 < kb.1) || (ka.1 == kb.1 && (decide (ka.2.1 < kb.2.1) || (ka.2.1 == kb.2.1 && decide (ka.2.2 ≤ kb.2.2))))

theorem kernelRows_eq (rows clipped : List Row) :
    kernelRows rows clipped = (clipped.filter fun r =>
      (r.stream != -1 || r.name == "Event Sync" || r.name == "Context Sync") && decide (r.link ≥ 0)).mergeSort (kle rows) := rfl

theorem kle_trans (rows : List Row) (a b c : Row) (h1 : kle rows a b = true) (h2 : kle rows b c = true) :
    kle rows a c = true := by
  unfold kle at *
  generalize kkey rows a = ka at *
  generalize kkey rows b = kb at *
  generalize kkey rows c = kc at *
  obtain ⟨a1, a2, a3⟩ := ka
  obtain ⟨b1, b2, b3⟩ := kb
  obtain ⟨c1, c2, c3⟩ := kc
  simp only [Bool.or_eq_true, Bool.and_eq_true, decide_eq_true_eq, beq_iff_eq] at *
  omega

theorem kle_total (rows : List Row) (a b : Row) : (kle rows a b || kle rows b a) = true := by
  unfold kle
  generalize kkey rows a = ka
  generalize kkey rows b = kb
  obtain ⟨a1, a2, a3⟩ := ka
  obtain ⟨b1, b2, b3⟩ := kb
  simp only [Bool.or_eq_true, Bool.and_eq_true, decide_eq_true_eq, beq_iff_eq]
  omega

/-- The kernel loop's rows are sorted by the key. -/
theorem kernelRows_sorted (rows clipped : List Row) :
    (kernelRows rows clipped).Pairwise fun a b => kle rows a b = true := by
  rw [kernelRows_eq]
  exact List.pairwise_mergeSort (le := kle rows) (kle_trans rows) (kle_total rows) _


/-- Causal consistency stated on the trace alone (no reference to a processing order). `ks` is the set of rows the
kernel loop looks at.
* a device activity starts no earlier than its launch call and has a non-negative length (`launch`, `dur`);
* two activities of one stream do not overlap (`noOverlap`);
* a synchronisation record ends no later than the host call it belongs to (`recEnd`), and that call returns no
  earlier than every activity of an awaited stream that started before the record ended (`sync`);
* the two CUDA-event clauses of `Causal` (they do not mention the order). -/
structure TraceCausal (rows clipped : List Row) (ws : Waits) (ks : List Row) : Prop where
  ids : ∀ r ∈ ks, findRow rows r.idx = some r
  dur : ∀ r ∈ ks, isK r = true → 0 ≤ r.dur
  launch : ∀ r ∈ ks, isK r = true → hasNodeIn clipped r.link = true → tsOf rows ⟨r.link, true⟩ ≤ r.ts
  noOverlap : ∀ a ∈ ks, ∀ b ∈ ks, isK a = true → isK b = true → a.stream = b.stream → a.idx ≠ b.idx →
    a.ts + a.dur ≤ b.ts ∨ b.ts + b.dur ≤ a.ts
  recEnd : ∀ b ∈ ks, isK b = false → (b.name = "Context Sync" ∨ b.name = "Stream Sync") →
    b.ts + b.dur ≤ tsOf rows ⟨b.link, false⟩
  sync : ∀ a ∈ ks, ∀ b ∈ ks, isK a = true → isK b = false →
    (b.name = "Context Sync" ∨ (b.name = "Stream Sync" ∧ a.stream = b.stream)) →
    a.ts < b.ts + b.dur → a.ts + a.dur ≤ tsOf rows ⟨b.link, false⟩
  evsync : ∀ r ∈ ks, r.name = "Event Sync" →
    tsOf rows ⟨linkOf rows (syncPrev rows ws r), false⟩ ≤ tsOf rows ⟨r.link, false⟩
  wait : ∀ w ∈ ks, w.name = "Stream Wait Event" → ∀ nl, nextLaunch rows w.link = some nl →
    tsOf rows ⟨linkOf rows (syncPrev rows ws w), false⟩ ≤ tsOf rows ⟨linkOf rows nl, true⟩

theorem kkey_k {rows : List Row} {r : Row} (h : isK r = true) : (kkey rows r).1 = r.ts := by
  unfold kkey isK at *
  have : (r.cat == "cuda_sync") = false := by simpa [bne] using h
  simp [this]

theorem kkey_s {rows : List Row} {r : Row} (h : isK r = false) : (kkey rows r).1 = r.ts + r.dur := by
  unfold kkey isK at *
  have : (r.cat == "cuda_sync") = true := by simpa [bne] using h
  simp [this]

theorem kkey_2 (rows : List Row) (r : Row) : (kkey rows r).2.1 = r.ts + r.dur := rfl

theorem kle_keys {rows : List Row} {a b : Row} (h : kle rows a b = true) :
    (kkey rows a).1 < (kkey rows b).1 ∨ ((kkey rows a).1 = (kkey rows b).1 ∧ (kkey rows a).2.1 ≤ (kkey rows b).2.1) := by
  unfold kle at h
  generalize kkey rows a = ka at *
  generalize kkey rows b = kb at *
  obtain ⟨a1, a2, a3⟩ := ka
  obtain ⟨b1, b2, b3⟩ := kb
  simp only [Bool.or_eq_true, Bool.and_eq_true, decide_eq_true_eq, beq_iff_eq] at *
  omega

/-- **The order in which the kernel loop processes its rows is causally consistent whenever the trace is**: any list
sorted by the loop's key (in particular `kernelRows`, see `kernelRows_sorted`) whose rows have distinct ids turns
`TraceCausal` into `Causal`. -/
theorem causal_of_traceCausal (rows clipped : List Row) (ws : Waits) (ks : List Row)
    (hsorted : ks.Pairwise fun a b => kle rows a b = true)
    (hdistinct : ks.Pairwise fun a b => a.idx ≠ b.idx)
    (tc : TraceCausal rows clipped ws ks) : Causal rows clipped ws ks := by
  have hboth := (hsorted.and hdistinct)
  have hmem := List.Pairwise.and_mem.mp hboth
  refine ⟨tc.ids, tc.dur, tc.launch, ?_, ?_, tc.evsync, tc.wait⟩
  · -- stream order
    apply hmem.imp
    rintro a b ⟨ha, hb, hle, hne⟩ hka hkb hst
    have hk := kle_keys hle
    rw [kkey_k hka, kkey_k hkb, kkey_2, kkey_2] at hk
    have hda := tc.dur a ha hka
    have hdb := tc.dur b hb hkb
    rcases tc.noOverlap a ha b hb hka hkb hst hne with h | h
    · exact h
    · omega
  · -- blocking synchronisation
    apply hmem.imp
    rintro a b ⟨ha, hb, hle, _⟩ hka hkb hname
    have hk := kle_keys hle
    rw [kkey_k hka, kkey_s hkb, kkey_2, kkey_2] at hk
    have hrec := tc.recEnd b hb hkb (by rcases hname with h | h; exact Or.inl h; exact Or.inr h.1)
    rcases hk with hlt | ⟨_, hle2⟩
    · exact tc.sync a ha b hb hka hkb hname hlt
    · omega


theorem kernelRows_distinct (rows clipped : List Row) (h : clipped.Pairwise fun a b => a.idx ≠ b.idx) :
    (kernelRows rows clipped).Pairwise fun a b => a.idx ≠ b.idx := by
  rw [kernelRows_eq]
  have hf := h.filter (fun r => (r.stream != -1 || r.name == "Event Sync" || r.name == "Context Sync") && decide (r.link ≥ 0))
  exact (List.mergeSort_perm _ _).symm.pairwise hf (fun hab => fun e => hab e.symm)

/-- **The whole graph points forward in time and carries no negative weight — from trace-level hypotheses only**:
unique event ids, non-negative durations, properly nested host threads (C03's `WF`) and a causally consistent trace
(`TraceCausal`, which does not mention the order in which the rows are processed; that order is shown to be
consistent by `kernelRows_sorted` and `causal_of_traceCausal`). -/
theorem C08_graph_forward_of_trace (rows : List Row) (ws : Waits) (w : Int × Int) (zl : Bool)
    (hrows : ∀ r ∈ clip rows w, findRow rows r.idx = some r)
    (hunique : (clip rows w).Pairwise fun a b => a.idx ≠ b.idx)
    (hdur : ∀ r ∈ clip rows w, 0 ≤ r.dur)
    (hwf : ∀ t ∈ C13.threadsOf (clip rows w), C03.WF ((C13.threadRows (clip rows w) t).map fun r => (⟨r.idx, r.ts, max r.dur 0⟩ : C03.Ev)))
    (htc : TraceCausal rows (clip rows w) ws (kernelRows rows (clip rows w))) :
    (∀ e ∈ (build rows ws w zl).2.edges, Forward rows e) ∧ (∀ e ∈ (build rows ws w zl).2.edges, 0 ≤ e.weight) :=
  C08_graph_forward rows ws w zl hrows hdur hwf
    (causal_of_traceCausal rows _ ws _ (kernelRows_sorted rows _) (kernelRows_distinct rows _ hunique) htc)


/-- Non-vacuity: the launch / kernel / Stream Sync example of `Causal` also meets the trace-level statement. -/
example : TraceCausal exRows exRows [] [exK, exS] := by
  refine ⟨?_, ?_, ?_, ?_, ?_, ?_, ?_, ?_⟩
  · intro r hr; simp only [List.mem_cons, List.not_mem_nil, or_false] at hr; rcases hr with rfl | rfl <;> rfl
  · intro r hr; simp only [List.mem_cons, List.not_mem_nil, or_false] at hr; rcases hr with rfl | rfl <;> decide
  · intro r hr; simp only [List.mem_cons, List.not_mem_nil, or_false] at hr; rcases hr with rfl | rfl <;> decide
  · intro a ha b hb
    simp only [List.mem_cons, List.not_mem_nil, or_false] at ha hb
    rcases ha with rfl | rfl <;> rcases hb with rfl | rfl <;> decide
  · intro b hb; simp only [List.mem_cons, List.not_mem_nil, or_false] at hb; rcases hb with rfl | rfl <;> decide
  · intro a ha b hb
    simp only [List.mem_cons, List.not_mem_nil, or_false] at ha hb
    rcases ha with rfl | rfl <;> rcases hb with rfl | rfl <;> decide
  · intro r hr; simp only [List.mem_cons, List.not_mem_nil, or_false] at hr; rcases hr with rfl | rfl <;> decide
  · intro r hr; simp only [List.mem_cons, List.not_mem_nil, or_false] at hr; rcases hr with rfl | rfl <;> intro h <;> simp [exK, exS] at h

/-- **Towards acyclicity for all inputs**: under the hypotheses of `C08_graph_forward` two nodes that
lie on a common cycle of the built graph carry the same time — a cycle, if there were one, would be
confined to a single instant of the trace's clock. (That no such instantaneous cycle exists either is
what the proved certificate checker `C08_checkTopo_sound` establishes per run.) -/
theorem C08_cycle_simultaneous (rows : List Row) (ws : Waits) (w : Int × Int) (zl : Bool)
    (hrows : ∀ r ∈ clip rows w, findRow rows r.idx = some r)
    (hdur : ∀ r ∈ clip rows w, 0 ≤ r.dur)
    (hwf : ∀ t ∈ C13.threadsOf (clip rows w), C03.WF ((C13.threadRows (clip rows w) t).map fun r => (⟨r.idx, r.ts, max r.dur 0⟩ : C03.Ev)))
    (hcausal : Causal rows (clip rows w) ws (kernelRows rows (clip rows w)))
    (a b : NodeId) (hab : Walk (build rows ws w zl).2.edges a b) (hba : Walk (build rows ws w zl).2.edges b a) :
    tsOf rows a = tsOf rows b := by
  have hf := (C08_graph_forward rows ws w zl hrows hdur hwf hcausal).1
  exact Int.le_antisymm (walk_forward hf hab) (walk_forward hf hba)

/-- … and every edge on such a cycle weighs nothing: a positive-weight edge is never on a cycle. -/
theorem C08_positive_edge_not_on_cycle (rows : List Row) (ws : Waits) (w : Int × Int) (zl : Bool)
    (hrows : ∀ r ∈ clip rows w, findRow rows r.idx = some r)
    (hdur : ∀ r ∈ clip rows w, 0 ≤ r.dur)
    (hwf : ∀ t ∈ C13.threadsOf (clip rows w), C03.WF ((C13.threadRows (clip rows w) t).map fun r => (⟨r.idx, r.ts, max r.dur 0⟩ : C03.Ev)))
    (hcausal : Causal rows (clip rows w) ws (kernelRows rows (clip rows w)))
    (e : Edge) (he : e ∈ (build rows ws w zl).2.edges) (hback : Walk (build rows ws w zl).2.edges e.dst e.src) :
    e.weight = 0 := by
  have hf := (C08_graph_forward rows ws w zl hrows hdur hwf hcausal).1
  have h1 : tsOf rows e.src ≤ tsOf rows e.dst := hf e he
  have h2 := walk_forward hf hback
  have hw := (C08_edge_weight_rule rows ws w zl e he).2
  rcases hw with hw | hw
  · exact hw
  · rw [hw]; omega

end Hta.C08
