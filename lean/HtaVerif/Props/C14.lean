import HtaVerif.Proofs.C14
/-!
# C14 — queue-length and memory-bandwidth counters are exact step functions

One stream; `pairs` = the linked (launch ts, activity start ts) pairs of that stream.
`ms` = **any** permutation of their markers sorted by `(ts ascending, queue descending)` —
the order `sort_values(by=["ts","queue"], ascending=[True, False])` guarantees.
The series is `running 0 ms` (`cumsum`).
-/
namespace Hta.C14

theorem running_append (p q : List Marker) (acc : Int) :
    running acc (p ++ q) = running acc p ++ running (acc + totalDelta p) q := by
  induction p generalizing acc with
  | nil => simp [running, totalDelta]
  | cons m p ih =>
    simp only [List.cons_append, running, totalDelta, ih]
    have : acc + m.2 + totalDelta p = acc + (m.2 + totalDelta p) := by omega
    rw [this]

theorem pairwise_le_last {R : Marker → Marker → Prop} {l : List Marker} (h : l.Pairwise R) (hne : l ≠ []) :
    ∀ y ∈ l, y = l.getLast hne ∨ R y (l.getLast hne) := by
  induction l with
  | nil => exact absurd rfl hne
  | cons a l ih =>
    intro y hy
    cases l with
    | nil => simp at hy; left; simp [hy]
    | cons b l' =>
      have hp := List.pairwise_cons.mp h
      rw [List.getLast_cons (by simp)]
      rcases List.mem_cons.mp hy with rfl | hy'
      · right; exact hp.1 _ (List.getLast_mem _)
      · exact ih hp.2 (by simp) y hy'

/-- After the last event of any instant the series equals (launches issued so far) minus
(their activities started so far). -/
theorem C14_queue_last_of_instant (pairs : List (Int × Int)) (ms p q : List Marker) (t : Int)
    (hperm : ms.Perm (qmarkers pairs)) (hms : ms = p ++ q) (hne : p ≠ [])
    (hp : ∀ y ∈ p, y.1 ≤ t) (hq : ∀ z ∈ q, t < z.1) :
    (running 0 p).getLast? = some (outstanding pairs t) ∧
      running 0 ms = running 0 p ++ running (totalDelta p) q := by
  constructor
  · rw [running_getLast p 0 hne]
    congr 1
    rw [← stateAt_qmarkers, ← stateAt_perm hperm t, hms, stateAt_append, stateAt_of_ge hp,
      stateAt_of_lt hq]
    omega
  · rw [hms, running_append]; simp

/-- The series ends at 0. -/
theorem C14_queue_ends_zero (pairs : List (Int × Int)) (ms : List Marker)
    (hperm : ms.Perm (qmarkers pairs)) (hne : ms ≠ []) :
    (running 0 ms).getLast? = some 0 := by
  rw [running_getLast ms 0 hne, totalDelta_perm hperm, totalDelta_qmarkers]; rfl

/-- When no activity starts before its launch call, no row of the series is negative —
including the transient rows inside an instant. -/
theorem C14_queue_nonneg (pairs : List (Int × Int)) (ms : List Marker)
    (hcausal : ∀ p ∈ pairs, p.1 ≤ p.2)
    (hperm : ms.Perm (qmarkers pairs)) (hs : SortedByKey ms) :
    ∀ v ∈ running 0 ms, 0 ≤ v := by
  intro v hv
  obtain ⟨p, q, hne, hms, rfl⟩ := mem_running hv
  have hsp : p.Pairwise keyLe := by
    rw [hms] at hs; exact (List.pairwise_append.mp hs).1
  have hle : ∀ y ∈ p, y.1 ≤ (p.getLast hne).1 := by
    intro y hy
    rcases pairwise_le_last hsp hne y hy with h | h
    · rw [h]; exact Int.le_refl _
    · unfold keyLe at h; omega
  have hstate : ∀ τ, 0 ≤ stateAt ms τ := by
    intro τ
    rw [stateAt_perm hperm τ, stateAt_qmarkers]
    exact outstanding_nonneg hcausal τ
  rcases prefix_ge_state hs hms (p.getLast hne) (List.getLast_mem hne) hle with h | h
  · have := hstate ((p.getLast hne).1 - 1); omega
  · have := hstate (p.getLast hne).1; omega

/-- Memory bandwidth: after the last event of an instant the series of a copy type equals
the sum of the bandwidths of the copies active at that instant (`fin = ts + max dur 1`). -/
theorem stateAt_copyMarkers (cs : List Copy) (hpos : ∀ c ∈ cs, c.ts ≤ c.fin) (t : Int) :
    stateAt (copyMarkers cs) t = activeBw cs t := by
  induction cs with
  | nil => rfl
  | cons c cs ih =>
    have := hpos c List.mem_cons_self
    simp only [copyMarkers, stateAt, activeBw, ih (fun x hx => hpos x (List.mem_cons_of_mem _ hx))]
    by_cases h1 : c.ts ≤ t <;> by_cases h2 : c.fin ≤ t <;> by_cases h3 : t < c.fin <;>
      simp [h1, h2, h3] <;> omega

theorem C14_bw_last_of_instant (cs : List Copy) (ms p q : List Marker) (t : Int)
    (hpos : ∀ c ∈ cs, c.ts ≤ c.fin)
    (hperm : ms.Perm (copyMarkers cs)) (hms : ms = p ++ q) (hne : p ≠ [])
    (hp : ∀ y ∈ p, y.1 ≤ t) (hq : ∀ z ∈ q, t < z.1) :
    (running 0 p).getLast? = some (activeBw cs t) := by
  rw [running_getLast p 0 hne]
  congr 1
  rw [← stateAt_copyMarkers cs hpos, ← stateAt_perm hperm t, hms, stateAt_append, stateAt_of_ge hp,
    stateAt_of_lt hq]
  omega

theorem C14_bw_active_nonneg (cs : List Copy) (hbw : ∀ c ∈ cs, 0 ≤ c.bw) (t : Int) :
    0 ≤ activeBw cs t := by
  induction cs with
  | nil => simp [activeBw]
  | cons c cs ih =>
    have := hbw c List.mem_cons_self
    have := ih (fun x hx => hbw x (List.mem_cons_of_mem _ hx))
    simp only [activeBw]; split <;> omega

/-- Counter events reproduce the series at the original (unshifted) timestamps. -/
theorem C14_counter_events (minTs : Int) (series : List (Int × Int × Int × Int)) :
    (counterEvents minTs series).map (fun e => (e.ts - minTs, e.pid, e.id, e.value)) = series := by
  induction series with
  | nil => rfl
  | cons s ss ih =>
    obtain ⟨a, b, c, d⟩ := s
    simp only [counterEvents, List.map_cons] at ih ⊢
    rw [ih]; congr 2; omega

/-- Non-vacuity: two pairs, the second started at the same microsecond as its launch. -/
example : running 0 [(0, 1), (3, 1), (3, -1), (5, -1)] = [1, 2, 1, 0] := by decide
example : SortedByKey [(0, 1), (3, 1), (3, -1), (5, -1)] := by
  unfold SortedByKey keyLe; decide

end Hta.C14
