import HtaVerif.Model.C09
import HtaVerif.Proofs.C09
import HtaVerif.Props.C08
/-!
# C09 — the reported critical path is a maximum-weight path of the graph

`networkx.dag_longest_path` is not modelled; its answer is validated per run by a checker whose
soundness is proved here: a potential-function certificate bounds the weight of **every** path
of the graph, so a reported path whose weight meets the bound is a maximum-weight path.
-/
namespace Hta.C09

/-- Telescoping: if every edge weighs at most the increase of `f` along it, a path weighs at
most the increase of `f` from its first to its last node. -/
theorem pathWeight_le_potential (es : List WEdge) (f : Nat → Int)
    (hf : ∀ e ∈ es, e.w ≤ f e.dst - f e.src) :
    ∀ (p : List Nat) (a : Nat), isPath es (a :: p) = true →
      pathWeight es (a :: p) ≤ f ((a :: p).getLast (by simp)) - f a := by
  intro p
  induction p with
  | nil => intro a _; simp [pathWeight]
  | cons b rest ih =>
    intro a hp
    simp only [isPath, Bool.and_eq_true] at hp
    obtain ⟨he, hrest⟩ := hp
    have ih' := ih b hrest
    cases hfe : findEdge es a b with
    | none => simp [hfe] at he
    | some e =>
      have hmem : e ∈ es := List.mem_of_find?_eq_some hfe
      have hp := List.find?_some hfe
      simp only [Bool.and_eq_true, beq_iff_eq] at hp
      have hw := hf e hmem
      rw [hp.1, hp.2] at hw
      simp only [pathWeight, hfe, Option.map_some, Option.getD_some]
      rw [List.getLast_cons (by simp)]
      omega

/-- **Certificate soundness.** If `d` is a non-negative potential bounded by `D` on the nodes
that can end a path, then every path of the graph weighs at most `D`. -/
theorem C09_potential_bounds_all_paths (es : List WEdge) (d : Nat → Int) (D : Int)
    (hpot : ∀ e ∈ es, d e.src + e.w ≤ d e.dst) (hnn : ∀ v, 0 ≤ d v) (hD : ∀ v, d v ≤ D)
    (p : List Nat) (hp : isPath es p = true) : pathWeight es p ≤ D := by
  cases p with
  | nil => simp [isPath] at hp
  | cons a rest =>
    have := pathWeight_le_potential es d (fun e he => by have := hpot e he; omega) rest a hp
    have h1 := hnn a
    have h2 := hD ((a :: rest).getLast (by simp))
    omega

/-- Hence a reported path whose weight equals the bound is a maximum-weight path. -/
theorem C09_reported_path_is_maximum (es : List WEdge) (d : Nat → Int) (D : Int)
    (hpot : ∀ e ∈ es, d e.src + e.w ≤ d e.dst) (hnn : ∀ v, 0 ≤ d v) (hD : ∀ v, d v ≤ D)
    (reported : List Nat) (hw : pathWeight es reported = D) :
    ∀ p, isPath es p = true → pathWeight es p ≤ pathWeight es reported := by
  intro p hp
  rw [hw]
  exact C09_potential_bounds_all_paths es d D hpot hnn hD p hp

/-- The path never exceeds the makespan: with weights between 0 and the time difference of
their endpoints (C08), a path weighs at most the time from its first to its last node. -/
theorem C09_path_le_makespan (es : List WEdge) (ts : Nat → Int)
    (hw : ∀ e ∈ es, e.w ≤ ts e.dst - ts e.src) (a : Nat) (rest : List Nat)
    (hp : isPath es (a :: rest) = true) :
    pathWeight es (a :: rest) ≤ ts ((a :: rest).getLast (by simp)) - ts a :=
  pathWeight_le_potential es ts hw rest a hp

/-- The reported edge set consists of exactly one edge of the graph per consecutive pair of
path nodes. -/
theorem C09_path_edges (es : List WEdge) :
    ∀ (p : List Nat) (a : Nat), isPath es (a :: p) = true →
      (pathEdges es (a :: p)).length = p.length ∧ ∀ e ∈ pathEdges es (a :: p), e ∈ es := by
  intro p
  induction p with
  | nil => intro a _; simp [pathEdges]
  | cons b rest ih =>
    intro a hp
    simp only [isPath, Bool.and_eq_true] at hp
    obtain ⟨he, hrest⟩ := hp
    obtain ⟨hl, hm⟩ := ih b hrest
    cases hfe : findEdge es a b with
    | none => simp [hfe] at he
    | some e =>
      simp only [pathEdges, hfe, Option.toList_some, List.singleton_append, List.length_cons, hl]
      refine ⟨trivial, ?_⟩
      intro x hx
      rcases List.mem_cons.mp hx with rfl | hx'
      · exact List.mem_of_find?_eq_some hfe
      · exact hm x hx'

theorem checkPotential_sound (es : List WEdge) (d : Nat → Int) (D : Int) (nodes : List Nat)
    (h : checkPotential es d D nodes = true) :
    (∀ e ∈ es, d e.src + e.w ≤ d e.dst) ∧ ∀ v ∈ nodes, 0 ≤ d v ∧ d v ≤ D := by
  simp only [checkPotential, Bool.and_eq_true, List.all_eq_true, decide_eq_true_eq] at h
  exact ⟨h.1, fun v hv => h.2 v hv⟩

/-! ### the dynamic programme is exact for every DAG -/

/-- **The longest-path programme is a certificate for every DAG.** For any edge list and any
duplicate-free node order in which every edge's source comes before its target (a topological
order, e.g. networkx's), the distances computed by the dynamic programme are a non-negative
potential bounded by `best`: no checker run can reject them. -/
theorem C09_dp_is_potential (es : List WEdge) (order : List Nat) (hnd : order.Nodup)
    (htopo : ∀ e ∈ es, Before order e.src e.dst) :
    (∀ e ∈ es, distOf (dp es order) e.src + e.w ≤ distOf (dp es order) e.dst) ∧
    (∀ v, 0 ≤ distOf (dp es order) v) ∧ (∀ v, distOf (dp es order) v ≤ best (dp es order)) := by
  have hdst : ∀ e ∈ es, e.dst ∈ order := by
    intro e he
    obtain ⟨pre, post, h, _⟩ := htopo e he
    rw [h]; simp
  obtain ⟨h1, h2, _⟩ := dp_invariant es order [] (by simpa [keys] using hnd)
    (fun e he _ => Or.inr (htopo e he))
  refine ⟨fun e he => h1 e he (hdst e he), ?_, fun v => distOf_le_best _ v⟩
  intro v
  by_cases hv : v ∈ order
  · exact h2 v hv
  · have : v ∉ keys (dp es order) := by
      unfold dp; rw [keys_foldl]; simpa [keys] using hv
    rw [distOf_of_not_mem _ _ this]
    exact Int.le_refl 0

/-- **No path of a DAG outweighs the programme's optimum.** Together with
`C09_reported_path_is_maximum`: a reported path whose weight equals `best (dp es order)` is a
maximum-weight path of the graph, for every graph and every topological order. -/
theorem C09_dp_bounds_all_paths (es : List WEdge) (order : List Nat) (hnd : order.Nodup)
    (htopo : ∀ e ∈ es, Before order e.src e.dst) (p : List Nat) (hp : isPath es p = true) :
    pathWeight es p ≤ best (dp es order) := by
  obtain ⟨h1, h2, h3⟩ := C09_dp_is_potential es order hnd htopo
  exact C09_potential_bounds_all_paths es (distOf (dp es order)) (best (dp es order)) h1 h2 h3 p hp

/-- **The programme's optimum is attained**: some path of the graph weighs exactly
`best (dp es order)`. With `C09_dp_bounds_all_paths`: `best` is the maximum path weight of the
graph, so comparing a reported path's weight with it decides optimality exactly. -/
theorem C09_dp_optimum_attained (es : List WEdge) (huniq : EdgesUnique es) (order : List Nat)
    (hnd : order.Nodup) (htopo : ∀ e ∈ es, Before order e.src e.dst) :
    ∃ p, isPath es p = true ∧ pathWeight es p = best (dp es order) := by
  have hkeys : keys (dp es order) = order := by unfold dp; rw [keys_foldl]; simp [keys]
  rcases foldl_max_mem_or_init ((dp es order).map (·.2)) 0 with h0 | hm
  · exact ⟨[0], by simp [isPath], by unfold best; rw [h0]; simp [pathWeight]⟩
  · obtain ⟨q, hq, hval⟩ := List.mem_map.mp hm
    have hqk : q.1 ∈ order := by rw [← hkeys]; exact List.mem_map.mpr ⟨q, hq, rfl⟩
    obtain ⟨p, a, h1, _, h3⟩ := dp_attained es huniq order [] (by simpa [keys] using hnd)
      (fun e he _ => Or.inr (htopo e he)) (by intro u hu; simp [keys] at hu) q.1 (by simpa [keys] using hqk)
    refine ⟨a :: p, h1, ?_⟩
    rw [h3]
    unfold best
    rw [← hval]
    exact distOf_of_mem (dp es order) (by rw [hkeys]; exact hnd) q hq

/-- Non-vacuity of the hypotheses of the three theorems above on a concrete DAG. -/
example : EdgesUnique [⟨0, 1, 5⟩, ⟨1, 2, 0⟩, ⟨0, 2, 3⟩] ∧ [0, 1, 2].Nodup ∧
    ∀ e ∈ ([⟨0, 1, 5⟩, ⟨1, 2, 0⟩, ⟨0, 2, 3⟩] : List WEdge), Before [0, 1, 2] e.src e.dst := by
  refine ⟨by unfold EdgesUnique; decide, by decide, ?_⟩
  intro e he
  simp only [List.mem_cons, List.not_mem_nil, or_false] at he
  rcases he with rfl | rfl | rfl
  · exact ⟨[0], [2], rfl, by simp⟩
  · exact ⟨[0, 1], [], rfl, by simp⟩
  · exact ⟨[0, 1], [], rfl, by simp⟩

example : pathWeight [⟨0, 1, 5⟩, ⟨1, 2, 0⟩, ⟨0, 2, 3⟩] [0, 1, 2] = 5 ∧
    best (dp [⟨0, 1, 5⟩, ⟨1, 2, 0⟩, ⟨0, 2, 3⟩] [0, 1, 2]) = 5 := by decide

section BuiltGraph
open Hta.C08

/-- **The makespan clause for the graph the analysis builds.** Number the nodes of the built graph in any way
(`num`; networkx numbers them in creation order) and let `ts'` give each number its node's time. Under the
trace-level hypotheses of `C08_graph_forward_of_trace` every path of the graph — in particular the reported
critical path — weighs at most the time from its first to its last node, hence at most the makespan of the
analysed window. -/
theorem C09_built_graph_path_within_makespan (rows : List Row) (ws : Waits) (w : Int × Int) (zl : Bool)
    (hrows : ∀ r ∈ clip rows w, findRow rows r.idx = some r)
    (hunique : (clip rows w).Pairwise fun a b => a.idx ≠ b.idx)
    (hdur : ∀ r ∈ clip rows w, 0 ≤ r.dur)
    (hwf : ∀ t ∈ C13.threadsOf (clip rows w), C03.WF ((C13.threadRows (clip rows w) t).map fun r => (⟨r.idx, r.ts, max r.dur 0⟩ : C03.Ev)))
    (htc : TraceCausal rows (clip rows w) ws (kernelRows rows (clip rows w)))
    (num : NodeId → Nat) (ts' : Nat → Int) (hts : ∀ n, ts' (num n) = tsOf rows n)
    (a : Nat) (rest : List Nat)
    (hp : isPath ((build rows ws w zl).2.edges.map fun e => (⟨num e.src, num e.dst, e.weight⟩ : WEdge)) (a :: rest) = true) :
    pathWeight ((build rows ws w zl).2.edges.map fun e => (⟨num e.src, num e.dst, e.weight⟩ : WEdge)) (a :: rest)
      ≤ ts' ((a :: rest).getLast (by simp)) - ts' a := by
  apply C09_path_le_makespan _ ts' _ a rest hp
  intro e he
  obtain ⟨e0, he0, rfl⟩ := List.mem_map.mp he
  have hf := (C08_graph_forward_of_trace rows ws w zl hrows hunique hdur hwf htc).1 e0 he0
  have hw := (C08_edge_weight_rule rows ws w zl e0 he0).2
  simp only [hts]
  unfold Forward at hf
  rcases hw with h | h
  · rw [h]; omega
  · rw [h]; omega

end BuiltGraph

end Hta.C09
