import HtaVerif.Model.C01
/-!
# C01 — loaded events are a faithful, uniformly time-shifted image of the trace file
-/
namespace Hta.C01

theorem rowOf_isSome (i : Nat) (e : RawEntry) : (rowOf i e).isSome = complete e := by
  unfold rowOf complete
  cases hd : e.dur <;> cases hc : e.cat <;> simp
  split <;> simp_all

/-- Field-by-field faithfulness of a produced row. -/
theorem rowOf_fields {i : Nat} {e : RawEntry} {r : PRow} (h : rowOf i e = some r) :
    ∃ d c, e.dur = some d ∧ e.cat = some c ∧ c ≠ "Trace" ∧
      r.idx = i ∧ r.name = e.name ∧ r.cat = c ∧ r.pid = e.pid ∧ r.tid = e.tid ∧
      r.stream = e.stream.getD (-1) ∧ r.corr = e.corr.getD (-1) ∧
      r.ts = startOf e ∧ r.fin = endOf e d ∧ r.dur = endOf e d - startOf e ∧ r.fin = r.ts + r.dur := by
  unfold rowOf at h
  cases hd : e.dur with
  | none => simp [hd] at h
  | some d =>
    cases hc : e.cat with
    | none => simp [hd, hc] at h
    | some c =>
      simp only [hd, hc] at h
      split at h
      · cases h
      · rename_i hne
        cases h
        refine ⟨d, c, rfl, rfl, by simpa using hne, rfl, rfl, rfl, rfl, rfl, rfl, rfl, rfl, ?_, rfl, rfl⟩
        simp only []; omega

theorem mem_parseFrom {es : List RawEntry} {i : Nat} {r : PRow} :
    r ∈ parseFrom i es ↔ ∃ k e, es[k]? = some e ∧ rowOf (i + k) e = some r := by
  induction es generalizing i with
  | nil => simp [parseFrom]
  | cons e es ih =>
    simp only [parseFrom]
    constructor
    · intro h
      cases hr : rowOf i e with
      | none =>
        rw [hr] at h
        obtain ⟨k, e', hk, hrow⟩ := ih.mp h
        exact ⟨k + 1, e', by simpa using hk, by rw [← hrow]; congr 1; omega⟩
      | some r' =>
        rw [hr] at h
        rcases List.mem_cons.mp h with rfl | h'
        · exact ⟨0, e, by simp, by simpa using hr⟩
        · obtain ⟨k, e', hk, hrow⟩ := ih.mp h'
          exact ⟨k + 1, e', by simpa using hk, by rw [← hrow]; congr 1; omega⟩
    · rintro ⟨k, e', hk, hrow⟩
      cases k with
      | zero =>
        simp at hk; subst hk
        simp at hrow
        rw [hrow]; exact List.mem_cons_self
      | succ k =>
        have hk' : es[k]? = some e' := by simpa using hk
        have : r ∈ parseFrom (i + 1) es := ih.mpr ⟨k, e', hk', by rw [← hrow]; congr 1; omega⟩
        cases rowOf i e with
        | none => exact this
        | some _ => exact List.mem_cons_of_mem _ this

/-- Exactly one row per complete entry, identified by its position; no incomplete entry
(metadata, flow, instant, the 'Trace' span) ever appears. -/
theorem C01_parse_rows_exact (es : List RawEntry) (r : PRow) :
    r ∈ parseRank es ↔ ∃ k e, es[k]? = some e ∧ complete e = true ∧ rowOf k e = some r := by
  unfold parseRank
  rw [mem_parseFrom]
  constructor
  · rintro ⟨k, e, hk, hr⟩
    refine ⟨k, e, hk, ?_, by simpa using hr⟩
    rw [← rowOf_isSome (0 + k) e, hr]; rfl
  · rintro ⟨k, e, hk, _, hr⟩
    exact ⟨k, e, hk, by simpa using hr⟩

theorem parseFrom_idx_ge {es : List RawEntry} {i : Nat} : ∀ r ∈ parseFrom i es, (i : Int) ≤ r.idx := by
  intro r hr
  obtain ⟨k, e, _, hrow⟩ := mem_parseFrom.mp hr
  obtain ⟨_, _, _, _, _, hidx, _⟩ := rowOf_fields hrow
  rw [hidx]; omega

/-- Row ids are strictly increasing, hence pairwise distinct: one row per entry. -/
theorem C01_parse_idx_increasing (es : List RawEntry) :
    (parseRank es).Pairwise fun a b => a.idx < b.idx := by
  unfold parseRank
  generalize 0 = i
  induction es generalizing i with
  | nil => simp [parseFrom]
  | cons e es ih =>
    simp only [parseFrom]
    cases hr : rowOf i e with
    | none => exact ih (i + 1)
    | some r =>
      apply List.pairwise_cons.mpr
      refine ⟨?_, ih (i + 1)⟩
      intro b hb
      have := parseFrom_idx_ge b hb
      obtain ⟨_, _, _, _, _, hidx, _⟩ := rowOf_fields hr
      rw [hidx]; omega

/-! ### alignment -/

theorem minL_spec {l : List Int} {m : Int} (h : minL l = some m) : m ∈ l ∧ ∀ x ∈ l, m ≤ x := by
  induction l generalizing m with
  | nil => simp [minL] at h
  | cons x xs ih =>
    simp only [minL] at h
    cases hxs : minL xs with
    | none =>
      rw [hxs] at h; cases h
      cases xs with
      | nil => simp
      | cons y ys => simp [minL] at hxs; split at hxs <;> simp at hxs
    | some m' =>
      rw [hxs] at h; cases h
      obtain ⟨hm, hle⟩ := ih hxs
      constructor
      · by_cases hc : x ≤ m'
        · have : min x m' = x := by omega
          rw [this]; exact List.mem_cons_self
        · have : min x m' = m' := by omega
          rw [this]; exact List.mem_cons_of_mem _ hm
      · intro y hy
        rcases List.mem_cons.mp hy with rfl | hy'
        · omega
        · have := hle y hy'; omega

/-- After loading a set of ranks every start time equals the file's (rounded) timestamp minus
one constant shared by all ranks, `end` moves with it, and nothing else changes. -/
theorem C01_align_uniform (ranks : List (List PRow)) :
    (align ranks).2 = ranks.map (fun rows => rows.map (shift (align ranks).1)) := by
  unfold align
  cases minTs ranks with
  | none =>
    have : ∀ r : PRow, shift 0 r = r := by
      intro r; cases r; simp [shift]
    show ranks = ranks.map (fun rows => rows.map (shift 0))
    have h2 : (fun rows : List PRow => rows.map (shift 0)) = id := by
      funext rows
      show rows.map (shift 0) = rows
      have h3 : shift 0 = id := funext this
      rw [h3, List.map_id]
    rw [h2, List.map_id]
  | some c => rfl

/-- The constant puts the earliest event at 0. -/
theorem C01_align_min_zero (ranks : List (List PRow)) (hne : ranks.flatten ≠ []) :
    (∃ r ∈ (align ranks).2.flatten, r.ts = 0) ∧ ∀ r ∈ (align ranks).2.flatten, 0 ≤ r.ts := by
  unfold align
  cases hm : minTs ranks with
  | none =>
    unfold minTs at hm
    cases hf : ranks.flatten with
    | nil => exact absurd hf hne
    | cons a l => rw [hf] at hm; simp [minL] at hm; split at hm <;> simp at hm
  | some c =>
    obtain ⟨hmem, hle⟩ := minL_spec hm
    obtain ⟨r0, hr0, hts⟩ := List.mem_map.mp hmem
    simp only [List.mem_flatten, List.mem_map]
    constructor
    · obtain ⟨rows, hrows, hr0'⟩ := List.mem_flatten.mp hr0
      exact ⟨shift c r0, ⟨rows.map (shift c), ⟨rows, hrows, rfl⟩, List.mem_map.mpr ⟨r0, hr0', rfl⟩⟩,
        by simp [shift, hts]⟩
    · rintro r ⟨l, ⟨rows, hrows, rfl⟩, hr⟩
      obtain ⟨r', hr', rfl⟩ := List.mem_map.mp hr
      have := hle r'.ts (List.mem_map.mpr ⟨r', List.mem_flatten.mpr ⟨rows, hrows, hr'⟩, rfl⟩)
      simp [shift]; omega

/-- Every loaded row's end time equals its start plus its duration. -/
theorem C01_end_eq_ts_plus_dur (files : List (List RawEntry)) :
    ∀ rows ∈ (loadAll files).2, ∀ r ∈ rows, r.fin = r.ts + r.dur := by
  intro rows hrows r hr
  unfold loadAll at hrows
  rw [C01_align_uniform] at hrows
  obtain ⟨rows0, h0, rfl⟩ := List.mem_map.mp hrows
  obtain ⟨es, _, rfl⟩ := List.mem_map.mp h0
  obtain ⟨r0, hr0, rfl⟩ := List.mem_map.mp hr
  obtain ⟨k, e, _, hrow⟩ := mem_parseFrom.mp hr0
  obtain ⟨_, _, _, _, _, _, _, _, _, _, _, _, _, _, _, hfin⟩ := rowOf_fields hrow
  simp only [shift]; omega

/-! ### inward rounding -/

/-- A rounded event never extends beyond its original span. -/
theorem C01_round_inward (ts d : Int) :
    ts ≤ 1000 * ceilUs ts ∧ 1000 * floorUs (ts + d) ≤ ts + d := by
  unfold ceilUs floorUs; omega

/-- Containment between events is preserved by rounding. -/
theorem C01_round_preserves_containment (a da b db : Int)
    (h1 : a ≤ b) (h2 : b + db ≤ a + da) :
    ceilUs a ≤ ceilUs b ∧ floorUs (b + db) ≤ floorUs (a + da) := by
  unfold ceilUs floorUs; omega

/-- Disjointness between events is preserved by rounding. -/
theorem C01_round_preserves_disjoint (a da b : Int) (h : a + da ≤ b) :
    floorUs (a + da) ≤ ceilUs b := by
  unfold ceilUs floorUs; omega

/-- On integer-microsecond input rounding is the identity. -/
theorem C01_round_integer (ts d : Int) :
    ceilUs (1000 * ts) = ts ∧ floorUs (1000 * ts + 1000 * d) = ts + d := by
  unfold ceilUs floorUs; omega

/-- Non-vacuity: metadata entry, 'Trace' span, a fractional kernel (1.5 + 2.25 us -> [2,3]). -/
example : parseRank
    [⟨5000, some 2000, some "cpu_op", "aten::add", 1, 1, none, none⟩,
     ⟨0, none, none, "process_name", 1, 0, none, none⟩,
     ⟨5000, some 9000, some "Trace", "PyTorch Profiler (0)", 0, 0, none, none⟩,
     ⟨1500, some 2250, some "kernel", "k", 0, 7, some 7, some 4⟩]
    = [⟨0, 5, 2, 7, 1, 1, -1, -1, "aten::add", "cpu_op"⟩, ⟨3, 2, 1, 3, 0, 7, 7, 4, "k", "kernel"⟩] := by
  decide

end Hta.C01
