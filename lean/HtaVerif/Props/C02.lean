import HtaVerif.Spec.C02
/-!
# C02 — correlation links pair each launch call with its device activity, mutually
-/
namespace Hta.C02

theorem mem_merged {rows : List Row} {a b : Int} :
    (a, b) ∈ merged rows ↔ ∃ x ∈ rows, ∃ y ∈ rows, x.corr ≠ -1 ∧ devSide x = false ∧ devSide y = true ∧
      y.corr = x.corr ∧ a = x.idx ∧ b = y.idx := by
  simp only [merged, cand, List.mem_flatMap, List.mem_map, List.mem_filter, Prod.mk.injEq]
  constructor
  · rintro ⟨x, ⟨⟨hx, hxc⟩, hxs⟩, y, ⟨⟨⟨hy, hyc⟩, hys⟩, hc⟩, rfl, rfl⟩
    refine ⟨x, hx, y, hy, ?_, by simpa using hxs, hys, by simpa using hc, rfl, rfl⟩
    simpa using hxc
  · rintro ⟨x, hx, y, hy, hxc, hxs, hys, hc, rfl, rfl⟩
    refine ⟨x, ⟨⟨hx, by simpa using hxc⟩, by simp [hxs]⟩, y, ⟨⟨⟨hy, ?_⟩, hys⟩, by simp [hc]⟩, rfl, rfl⟩
    rw [hc]; simpa using hxc

/-- Soundness without any hypothesis: a link written by the merge always points to an
opposite-side row with the same correlation id. -/
theorem C02_link_sound_unconditional (rows : List Row) (r : Row)
    (h : linkOf rows r ≠ min r.corr 0) :
    ∃ x ∈ rows, ∃ y ∈ rows, devSide x = false ∧ devSide y = true ∧ y.corr = x.corr ∧ x.corr ≠ -1 ∧
      ((r.idx = y.idx ∧ linkOf rows r = x.idx) ∨ (r.idx = x.idx ∧ linkOf rows r = y.idx)) := by
  unfold linkOf at h ⊢
  split at h
  · rename_i p hp
    have hmem := List.mem_of_find?_eq_some hp
    have hpred := List.find?_some hp
    obtain ⟨a, b⟩ := p
    obtain ⟨x, hx, y, hy, hxc, hxs, hys, hc, rfl, rfl⟩ := mem_merged.mp (List.mem_reverse.mp hmem)
    refine ⟨x, hx, y, hy, hxs, hys, hc, hxc, Or.inl ⟨?_, ?_⟩⟩
    · have : y.idx = r.idx := by simpa using hpred
      exact this.symm
    · simp
  · rename_i hnone
    split at h
    · rename_i p hp
      have hmem := List.mem_of_find?_eq_some hp
      have hpred := List.find?_some hp
      obtain ⟨a, b⟩ := p
      obtain ⟨x, hx, y, hy, hxc, hxs, hys, hc, rfl, rfl⟩ := mem_merged.mp (List.mem_reverse.mp hmem)
      refine ⟨x, hx, y, hy, hxs, hys, hc, hxc, Or.inr ⟨?_, ?_⟩⟩
      · have : x.idx = r.idx := by simpa using hpred
        exact this.symm
      · simp
    · exact absurd rfl h

theorem link_of_partner {rows : List Row} (wf : WF rows) {r p : Row} (hr : r ∈ rows)
    (hp : Partner rows r p) : linkOf rows r = p.idx := by
  obtain ⟨hpm, hpc, hrc, hside⟩ := hp
  unfold linkOf
  cases hd : devSide r with
  | true =>
    have hps : devSide p = false := by
      cases h : devSide p with
      | false => rfl
      | true => rw [h, hd] at hside; exact absurd rfl hside
    have hin : (p.idx, r.idx) ∈ (merged rows).reverse :=
      List.mem_reverse.mpr (mem_merged.mpr ⟨p, hpm, r, hr, by rw [hpc]; exact hrc, hps, hd, hpc.symm, rfl, rfl⟩)
    cases hf : (merged rows).reverse.find? (fun q => q.2 == r.idx) with
    | none =>
      have := List.find?_eq_none.mp hf (p.idx, r.idx) hin
      simp at this
    | some q =>
      have hmem := List.mem_of_find?_eq_some hf
      have hpred := List.find?_some hf
      obtain ⟨a, b⟩ := q
      obtain ⟨x, hx, y, hy, hxc, hxs, hys, hc, rfl, rfl⟩ := mem_merged.mp (List.mem_reverse.mp hmem)
      have hyr : y = r := wf.idxInj y hy r hr (by simpa using hpred)
      subst hyr
      have : x = p := wf.paired x hx p hpm (by rw [← hc, hpc]) hxc (by rw [hxs, hps])
      simp [this]
  | false =>
    have hps : devSide p = true := by
      cases h : devSide p with
      | true => rfl
      | false => rw [h, hd] at hside; exact absurd rfl hside
    have hin : (r.idx, p.idx) ∈ (merged rows).reverse :=
      List.mem_reverse.mpr (mem_merged.mpr ⟨r, hr, p, hpm, hrc, hd, hps, hpc, rfl, rfl⟩)
    have hnone : (merged rows).reverse.find? (fun q => q.2 == r.idx) = none := by
      apply List.find?_eq_none.mpr
      rintro ⟨a, b⟩ hq
      obtain ⟨x, hx, y, hy, hxc, hxs, hys, hc, rfl, rfl⟩ := mem_merged.mp (List.mem_reverse.mp hq)
      intro hb
      have hyr : y = r := wf.idxInj y hy r hr (by simpa using hb)
      rw [hyr, hd] at hys
      exact absurd hys (by simp)
    rw [hnone]
    cases hf : (merged rows).reverse.find? (fun q => q.1 == r.idx) with
    | none =>
      have := List.find?_eq_none.mp hf (r.idx, p.idx) hin
      simp at this
    | some q =>
      have hmem := List.mem_of_find?_eq_some hf
      have hpred := List.find?_some hf
      obtain ⟨a, b⟩ := q
      obtain ⟨x, hx, y, hy, hxc, hxs, hys, hc, rfl, rfl⟩ := mem_merged.mp (List.mem_reverse.mp hmem)
      have hxr : x = r := wf.idxInj x hx r hr (by simpa using hpred)
      subst hxr
      have : y = p := wf.paired y hy p hpm (by rw [hc, hpc]) (by rw [hc]; exact hxc) (by rw [hys, hps])
      simp [this]

/-- Main theorem: every link is the id of the unique counterpart (mutually) or the sentinel. -/
theorem C02_link_spec (rows : List Row) (wf : WF rows) : Holds rows (linkOf rows) := by
  intro r hr
  constructor
  · intro p hp
    refine ⟨link_of_partner wf hr hp, ?_⟩
    obtain ⟨hpm, hpc, hrc, hside⟩ := hp
    exact link_of_partner wf hpm ⟨hr, hpc.symm, by rw [hpc]; exact hrc, fun h => hside h.symm⟩
  · intro hno
    apply Classical.byContradiction
    intro hne
    obtain ⟨x, hx, y, hy, hxs, hys, hc, hxc, h⟩ := C02_link_sound_unconditional rows r hne
    apply hno
    rcases h with ⟨hi, _⟩ | ⟨hi, _⟩
    · have : r = y := wf.idxInj r hr y hy hi
      subst this
      exact ⟨x, hx, hc.symm, by rw [hc]; exact hxc, by rw [hxs, hys]; simp⟩
    · have : r = x := wf.idxInj r hr x hx hi
      subst this
      exact ⟨y, hy, hc, hxc, by rw [hxs, hys]; simp⟩

/-- Non-vacuity: launch 1 <-> kernel 2, a kernel without launch (0), an operator (-1), a sync
record on stream -1 paired with its host call. -/
example : run [⟨0, 0, 9, 1, 1, -1, -1, -1, -1, "aten::add", "cpu_op"⟩,
               ⟨1, 1, 2, 1, 1, -1, 7, -1, -1, "cudaLaunchKernel", "cuda_runtime"⟩,
               ⟨2, 3, 4, 0, 7, 7, 7, -1, -1, "k", "kernel"⟩,
               ⟨3, 8, 4, 0, 7, 7, 9, -1, -1, "k2", "kernel"⟩,
               ⟨4, 9, 1, 1, 1, -1, 11, -1, -1, "cudaDeviceSynchronize", "cuda_runtime"⟩,
               ⟨5, 9, 1, 0, 0, -1, 11, -1, -1, "Context Sync", "cuda_sync"⟩]
    = [(0, -1), (1, 2), (2, 1), (3, 0), (4, 5), (5, 4)] := by decide

end Hta.C02
