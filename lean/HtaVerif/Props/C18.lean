import HtaVerif.Model.C18
/-!
# C18 — trace filters are pure row selections with the documented predicates
-/
namespace Hta.C18

theorem rowPred_congr (fr fr' : Frame) (h1 : fr.hasRank = fr'.hasRank) (h2 : fr.decoded = fr'.decoded)
    (f : Flt) : rowPred fr f = rowPred fr' f := by
  cases f <;> simp [rowPred, h1, h2]

/-- A row-local filter returns exactly the rows satisfying its predicate, in order. -/
theorem C18_rowlocal_exact (f : Flt) (fr : Frame) (p : FRow → Bool) (hp : rowPred fr f = some p) :
    (apply f fr).rows = fr.rows.filter p ∧ (apply f fr).hasRank = fr.hasRank ∧
      (apply f fr).decoded = fr.decoded := by
  cases f with
  | iterIndex ixs => simp [rowPred] at hp
  | name ht m =>
    unfold apply
    by_cases he : fr.rows.isEmpty
    · have : fr.rows = [] := by simpa using he
      simp [he, this]
    · simp [he, hp]
  | memcopy ty it =>
    unfold apply
    by_cases he : fr.rows.isEmpty
    · have : fr.rows = [] := by simpa using he
      simp [he, this]
    · simp [he, hp]
  | iteration its => simp [apply, hp]
  | rank rs => simp [apply, hp]
  | timeRange a b => simp [apply, hp]
  | gpu ht => simp [apply, hp]
  | cpu ht => simp [apply, hp]

/-- Every filter returns a sub-frame: rows, their order and contents unchanged, columns
unchanged. -/
theorem C18_subframe (f : Flt) (fr : Frame) :
    (apply f fr).rows.Sublist fr.rows ∧ (apply f fr).hasRank = fr.hasRank ∧
      (apply f fr).decoded = fr.decoded := by
  cases hrp : rowPred fr f with
  | some p =>
    obtain ⟨h1, h2, h3⟩ := C18_rowlocal_exact f fr p hrp
    exact ⟨by rw [h1]; exact List.filter_sublist, h2, h3⟩
  | none =>
    cases f with
    | iterIndex ixs =>
      cases hs : selectedIters ixs fr.rows with
      | none => simp [apply, hs]
      | some sel => simp [apply, hs]
    | rank rs => simp [rowPred] at hrp; split at hrp <;> simp at hrp
    | name ht m => simp [rowPred] at hrp; split at hrp <;> (try split at hrp) <;> simp at hrp
    | cpu ht => simp [rowPred] at hrp; split at hrp <;> simp at hrp
    | memcopy ty it => simp [rowPred] at hrp; split at hrp <;> simp at hrp
    | iteration its => simp [rowPred] at hrp
    | timeRange a b => simp [rowPred] at hrp
    | gpu ht => simp [rowPred] at hrp

/-- The position-based iteration filter selects the rows whose iteration stands at one of the
requested positions among the iterations present (a leading -1 is not counted). -/
theorem C18_iterIndex_rule (ixs : List Nat) (fr : Frame) (sel : List Int)
    (h : selectedIters ixs fr.rows = some sel) :
    (apply (.iterIndex ixs) fr).rows = fr.rows.filter fun r => sel.contains r.iter := by
  simp [apply, h]

/-- A composite filter equals applying its members in sequence. -/
theorem C18_composite_sequential (fs gs : List Flt) (fr : Frame) :
    applyAll (fs ++ gs) fr = applyAll gs (applyAll fs fr) := by
  simp [applyAll, List.foldl_append]

theorem C18_composite_single (f : Flt) (fr : Frame) : applyAll [f] fr = apply f fr := rfl

/-- Two row-local filters: the result is the intersection of their selections, in either order. -/
theorem C18_rowlocal_comm (f g : Flt) (fr : Frame) (p q : FRow → Bool)
    (hp : rowPred fr f = some p) (hq : rowPred fr g = some q) :
    (apply g (apply f fr)).rows = fr.rows.filter (fun r => p r && q r) ∧
    (apply f (apply g fr)).rows = fr.rows.filter (fun r => p r && q r) := by
  obtain ⟨f1, f2, f3⟩ := C18_rowlocal_exact f fr p hp
  obtain ⟨g1, g2, g3⟩ := C18_rowlocal_exact g fr q hq
  have hq' : rowPred (apply f fr) g = some q := by rw [rowPred_congr _ fr f2 f3]; exact hq
  have hp' : rowPred (apply g fr) f = some p := by rw [rowPred_congr _ fr g2 g3]; exact hp
  constructor
  · rw [(C18_rowlocal_exact g _ q hq').1, f1, List.filter_filter]
    congr 1; funext r; exact Bool.and_comm _ _
  · rw [(C18_rowlocal_exact f _ p hp').1, g1, List.filter_filter]

/-- Applying a row-local filter twice equals applying it once. -/
theorem C18_rowlocal_idem (f : Flt) (fr : Frame) (p : FRow → Bool) (hp : rowPred fr f = some p) :
    (apply f (apply f fr)).rows = (apply f fr).rows := by
  obtain ⟨h1, _⟩ := C18_rowlocal_comm f f fr p p hp hp
  rw [h1, (C18_rowlocal_exact f fr p hp).1]
  congr 1; funext r; cases p r <;> rfl

/-- The restriction to row-local members is necessary: the position-based iteration filter is
not idempotent (iterations 5,6,7 present; position 1 selects 6; applied again, position 1 no
longer exists). -/
theorem C18_iterIndex_not_idempotent :
    ∃ fr : Frame, (apply (.iterIndex [1]) (apply (.iterIndex [1]) fr)).rows ≠ (apply (.iterIndex [1]) fr).rows := by
  refine ⟨{ rows := [⟨0, 0, 1, -1, -1, 5, 0, "a", "c", ""⟩, ⟨1, 1, 1, -1, -1, 6, 0, "a", "c", ""⟩,
                     ⟨2, 2, 1, -1, -1, 7, 0, "a", "c", ""⟩], hasRank := false, decoded := false }, ?_⟩
  decide

def exFrame : Frame := { rows := [⟨0, 0, 10, -1, -1, 1, 0, "aten::add", "cpu_op", ""⟩, ⟨1, 2, 3, 7, 5, 1, 0, "k", "kernel", ""⟩,
                                   ⟨2, 12, 4, -1, -1, 2, 0, "aten::mm", "cpu_op", ""⟩], hasRank := false, decoded := false }
/-- Non-vacuity: a time-range filter and a device-side filter are row-local on a concrete frame, select
different non-empty sets, and their composition in either order is the intersection. -/
example : (rowPred exFrame (.timeRange 0 10)).isSome = true ∧ (rowPred exFrame (.gpu false)).isSome = true ∧
    ((apply (.timeRange 0 10) exFrame).rows.map (·.idx)) = [0, 1] ∧ ((apply (.gpu false) exFrame).rows.map (·.idx)) = [1] ∧
    (apply (.gpu false) (apply (.timeRange 0 10) exFrame)).rows = (apply (.timeRange 0 10) (apply (.gpu false) exFrame)).rows := by
  decide

end Hta.C18
