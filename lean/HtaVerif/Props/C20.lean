import HtaVerif.Model.C20
/-!
# C20 — trace files written by the tool preserve every source event

List-level statements; JSON and gzip encodings are outside the model (trusted, exercised by
the correspondence run in both file formats).
-/
namespace Hta.C20

/-! ### trace with counters -/

/-- Every source event is at its position, unchanged; everything after them is what was appended. -/
theorem C20_counters_prefix (raw cs : List Nat) :
    (withCounters raw cs).take raw.length = raw ∧ (withCounters raw cs).drop raw.length = cs ∧
    ∀ i, i < raw.length → (withCounters raw cs)[i]? = raw[i]? := by
  unfold withCounters
  refine ⟨by simp, by simp, ?_⟩
  intro i hi
  exact List.getElem?_append_left hi

/-- Soundness of the checker evaluated on the implementation's output. -/
theorem checkAppendOnly_sound {src out : List Nat} {isC : List Bool} (h : checkAppendOnly src out isC = true) :
    ∃ cs, out = withCounters src cs ∧ ∀ j, src.length ≤ j → j < out.length → isC[j]? = some true := by
  unfold checkAppendOnly at h
  simp only [Bool.and_eq_true, decide_eq_true_eq, List.all_eq_true, id] at h
  obtain ⟨⟨⟨h1, h2⟩, h3⟩, h4⟩ := h
  refine ⟨out.drop src.length, ?_, ?_⟩
  · unfold withCounters
    conv => lhs; rw [← List.take_append_drop src.length out]
    rw [h1]
  · intro j hj hlt
    have hj' : j < isC.length := by omega
    have : isC[j] ∈ isC.drop src.length := by
      rw [List.mem_iff_getElem]
      refine ⟨j - src.length, by simp; omega, ?_⟩
      simp only [List.getElem_drop]
      congr 1; omega
    rw [List.getElem?_eq_getElem hj', h3 _ this]

/-! ### overlay: the source part -/

theorem mem_headFrom {crit : List Nat} {oc : Bool} {raw : List Src} {s : Nat} {o : Out} :
    o ∈ headFrom crit oc s raw ↔ ∃ k e, raw[k]? = some e ∧ keep crit oc (s + k) e = true ∧ o = Out.src (s + k) (isCrit crit (s + k)) := by
  induction raw generalizing s with
  | nil => simp [headFrom]
  | cons e es ih =>
    simp only [headFrom]
    constructor
    · intro h
      by_cases hk : keep crit oc s e = true
      · rw [if_pos hk] at h
        rcases List.mem_cons.mp h with rfl | h'
        · exact ⟨0, e, by simp, by simpa using hk, by simp⟩
        · obtain ⟨k, e', hk', hkeep, rfl⟩ := ih.mp h'
          have e1 : s + 1 + k = s + (k + 1) := by omega
          rw [e1] at hkeep
          exact ⟨k + 1, e', by simpa using hk', hkeep, by rw [e1]⟩
      · rw [if_neg hk] at h
        obtain ⟨k, e', hk', hkeep, rfl⟩ := ih.mp h
        have e1 : s + 1 + k = s + (k + 1) := by omega
        rw [e1] at hkeep
        exact ⟨k + 1, e', by simpa using hk', hkeep, by rw [e1]⟩
    · rintro ⟨k, e', hk', hkeep, rfl⟩
      cases k with
      | zero =>
        simp at hk'; subst hk'
        simp only [Nat.add_zero] at hkeep ⊢
        rw [if_pos hkeep]; exact List.mem_cons_self
      | succ k =>
        have hk'' : es[k]? = some e' := by simpa using hk'
        have hmem : Out.src (s + (k + 1)) (isCrit crit (s + (k + 1))) ∈ headFrom crit oc (s + 1) es := by
          apply ih.mpr
          have e1 : s + 1 + k = s + (k + 1) := by omega
          exact ⟨k, e', hk'', by rw [e1]; exact hkeep, by rw [e1]⟩
        split
        · exact List.mem_cons_of_mem _ hmem
        · exact hmem

/-- An entry of the source part is a kept source position, carrying the mark iff critical. -/
theorem C20_head_mem (raw : List Src) (crit : List Nat) (oc : Bool) (o : Out) :
    o ∈ head raw crit oc ↔ ∃ i e, raw[i]? = some e ∧ keep crit oc i e = true ∧ o = Out.src i (isCrit crit i) := by
  unfold head
  rw [mem_headFrom]
  simp

def outIdx : Out → Nat
  | .src i _ => i
  | .flow .. => 0

theorem headFrom_idx_ge {crit : List Nat} {oc : Bool} {raw : List Src} {s : Nat} :
    ∀ o ∈ headFrom crit oc s raw, s ≤ outIdx o := by
  intro o ho
  obtain ⟨k, e, _, _, rfl⟩ := mem_headFrom.mp ho
  simp [outIdx]

/-- Order: kept source events appear in source order, none twice. -/
theorem C20_head_in_order (raw : List Src) (crit : List Nat) (oc : Bool) :
    (head raw crit oc).Pairwise fun a b => outIdx a < outIdx b := by
  unfold head
  generalize 0 = s
  induction raw generalizing s with
  | nil => simp [headFrom]
  | cons e es ih =>
    simp only [headFrom]
    split
    · apply List.pairwise_cons.mpr
      refine ⟨?_, ih (s + 1)⟩
      intro b hb
      have := headFrom_idx_ge b hb
      show s < outIdx b
      omega
    · exact ih (s + 1)

theorem headFrom_all_kept (crit : List Nat) (raw : List Src) (s : Nat) :
    headFrom crit false s raw = (List.range' s raw.length).map fun i => Out.src i (isCrit crit i) := by
  induction raw generalizing s with
  | nil => simp [headFrom]
  | cons e es ih =>
    simp only [headFrom, keep, Bool.not_false, Bool.true_or, if_true, List.length_cons, List.range'_succ, List.map_cons]
    rw [ih]

/-- With all events kept, the source part is exactly one entry per source position, in
order, marked iff the position is in the critical set: nothing lost, reordered or added. -/
theorem C20_overlay_all_kept (raw : List Src) (crit : List Nat) :
    head raw crit false = (List.range raw.length).map fun i => Out.src i (isCrit crit i) := by
  unfold head
  rw [headFrom_all_kept, List.range_eq_range']

/-- The marked entries are exactly the critical positions of the file. -/
theorem C20_marked_iff_critical (raw : List Src) (crit : List Nat) (oc : Bool) (i : Nat) :
    Out.src i true ∈ head raw crit oc ↔ i < raw.length ∧ i ∈ crit := by
  rw [C20_head_mem]
  constructor
  · rintro ⟨j, e, hj, _, ho⟩
    injection ho with h1 h2
    subst h1
    have hlt : i < raw.length := by
      rcases Nat.lt_or_ge i raw.length with h | h
      · exact h
      · rw [List.getElem?_eq_none h] at hj; cases hj
    refine ⟨hlt, ?_⟩
    unfold isCrit at h2
    simpa using h2.symm
  · rintro ⟨hlt, hc⟩
    have hcrit : isCrit crit i = true := by unfold isCrit; simpa using hc
    refine ⟨i, raw[i], List.getElem?_eq_getElem hlt, ?_, by rw [hcrit]⟩
    simp [keep, hcrit]

/-- With `only_show_critical_events` an event is dropped only if it is a complete event, is
not an annotation and is not critical; every critical event stays. -/
theorem C20_only_critical_rule (raw : List Src) (crit : List Nat) (i : Nat) (e : Src) (h : raw[i]? = some e) :
    (∃ m, Out.src i m ∈ head raw crit true) ↔ (e.isX = false ∨ e.keepCat = true ∨ i ∈ crit) := by
  constructor
  · rintro ⟨m, hm⟩
    obtain ⟨j, e', hj, hk, ho⟩ := (C20_head_mem _ _ _ _).mp hm
    injection ho with h1 _
    subst h1
    rw [h] at hj; cases hj
    simp only [keep, isCrit, Bool.not_true, Bool.false_or, Bool.or_eq_true, Bool.not_eq_true', List.contains_iff_mem] at hk
    rcases hk with (h1 | h1) | h1
    · exact Or.inl h1
    · exact Or.inr (Or.inl h1)
    · exact Or.inr (Or.inr (by simpa using h1))
  · intro hc
    refine ⟨isCrit crit i, (C20_head_mem _ _ _ _).mpr ⟨i, e, h, ?_, rfl⟩⟩
    simp only [keep, isCrit, Bool.not_true, Bool.false_or, Bool.or_eq_true, Bool.not_eq_true']
    rcases hc with h1 | h1 | h1
    · exact Or.inl (Or.inl h1)
    · exact Or.inl (Or.inr h1)
    · exact Or.inr (by simpa using h1)

/-! ### overlay: the flow events -/

theorem flowsFrom_length (raw : List Src) (k : Nat) (es : List Edge) :
    (flowsFrom raw k es).length = 2 * es.length := by
  induction es generalizing k with
  | nil => rfl
  | cons e es ih => simp [flowsFrom, flowPair, ih]; omega

/-- One pair of flow events per drawn edge: the j-th edge yields, at positions 2j and 2j+1, a
start and an end flow event with id j on the process and thread of the two events the edge
joins, at the times of the edge's two nodes. -/
theorem C20_flows_two_per_edge (raw : List Src) (k : Nat) (es : List Edge) (j : Nat) (e : Edge) (h : es[j]? = some e) :
    (flowsFrom raw k es)[2 * j]? = some (Out.flow (k + j) true (raw.getD e.srcEv dflt).pid (raw.getD e.srcEv dflt).tid
        (flowTs (raw.getD e.srcEv dflt) e.srcIsStart) e.type e.weight e.critical) ∧
    (flowsFrom raw k es)[2 * j + 1]? = some (Out.flow (k + j) false (raw.getD e.dstEv dflt).pid (raw.getD e.dstEv dflt).tid
        (flowTs (raw.getD e.dstEv dflt) e.dstIsStart) e.type e.weight e.critical) := by
  induction es generalizing k j with
  | nil => simp at h
  | cons e' es ih =>
    cases j with
    | zero =>
      simp at h; subst h
      simp [flowsFrom, flowPair]
    | succ j =>
      have h' : es[j]? = some e := by simpa using h
      obtain ⟨h1, h2⟩ := ih (k + 1) j h'
      simp only [flowsFrom, flowPair]
      constructor
      · have : 2 * (j + 1) = (2 * j) + 2 := by omega
        rw [this]
        simp only [List.cons_append, List.nil_append, List.getElem?_cons_succ]
        have e1 : k + 1 + j = k + (j + 1) := by omega
        rw [h1, e1]
      · have : 2 * (j + 1) + 1 = (2 * j + 1) + 2 := by omega
        rw [this]
        simp only [List.cons_append, List.nil_append, List.getElem?_cons_succ]
        have e1 : k + 1 + j = k + (j + 1) := by omega
        rw [h2, e1]

/-- Which edges are drawn. -/
theorem C20_drawn_rule (all critEdges : List Edge) (oc sa sz : Bool) (e : Edge) :
    e ∈ drawn all critEdges oc sa sz ↔
      if sa = true ∧ oc = false then (e ∈ all ∧ (sz = true ∨ zeroLaunch e = false)) else e ∈ critEdges := by
  unfold drawn
  cases sa <;> cases oc <;> cases sz <;> simp

/-- The overlay only appends: its source part comes first and contains no flow event, and
the rest consists of flow events only. -/
theorem C20_overlay_shape (raw : List Src) (crit : List Nat) (all ce : List Edge) (oc sa sz : Bool) :
    overlay raw crit all ce oc sa sz = head raw crit oc ++ flowsFrom raw 0 (drawn all ce oc sa sz) ∧
    (∀ o ∈ head raw crit oc, ∃ i m, o = Out.src i m) ∧
    (∀ o ∈ flowsFrom raw 0 (drawn all ce oc sa sz), ∃ id s p t ts c w cr, o = Out.flow id s p t ts c w cr) := by
  refine ⟨rfl, ?_, ?_⟩
  · intro o ho
    obtain ⟨i, _, _, _, rfl⟩ := (C20_head_mem _ _ _ _).mp ho
    exact ⟨i, _, rfl⟩
  · generalize drawn all ce oc sa sz = es
    generalize 0 = k
    intro o ho
    induction es generalizing k with
    | nil => simp [flowsFrom] at ho
    | cons e es ih =>
      simp only [flowsFrom, flowPair, List.cons_append, List.nil_append, List.mem_cons] at ho
      rcases ho with rfl | rfl | ho
      · exact ⟨_, _, _, _, _, _, _, _, rfl⟩
      · exact ⟨_, _, _, _, _, _, _, _, rfl⟩
      · exact ih _ ho

/-! ### rank update -/

theorem setKey_keys (d : Doc) (k : String) (v : Nat) :
    (setKey d k v).map (·.1) = if d.any (fun p => p.1 == k) then d.map (·.1) else d.map (·.1) ++ [k] := by
  unfold setKey
  split
  · rw [List.map_map]
    apply List.map_congr_left
    intro p _
    simp only [Function.comp]
    split <;> rfl
  · simp

theorem getKey_setKey_same (d : Doc) (k : String) (v : Nat) : getKey (setKey d k v) k = some v := by
  unfold getKey setKey
  split
  · rename_i h
    induction d with
    | nil => simp at h
    | cons p ps ih =>
      simp only [List.map_cons, List.find?_cons]
      by_cases hp : p.1 = k
      · simp [hp]
      · have hp' : (p.1 == k) = false := by simpa using hp
        simp only [hp']
        simp only [List.any_cons, hp', Bool.false_or] at h
        simp only [Bool.false_eq_true, if_false, hp']
        exact ih h
  · rename_i h
    have : d.find? (fun p => p.1 == k) = none := by
      apply List.find?_eq_none.mpr
      intro p hp hpk
      exact h (List.any_eq_true.mpr ⟨p, hp, hpk⟩)
    simp [List.find?_append, this]

theorem getKey_setKey_other (d : Doc) (k k' : String) (v : Nat) (hne : k' ≠ k) :
    getKey (setKey d k v) k' = getKey d k' := by
  unfold getKey setKey
  split
  · rename_i hany
    clear hany
    congr 1
    induction d with
    | nil => rfl
    | cons p ps ih =>
      simp only [List.map_cons, List.find?_cons]
      by_cases hp : p.1 = k
      · have h1 : (p.1 == k) = true := by simpa using hp
        have h2 : (p.1 == k') = false := by
          have : p.1 ≠ k' := fun h => hne (h ▸ hp)
          simpa using this
        simp only [h1, if_true, h2]
        exact ih
      · have h1 : (p.1 == k) = false := by simpa using hp
        simp only [h1, Bool.false_eq_true, if_false]
        by_cases hq : (p.1 == k') = true
        · simp [hq]
        · have hq' : (p.1 == k') = false := by simpa using hq
          simp only [hq']
          exact ih
  · have : ((k == k') = false) := by
      have : k ≠ k' := fun h => hne h.symm
      simpa using this
    simp [List.find?_append, this]

/-- The rank update sets the rank and nothing else: every other field of the metadata object
keeps its value, and the field order is kept (a missing rank is appended). -/
theorem C20_update_rank_only_rank (di : Option Doc) (r : Nat) :
    getKey (setRank di r) "rank" = some r ∧
    ∀ d, di = some d → (∀ k', k' ≠ "rank" → getKey (setRank di r) k' = getKey d k') ∧
      ((setRank di r).map (·.1) = if d.any (fun p => p.1 == "rank") then d.map (·.1) else d.map (·.1) ++ ["rank"]) := by
  constructor
  · cases di with
    | none => simp [setRank, getKey]
    | some d => exact getKey_setKey_same d "rank" r
  · rintro d rfl
    exact ⟨fun k' hk => getKey_setKey_other d "rank" k' r hk, setKey_keys d "rank" r⟩

/-! ### non-vacuity -/

/-- three source events (host op critical and without device, a metadata record, a device
kernel that is not critical): only-critical drops the kernel, the flows sit on the two events -/
example : overlay [⟨true, false, 1, 2, 10, 5, false⟩, ⟨false, false, 0, 0, 0, 0, false⟩, ⟨true, false, 0, 7, 12, 4, true⟩]
    [0] [⟨0, true, 0, false, 5, "critical_path_operator", true⟩, ⟨0, true, 2, true, 0, "critical_path_kernel_launch_delay", false⟩]
    [⟨0, true, 0, false, 5, "critical_path_operator", true⟩] true false false
  = [Out.src 0 true, Out.src 1 false,
     Out.flow 0 true 1 2 10 "critical_path_operator" 5 true, Out.flow 0 false 1 2 15 "critical_path_operator" 5 true] := by
  decide

example : checkAppendOnly [4, 5, 6] [4, 5, 6, 9, 9] [false, false, false, true, true] = true := by decide
example : checkAppendOnly [4, 5, 6] [4, 6, 5, 9] [false, false, false, true] = false := by decide

end Hta.C20
