import HtaVerif.Model.C13
/-!
# C13 — call-graph attributes (depth, height, kernel totals) agree with the tree
-/
namespace Hta.C13

/-! ### kernel aggregates = fold over the device activities among the descendants -/

mutual
  /-- `(ts, dur)` of the device activities in the subtree (the node itself when it is one). -/
  def T.gpuDesc : T → List (Int × Int)
    | .node _ gpu ts dur kids => if gpu then [(ts, dur)] else gpuDescL kids
  def gpuDescL : List T → List (Int × Int)
    | [] => []
    | t :: ts => T.gpuDesc t ++ gpuDescL ts
end

/-- count, summed duration, earliest start, latest end of a list of activities. -/
def foldInfo : List (Int × Int) → KInfo
  | [] => KInfo.zero
  | (ts, dur) :: rest => (⟨1, dur, some ts, some (ts + dur)⟩ : KInfo).add (foldInfo rest)

theorem optMin_assoc (a b c : Option Int) : optMin (optMin a b) c = optMin a (optMin b c) := by
  cases a <;> cases b <;> cases c <;> simp [optMin] <;> omega

theorem optMax_assoc (a b c : Option Int) : optMax (optMax a b) c = optMax a (optMax b c) := by
  cases a <;> cases b <;> cases c <;> simp [optMax] <;> omega

theorem add_assoc (a b c : KInfo) : (a.add b).add c = a.add (b.add c) := by
  simp [KInfo.add, optMin_assoc, optMax_assoc, Nat.add_assoc, Int.add_assoc]

theorem zero_add (a : KInfo) : KInfo.zero.add a = a := by
  cases a; simp [KInfo.add, KInfo.zero, optMin, optMax]

theorem foldInfo_append (a b : List (Int × Int)) :
    foldInfo (a ++ b) = (foldInfo a).add (foldInfo b) := by
  induction a with
  | nil => simp [foldInfo, zero_add]
  | cons x xs ih =>
    obtain ⟨ts, dur⟩ := x
    simp only [List.cons_append, foldInfo, ih, add_assoc]

mutual
  /-- The DFS aggregate of a node equals the aggregate over the device activities among its
  descendants. -/
  theorem C13_kinfo_is_fold_over_descendants : ∀ t : T, t.kinfo = foldInfo t.gpuDesc
    | .node i gpu ts dur kids => by
      unfold T.kinfo T.gpuDesc
      split
      · simp [foldInfo, KInfo.add, KInfo.zero, optMin, optMax]
      · exact kinfoL_is_fold kids
  theorem kinfoL_is_fold : ∀ l : List T, kinfoL l = foldInfo (gpuDescL l)
    | [] => by simp [kinfoL, gpuDescL, foldInfo]
    | t :: ts => by
      unfold kinfoL gpuDescL
      rw [foldInfo_append, C13_kinfo_is_fold_over_descendants t, kinfoL_is_fold ts]
end

theorem foldInfo_count (l : List (Int × Int)) : (foldInfo l).count = l.length := by
  induction l with
  | nil => rfl
  | cons x xs ih => obtain ⟨a, b⟩ := x; simp [foldInfo, KInfo.add, ih]; omega

def sumDur : List (Int × Int) → Int
  | [] => 0
  | x :: xs => x.2 + sumDur xs

theorem foldInfo_sum (l : List (Int × Int)) : (foldInfo l).sum = sumDur l := by
  induction l with
  | nil => rfl
  | cons x xs ih => obtain ⟨a, b⟩ := x; simp [foldInfo, KInfo.add, sumDur, ih]

/-- earliest start / latest end are attained and bound every activity. -/
theorem foldInfo_first_last (l : List (Int × Int)) (hne : l ≠ []) :
    ∃ f e, (foldInfo l).first = some f ∧ (foldInfo l).last = some e ∧
      (∀ x ∈ l, f ≤ x.1 ∧ x.1 + x.2 ≤ e) ∧ (∃ x ∈ l, x.1 = f) ∧ (∃ x ∈ l, x.1 + x.2 = e) := by
  induction l with
  | nil => exact absurd rfl hne
  | cons x xs ih =>
    obtain ⟨ts, dur⟩ := x
    cases xs with
    | nil =>
      refine ⟨ts, ts + dur, by simp [foldInfo, KInfo.add, KInfo.zero, optMin], by simp [foldInfo, KInfo.add, KInfo.zero, optMax], ?_, ?_, ?_⟩ <;> simp
    | cons y ys =>
      obtain ⟨f, e, hf, he, hall, hfa, hea⟩ := ih (by simp)
      refine ⟨min ts f, max (ts + dur) e, by simp only [foldInfo, KInfo.add] at hf ⊢; rw [hf]; rfl,
        by simp only [foldInfo, KInfo.add] at he ⊢; rw [he]; rfl, ?_, ?_, ?_⟩
      · intro z hz
        rcases List.mem_cons.mp hz with rfl | hz'
        · simp; omega
        · have := hall z hz'; omega
      · by_cases h : ts ≤ f
        · exact ⟨(ts, dur), List.mem_cons_self, by simp; omega⟩
        · obtain ⟨z, hz, hz1⟩ := hfa
          exact ⟨z, List.mem_cons_of_mem _ hz, by omega⟩
      · by_cases h : e ≤ ts + dur
        · exact ⟨(ts, dur), List.mem_cons_self, by simp; omega⟩
        · obtain ⟨z, hz, hz1⟩ := hea
          exact ⟨z, List.mem_cons_of_mem _ hz, by omega⟩

/-- The reported five numbers of a host event: `(0, 0, 0, -1, -1)` without device activities
beneath it, otherwise count / summed duration / span / earliest start / latest end. -/
theorem C13_kernel_attributes (t : T) :
    (t.gpuDesc = [] → normalize t.kinfo = (0, 0, 0, -1, -1)) ∧
    (t.gpuDesc ≠ [] → ∃ f e, normalize t.kinfo = ((t.gpuDesc.length : Int), sumDur t.gpuDesc, e - f, f, e) ∧
      (∀ x ∈ t.gpuDesc, f ≤ x.1 ∧ x.1 + x.2 ≤ e) ∧ (∃ x ∈ t.gpuDesc, x.1 = f) ∧
      (∃ x ∈ t.gpuDesc, x.1 + x.2 = e)) := by
  rw [C13_kinfo_is_fold_over_descendants]
  constructor
  · intro h; rw [h]; simp [foldInfo, normalize, KInfo.zero]
  · intro h
    obtain ⟨f, e, hf, he, hall, hfa, hea⟩ := foldInfo_first_last _ h
    refine ⟨f, e, ?_, hall, hfa, hea⟩
    have hc := foldInfo_count t.gpuDesc
    have hpos : t.gpuDesc.length ≠ 0 := by
      intro h0; exact h (List.length_eq_zero_iff.mp h0)
    simp [normalize, hc, hpos, foldInfo_sum, hf, he]

/-! ### height and depth -/

/-- Device activities have height 0; a host node's height is one more than its tallest
child's, and 1 when it has none. -/
theorem C13_height_rule (i : Int) (gpu : Bool) (ts dur : Int) (kids : List T) :
    (T.node i gpu ts dur kids).height = if gpu then 0 else max 1 (heightL kids) := by
  simp [T.height]

theorem heightL_spec (kids : List T) :
    (∀ k ∈ kids, k.height + 1 ≤ heightL kids) ∧ (kids ≠ [] → ∃ k ∈ kids, heightL kids = k.height + 1) := by
  induction kids with
  | nil => simp [heightL]
  | cons t ts ih =>
    constructor
    · intro k hk
      rcases List.mem_cons.mp hk with rfl | hk'
      · simp [heightL]; omega
      · have := ih.1 k hk'; simp [heightL]; omega
    · intro _
      by_cases hts : ts = []
      · subst hts; exact ⟨t, List.mem_cons_self, by simp [heightL]⟩
      · obtain ⟨k, hk, hke⟩ := ih.2 hts
        by_cases h : heightL ts ≤ t.height + 1
        · exact ⟨t, List.mem_cons_self, by simp [heightL]; omega⟩
        · exact ⟨k, List.mem_cons_of_mem _ hk, by simp [heightL]; omega⟩

theorem C13_childless_host_height (i : Int) (ts dur : Int) : (T.node i false ts dur []).height = 1 := by
  simp [T.height, heightL]

/-- A node's depth is its parent's depth plus one; first-layer nodes have depth 0. -/
theorem C13_depth_rule (nodes : List N) (fuel : Nat) (i : Int) (hi : 0 ≤ i) :
    depthOf nodes (fuel + 1) i =
      if parentOf nodes i < 0 then 0 else depthOf nodes fuel (parentOf nodes i) + 1 := by
  have : ¬ i < 0 := by omega
  simp [depthOf, this]

/-! ### linking -/

/-- Every device node added for a thread is a child of the host call it is linked to. -/
theorem C13_device_child_of_launch (rows : List Row) (nodes : List N) (t : Int × Int) :
    ∀ n ∈ addThread rows nodes t, n.gpu = true → n ∈ nodes ∨ (n.idx, n.parent) ∈ gpuEdges rows := by
  simp only [addThread]
  split
  · intro n hn _; exact Or.inl hn
  · generalize hbase : (if hasNode nodes (rootOf t.2) then nodes else nodes ++ [⟨rootOf t.2, -1, false⟩]) = base
    have hbase' : ∀ n ∈ base, n.gpu = true → n ∈ nodes := by
      intro n hn hg
      rw [← hbase] at hn
      split at hn
      · exact hn
      · rcases List.mem_append.mp hn with h | h
        · exact h
        · simp at h; subst h; simp at hg
    -- the fold only appends device nodes that come from gpuEdges
    have key : ∀ (es : List (Int × Int)) (acc : List N), (∀ e ∈ es, e ∈ gpuEdges rows) →
        (∀ n ∈ acc, n.gpu = true → n ∈ nodes ∨ (n.idx, n.parent) ∈ gpuEdges rows) →
        ∀ n ∈ es.foldl (fun acc e =>
          if (List.map (fun x => x.idx) (threadRows rows t)).contains e.2 && !hasNode acc e.1 then
            (if hasNode acc e.2 then acc else acc ++ [⟨e.2, rootOf t.2, false⟩]) ++ [⟨e.1, e.2, true⟩]
          else acc) acc, n.gpu = true → n ∈ nodes ∨ (n.idx, n.parent) ∈ gpuEdges rows := by
      intro es
      induction es with
      | nil => intro acc _ h; simpa using h
      | cons e es ih =>
        intro acc hes hacc
        simp only [List.foldl_cons]
        apply ih _ (fun x hx => hes x (List.mem_cons_of_mem _ hx))
        intro n hn hg
        split at hn
        · rcases List.mem_append.mp hn with h | h
          · split at h
            · exact hacc n h hg
            · rcases List.mem_append.mp h with h' | h'
              · exact hacc n h' hg
              · simp at h'; subst h'; simp at hg
          · simp at h; subst h
            exact Or.inr (hes e List.mem_cons_self)
        · exact hacc n hn hg
    apply key _ _ (fun e he => he)
    intro n hn hg
    rcases List.mem_append.mp hn with h | h
    · exact Or.inl (hbase' n h hg)
    · obtain ⟨e, _, rfl⟩ := List.mem_map.mp h
      simp at hg

/-- Re-parenting only moves first-layer nodes of the backward stack that lie within the new
parent's span, and moves them beneath that parent; everything else is untouched. -/
theorem C13_reparent_rule (rows : List Row) (bwdRoot : Int) (nodes : List N) (newParent : Int) :
    ∀ n ∈ reparent rows bwdRoot nodes newParent, ∃ n0 ∈ nodes, n.idx = n0.idx ∧ n.gpu = n0.gpu ∧
      (n.parent = n0.parent ∨
        (n.parent = newParent ∧ n0.idx ∈ childrenOf nodes bwdRoot ∧
          ∃ p r, rows.find? (fun r => r.idx == newParent) = some p ∧
            rows.find? (fun r => r.idx == n0.idx) = some r ∧ r.ts ≥ p.ts ∧ r.ts + r.dur ≤ p.ts + p.dur)) := by
  intro n hn
  simp only [reparent] at hn
  split at hn
  · exact ⟨n, hn, rfl, rfl, Or.inl rfl⟩
  · split at hn
    · exact ⟨n, hn, rfl, rfl, Or.inl rfl⟩
    · rename_i p hp
      have hmem : n ∈ nodes.map fun n0 : N =>
          if ((((childrenOf nodes bwdRoot).filter fun i =>
            match rows.find? (fun r => r.idx == i) with
            | some r => decide (r.ts ≥ p.ts) && decide (r.ts + r.dur ≤ p.ts + p.dur)
            | none => false).filter fun i => !(childrenOf nodes newParent).contains i).contains n0.idx)
          then { n0 with parent := newParent } else n0 := by
        split at hn
        · exact (List.mem_filter.mp hn).1
        · exact hn
      obtain ⟨n0, hn0, rfl⟩ := List.mem_map.mp hmem
      refine ⟨n0, hn0, ?_⟩
      split
      · rename_i hval
        refine ⟨rfl, rfl, Or.inr ⟨rfl, ?_⟩⟩
        have h1 := List.mem_filter.mp (List.elem_iff.mp hval) |>.1
        have h2 := List.mem_filter.mp h1
        refine ⟨h2.1, p, ?_⟩
        cases hr : rows.find? (fun r => r.idx == n0.idx) with
        | none => simp [hr] at h2
        | some r =>
          have := h2.2
          simp [hr] at this
          exact ⟨r, hp, rfl, this.1, this.2⟩
      · exact ⟨rfl, rfl, Or.inl rfl⟩

/-- Non-vacuity: a launch call with one kernel below an operator: heights 2 / 1 / 0 and kernel totals. -/
example : (T.node 0 false 0 20 [T.node 1 false 2 3 [T.node 2 true 6 4 []]]).height = 2 ∧
    normalize (T.node 0 false 0 20 [T.node 1 false 2 3 [T.node 2 true 6 4 []]]).kinfo = (1, 4, 4, 6, 10) := by
  decide

end Hta.C13
