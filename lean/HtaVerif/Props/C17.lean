import HtaVerif.Model.C17
import HtaVerif.Proofs.C05
/-!
# C17 — trace diff counts and durations are exact; change classes partition the names
-/
namespace Hta.C17

/-- One row per name occurring in either trace, and no other rows. -/
theorem C17_rows_are_names (control test : List (String × Int)) :
    ((compare control test).map (·.name)).Nodup ∧
    ∀ n, n ∈ (compare control test).map (·.name) ↔ (n ∈ control.map (·.1) ∨ n ∈ test.map (·.1)) := by
  have hnames : (compare control test).map (·.name) = C05.distinct ((control ++ test).map (·.1)) := by
    simp [compare, mkRow, List.map_map, Function.comp_def]
  rw [hnames]
  refine ⟨C05.distinct_nodup _, ?_⟩
  intro n
  rw [C05.mem_distinct]
  simp [List.map_append]

/-- Counts and total durations are those of the matching events of each trace; differences
are test minus control. -/
theorem C17_row_values (control test : List (String × Int)) (r : DiffRow) (hr : r ∈ compare control test) :
    r.controlCount = (control.filter fun e => e.1 == r.name).length ∧
    r.testCount = (test.filter fun e => e.1 == r.name).length ∧
    r.controlDur = C05.sumL ((control.filter fun e => e.1 == r.name).map (·.2)) ∧
    r.testDur = C05.sumL ((test.filter fun e => e.1 == r.name).map (·.2)) ∧
    r.diffCount = (r.testCount : Int) - (r.controlCount : Int) ∧
    r.diffDur = r.testDur - r.controlDur := by
  obtain ⟨n, _, rfl⟩ := List.mem_map.mp hr
  simp [mkRow, summaryOf, C05.dursOf]

/-- Every row has a positive count on at least one side. -/
theorem row_count_pos (control test : List (String × Int)) (r : DiffRow) (hr : r ∈ compare control test) :
    r.controlCount + r.testCount > 0 := by
  obtain ⟨n, hn, rfl⟩ := List.mem_map.mp hr
  have hn' := C05.mem_distinct.mp hn
  simp only [List.map_append, List.mem_append, List.mem_map] at hn'
  simp only [mkRow, summaryOf, C05.dursOf, List.length_map]
  rcases hn' with ⟨e, he, rfl⟩ | ⟨e, he, rfl⟩
  · have : 0 < (control.filter fun k => k.1 == e.1).length :=
      List.length_pos_of_mem (List.mem_filter.mpr ⟨he, by simp⟩)
    omega
  · have : 0 < (test.filter fun k => k.1 == e.1).length :=
      List.length_pos_of_mem (List.mem_filter.mpr ⟨he, by simp⟩)
    omega

/-- The five change classes are pairwise disjoint and together contain every name. -/
theorem C17_classes_partition (control test : List (String × Int)) (r : DiffRow)
    (hr : r ∈ compare control test) :
    ([isAdded r, isDeleted r, isIncreased r, isDecreased r, isUnchanged r].filter id).length = 1 := by
  have hpos := row_count_pos control test r hr
  have hd := (C17_row_values control test r hr).2.2.2.2.1
  simp only [isAdded, isDeleted, isIncreased, isDecreased, isUnchanged, hd]
  generalize r.controlCount = c at *
  generalize r.testCount = t at *
  by_cases h1 : c = 0
  · subst h1
    have : t > 0 := by omega
    have h2 : ¬ ((t : Int) - (0 : Nat) < 0) := by omega
    have h3 : ¬ ((t : Int) - (0 : Nat) = 0) := by omega
    have h4 : t ≠ 0 := by omega
    simp [this, h2, h3, h4]
  · by_cases h2 : t = 0
    · subst h2
      have : c > 0 := by omega
      simp [this, h1]
    · have hc : c > 0 := by omega
      have ht : t > 0 := by omega
      rcases Nat.lt_trichotomy c t with h | h | h
      · have a1 : (t : Int) - (c : Int) > 0 := by omega
        have a2 : ¬ ((t : Int) - (c : Int) < 0) := by omega
        have a3 : ¬ ((t : Int) - (c : Int) = 0) := by omega
        have b1 : decide (c < t) = true := by simpa using h
        have b3 : ((t : Int) - (c : Int) == 0) = false := by simpa using a3
        simp [hc, ht, h1, h2, a1, a2, a3, b1, b3]
      · subst h
        simp [hc, h1]
      · have a1 : ¬ ((t : Int) - (c : Int) > 0) := by omega
        have a2 : ((t : Int) - (c : Int) < 0) := by omega
        have a3 : ¬ ((t : Int) - (c : Int) = 0) := by omega
        have b1 : decide (c < t) = false := by simp; omega
        have b3 : ((t : Int) - (c : Int) == 0) = false := by simpa using a3
        simp [hc, ht, h1, h2, a1, a2, a3, b1, b3]

/-- Comparing a trace with itself yields only unchanged names and zero differences. -/
theorem C17_self_diff (evs : List (String × Int)) (r : DiffRow) (hr : r ∈ compare evs evs) :
    isUnchanged r = true ∧ r.diffCount = 0 ∧ r.diffDur = 0 ∧
    isAdded r = false ∧ isDeleted r = false ∧ isIncreased r = false ∧ isDecreased r = false := by
  have hpos := row_count_pos evs evs r hr
  obtain ⟨n, _, rfl⟩ := List.mem_map.mp hr
  simp only [mkRow, summaryOf] at hpos ⊢
  simp only [isAdded, isDeleted, isIncreased, isDecreased, isUnchanged]
  generalize (C05.dursOf evs n).length = k at *
  have hk : k > 0 := by omega
  have hk' : k ≠ 0 := by omega
  simp [hk, hk']

/-- Selection is a pure filter: exactly the rows of the requested iterations and device side. -/
theorem C17_extract_exact (iterations : List Int) (dev : Device) (rows : List Row) (r : Row) :
    r ∈ extractOps iterations dev rows ↔
      r ∈ rows ∧ r.iter ∈ iterations ∧
        (match dev with | .cpu => r.stream = -1 | .gpu => r.stream ≠ -1 | .all => True) := by
  unfold extractOps
  cases dev <;> simp [List.mem_filter] <;> intro _ <;> exact And.comm

example : shortenName "void at::native::vectorized_elementwise_kernel<4, at::native::AddFunctor<float> >(int, float)"
    = "at::native::vectorized_elementwise_kernel" := by decide
example : shortenName "Memcpy DtoH (Device -> Pageable)" = "Memcpy DtoH (Device -> Pageable)" := by decide
example : (compare [("a", 3), ("a", 4), ("b", 1)] [("a", 5), ("c", 2)]).map
    (fun r => (r.name, r.controlCount, r.testCount, r.diffCount, r.diffDur))
    = [("a", 2, 1, -1, -2), ("b", 1, 0, -1, -1), ("c", 0, 1, 1, 2)] := by decide

end Hta.C17
