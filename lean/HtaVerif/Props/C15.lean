import HtaVerif.Spec.C15
import HtaVerif.Proofs.ListLemmas
/-!
# C15 — launch statistics list every launch/activity pair with exact durations and delay
-/
namespace Hta.C15

theorem C15_rows_exact (withMem : Bool) (rows : List Row) (wf : WF withMem rows) :
    Holds withMem rows (run withMem rows) := by
  refine ⟨?_, ?_, ?_⟩
  · -- completeness
    rintro h d ⟨hh, hd, hs, hds, hc, hsel⟩
    simp only [run, List.mem_flatMap, List.mem_map, List.mem_filter]
    have hm : ((rows.filter fun r => selected withMem r.name).map (·.corr)).contains h.corr = true := by
      simp only [List.contains_eq_mem, List.mem_map, List.mem_filter, decide_eq_true_eq]
      exact ⟨h, ⟨hh, hsel⟩, rfl⟩
    refine ⟨h, ⟨hh, ?_⟩, d, ⟨⟨hd, ?_⟩, ?_⟩, rfl⟩
    · rw [hm]; simp [hs]
    · rw [hc, hm]; simp [hds]
    · simp [hc]
  · -- soundness
    intro o ho
    simp only [run, List.mem_flatMap, List.mem_map, List.mem_filter] at ho
    obtain ⟨h, ⟨hh, hh2⟩, d, ⟨⟨hd, hd2⟩, hc⟩, rfl⟩ := ho
    simp only [Bool.and_eq_true, beq_iff_eq, bne_iff_ne, ne_eq, List.contains_eq_mem, List.mem_map,
      List.mem_filter, decide_eq_true_eq] at hh2 hd2 hc
    obtain ⟨hs, l, ⟨hl, hlsel⟩, hlc⟩ := hh2
    -- the selected row `l` with h's correlation is a host row, hence equals h's correlation partner
    have hls := wf.launchesOnHost l hl hlsel
    have hsel : selected withMem h.name = true := by
      -- h and l are host rows with the same correlation: by hostNodup they are the same row
      have hnd := wf.hostNodup
      have hmem_h : h ∈ rows.filter fun r => r.stream == -1 := List.mem_filter.mpr ⟨hh, by simp [hs]⟩
      have hmem_l : l ∈ rows.filter fun r => r.stream == -1 := List.mem_filter.mpr ⟨hl, by simp [hls]⟩
      have : l = h := by
        exact nodup_map_inj hnd hmem_l hmem_h hlc
      rw [← this]; exact hlsel
    exact ⟨h, d, ⟨hh, hd, hs, hd2.1, hc, hsel⟩, rfl⟩
  · -- one row per pair
    simp only [run, List.map_flatMap, List.map_map]
    rw [List.Nodup, List.pairwise_flatMap]
    constructor
    · intro h _
      have hcongr : ∀ l : List Row, (∀ d ∈ l, d.corr = h.corr) →
          l.map ((fun o : Out => o.corr) ∘ fun d => mkOut h d) = l.map (·.corr) := by
        intro l hl
        apply List.map_congr_left
        intro d hd; simp [mkOut, hl d hd]
      rw [hcongr _ (fun d hd => by simpa using (List.mem_filter.mp hd).2)]
      rw [List.filter_filter]
      have : (fun a : Row => (a.corr == h.corr) && (a.stream != -1 &&
          ((rows.filter fun r => selected withMem r.name).map (·.corr)).contains a.corr))
          = fun a => ((a.corr == h.corr) &&
          ((rows.filter fun r => selected withMem r.name).map (·.corr)).contains a.corr) && (a.stream != -1) := by
        funext a; cases (a.corr == h.corr) <;> cases (a.stream != -1) <;> simp
      rw [this, ← List.filter_filter]
      exact nodup_map_filter _ wf.devNodup
    · have hcpu : (((rows.filter fun r => r.stream == -1).filter fun r =>
          ((rows.filter fun r => selected withMem r.name).map (·.corr)).contains r.corr).map (·.corr)).Nodup :=
        nodup_map_filter _ wf.hostNodup
      rw [List.filter_filter] at hcpu
      have hfun : (fun a : Row => ((rows.filter fun r => selected withMem r.name).map (·.corr)).contains a.corr
          && (a.stream == -1)) = fun r => r.stream == -1 &&
          ((rows.filter fun r => selected withMem r.name).map (·.corr)).contains r.corr := by
        funext a; exact Bool.and_comm _ _
      rw [hfun] at hcpu
      rw [List.Nodup, List.pairwise_map] at hcpu
      apply hcpu.imp
      intro a b hab x hx y hy
      simp only [List.mem_map, List.mem_filter, Function.comp] at hx hy
      obtain ⟨_, _, rfl⟩ := hx
      obtain ⟨_, _, rfl⟩ := hy
      simpa [mkOut] using hab

/-- Non-vacuity: a two-pair trace (one kernel launch, one memcpy launch) satisfies `WF`. -/
example :
    run true [⟨0, 0, 5, 1, 1, -1, -1, -1, -1, "aten::add", "cpu_op"⟩,
              ⟨1, 1, 2, 1, 1, -1, 7, 3, -1, "cudaLaunchKernel", "cuda_runtime"⟩,
              ⟨2, 3, 1, 1, 1, -1, 8, 4, -1, "cudaMemcpyAsync", "cuda_runtime"⟩,
              ⟨3, 2, 9, 0, 7, 7, 7, 1, -1, "k", "kernel"⟩,
              ⟨4, 20, 4, 0, 7, 7, 8, 2, -1, "Memcpy DtoH", "gpu_memcpy"⟩]
      = [⟨7, 2, 9, 0⟩, ⟨8, 1, 4, 16⟩] := by decide

end Hta.C15
