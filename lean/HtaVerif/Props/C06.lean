import HtaVerif.Proofs.Interval
import HtaVerif.Spec.C06
/-!
# C06 — idle-time breakdown: gaps between stream-consecutive kernels, classified by rule

`s` is the stream's kernel list in **any** order that `sort_values(by=["ts","dur"])` may
return (`SortedK s`).
-/
namespace Hta.C06

theorem noOverlap_perm {a b : List K} (h : a.Perm b) : NoOverlap a ↔ NoOverlap b :=
  h.pairwise_iff (fun {x y} hxy => by
    rcases hxy with h1 | h1
    · exact Or.inr h1
    · exact Or.inl h1)

/-- In stream order every earlier kernel ends no later than every later kernel starts: the
consecutive kernels of the sorted list are the consecutive kernels of the stream, and each
gap is a genuine idle interval. -/
theorem C06_stream_order {s : List K} (hno : NoOverlap s) (hs : SortedK s)
    (hnn : ∀ k ∈ s, 0 ≤ k.dur) : s.Pairwise fun a b => a.fin ≤ b.ts := by
  have := hno.and hs
  refine (List.Pairwise.and_mem.mp this).imp ?_
  rintro a b ⟨ha, hb, hor, hle⟩
  have hda := hnn a ha
  have hdb := hnn b hb
  unfold kLe at hle
  unfold K.fin at *
  simp only [Bool.or_eq_true, Bool.and_eq_true, decide_eq_true_eq] at hle
  omega

theorem sumGaps_gapsFrom (delay : Int) (ks : List K) : ∀ prevEnd : Int,
    sumGaps (gapsFrom delay prevEnd ks) = lastFin prevEnd ks - prevEnd - sumDur ks := by
  induction ks with
  | nil => intro p; simp [gapsFrom, sumGaps, lastFin, sumDur]
  | cons k ks ih =>
    intro p
    simp only [gapsFrom, sumGaps, lastFin, sumDur]
    rw [ih k.fin]
    simp only [K.fin]
    omega

/-- The gaps of a stream add up to its span minus its busy time. -/
theorem C06_idle_telescopes (delay : Int) (k : K) (ks : List K) :
    sumGaps (gaps delay (k :: ks)) = (lastFin k.fin ks - k.ts) - sumDur (k :: ks) := by
  simp only [gaps, sumGaps_gapsFrom, sumDur, K.fin]
  omega

/-- The three categories partition the gaps: the reported idle times add up to the total. -/
theorem C06_categories_partition (g : List (Int × Cat)) :
    sumCat .hostWait g + sumCat .kernelWait g + sumCat .other g = sumGaps g := by
  induction g with
  | nil => rfl
  | cons x xs ih =>
    obtain ⟨v, c⟩ := x
    simp only [sumCat, sumGaps]
    cases c <;> simp +decide <;> omega

theorem C06_analyze_total (delay : Int) (k : K) (ks : List K) :
    let o := analyze delay (k :: ks)
    o.hostWait + o.kernelWait + o.other = (lastFin k.fin ks - k.ts) - sumDur (k :: ks) := by
  simp only [analyze]
  rw [C06_categories_partition, C06_idle_telescopes]

/-- Every gap is classified by the documented rule, with the end of the *preceding* kernel. -/
theorem C06_classify_rule (delay prevEnd : Int) (k : K) :
    (catOf delay prevEnd k = .hostWait ↔ ∃ l, k.launchTs = some l ∧ l > prevEnd) ∧
    (catOf delay prevEnd k = .kernelWait ↔
      (¬ ∃ l, k.launchTs = some l ∧ l > prevEnd) ∧ k.ts - prevEnd < delay) ∧
    (catOf delay prevEnd k = .other ↔
      (¬ ∃ l, k.launchTs = some l ∧ l > prevEnd) ∧ ¬ k.ts - prevEnd < delay) := by
  unfold catOf
  cases hk : k.launchTs with
  | none => by_cases h : k.ts - prevEnd < delay <;> simp [h]
  | some l =>
    by_cases h1 : l > prevEnd <;> by_cases h2 : k.ts - prevEnd < delay <;> simp [h1, h2]

/-- All gaps are non-negative when the kernels do not overlap. -/
theorem gapsFrom_nonneg (delay : Int) (ks : List K) : ∀ prevEnd : Int,
    (∀ k ∈ ks, prevEnd ≤ k.ts) → ks.Pairwise (fun a b => a.fin ≤ b.ts) →
    ∀ g ∈ gapsFrom delay prevEnd ks, 0 ≤ g.1 := by
  induction ks with
  | nil => intro p _ _ g hg; simp [gapsFrom] at hg
  | cons k ks ih =>
    intro p hp hpw g hg
    have hk := hp k List.mem_cons_self
    have hpw' := List.pairwise_cons.mp hpw
    simp only [gapsFrom, List.mem_cons] at hg
    rcases hg with rfl | hg
    · show 0 ≤ k.ts - p; omega
    · exact ih k.fin hpw'.1 hpw'.2 g hg

theorem C06_gaps_nonneg (delay : Int) {s : List K} (hno : NoOverlap s) (hs : SortedK s)
    (hnn : ∀ k ∈ s, 0 ≤ k.dur) : ∀ g ∈ gaps delay s, 0 ≤ g.1 := by
  have hord := C06_stream_order hno hs hnn
  cases s with
  | nil => intro g hg; simp [gaps] at hg
  | cons k ks =>
    have h := List.pairwise_cons.mp hord
    exact gapsFrom_nonneg delay ks k.fin h.1 h.2

/-- Non-vacuity: host_wait (launch at 12 after previous end 10), kernel_wait (gap 1 < 3),
other (gap 5), and a zero-length kernel sharing its start with its successor. -/
example : analyze 3
    [⟨0, 10, some 0⟩, ⟨15, 5, some 12⟩, ⟨21, 0, some 13⟩, ⟨21, 4, none⟩, ⟨30, 1, some 2⟩]
    = { hostWait := 5, kernelWait := 1, other := 5, hostPresent := true, kernelPresent := true } := by
  decide

end Hta.C06
