import HtaVerif.Model.C10
import HtaVerif.Proofs.C05
import HtaVerif.Proofs.C10Cover
/-!
# C10 — critical-path breakdown conserves the path weight and attributes it correctly
-/
namespace Hta.C10
open Hta.C08

theorem mapM_some_length {α β : Type} (f : α → Option β) :
    ∀ (l : List α) (out : List β), l.mapM f = some out → out.length = l.length
  | [], out, h => by simp at h; subst h; rfl
  | a :: l, out, h => by
    simp only [List.mapM_cons] at h
    cases hfa : f a with
    | none => simp [hfa] at h
    | some b =>
      cases hl : l.mapM f with
      | none => simp [hfa, hl] at h
      | some bs =>
        simp [hfa, hl] at h
        subst h
        simp [mapM_some_length f l bs hl]

/-- One breakdown row per critical edge, carrying that edge's weight, type and attribution. -/
theorem C10_rows_one_per_critical_edge (clipped : List Row) (g : G) (crit : List Edge) (out : List BRow)
    (h : breakdown clipped g crit = some out) :
    out.length = crit.length ∧
    out.map (fun r => (r.ev, r.dur, r.ty)) = crit.map (fun e => (attrOf g e, e.weight, e.ty)) := by
  refine ⟨mapM_some_length _ _ _ h, ?_⟩
  induction crit generalizing out with
  | nil => simp [breakdown] at h; subst h; rfl
  | cons e es ih =>
    simp only [breakdown, List.mapM_cons] at h
    cases hb : boundBy clipped e.ty (attrOf g e) with
    | none => simp [hb] at h
    | some b =>
      cases hl : es.mapM (fun e => (boundBy clipped e.ty (attrOf g e)).map fun b =>
          ({ ev := attrOf g e, dur := e.weight, ty := e.ty, boundBy := b } : BRow)) with
      | none => simp [hb, hl] at h
      | some rs =>
        simp [hb, hl] at h
        subst h
        simp only [List.map_cons]
        rw [ih rs hl]

def sumW : List Edge → Int
  | [] => 0
  | e :: es => e.weight + sumW es

/-- The durations add up to the total weight of the critical edges (the path's weight). -/
theorem C10_durations_sum_to_path_weight (clipped : List Row) (g : G) (crit : List Edge) (out : List BRow)
    (h : breakdown clipped g crit = some out) : totalDur out = sumW crit := by
  have := (C10_rows_one_per_critical_edge clipped g crit out h).2
  have h2 : out.map (·.dur) = crit.map (·.weight) := by
    have := congrArg (List.map fun x : Option Int × Int × ETy => x.2.1) this
    simpa [List.map_map, Function.comp_def] using this
  clear this h
  induction out generalizing crit with
  | nil => cases crit with
    | nil => rfl
    | cons _ _ => simp at h2
  | cons r rs ih => cases crit with
    | nil => simp at h2
    | cons e es =>
      simp only [List.map_cons, List.cons.injEq] at h2
      simp only [totalDur, sumW, h2.1, ih es h2.2]

/-- The bound-by class of delay, dependency and synchronisation edges follows from the type. -/
theorem C10_boundBy_delay (clipped : List Row) (ev : Option Int) :
    boundBy clipped .kk ev = some "gpu_kernel_kernel_overhead" ∧
    boundBy clipped .launch ev = some "gpu_kernel_launch_overhead" ∧
    boundBy clipped .dep ev = some "" ∧ boundBy clipped .sync ev = some "" := by
  simp [boundBy]

/-- A span edge is classified by the attributed event: host thread -> cpu_bound;
communication kernel -> gpu_communication_bound; any other device activity -> gpu_compute_bound. -/
theorem C10_boundBy_span (clipped : List Row) (ev : Option Int) (r : Row)
    (hr : ev.bind (findRow clipped) = some r) :
    boundBy clipped .op ev =
      some (if r.stream < 0 then "cpu_bound"
            else if isCommKernel (C17.shortenName r.name) then "gpu_communication_bound"
            else "gpu_compute_bound") := by
  simp only [boundBy, hr]
  split
  · rfl
  · split <;> rfl

theorem sumL_pairs (rows : List BRow) :
    C05.sumL ((rows.map fun r => (r.boundBy, r.dur)).map (·.2)) = totalDur rows := by
  induction rows with
  | nil => rfl
  | cons r rs ih => simp only [List.map_cons, C05.sumL, totalDur, ih]

/-- The per-class sums of the summary add up to the total duration, hence the percentages
(class sum / total * 100) add up to 100 whenever the total is non-zero. -/
theorem C10_class_sums_total (rows : List BRow) :
    C05.sumL ((classSums rows).map (·.2)) = totalDur rows := by
  have h := C05.group_sum_aux (rows.map fun r => (r.boundBy, r.dur))
    (C05.distinct (rows.map (·.boundBy))) (C05.distinct_nodup _)
    (fun k hk => by
      obtain ⟨r, hr, rfl⟩ := List.mem_map.mp hk
      exact C05.mem_distinct.mpr (List.mem_map.mpr ⟨r, hr, rfl⟩))
  rw [← sumL_pairs, ← h]
  simp [classSums, List.map_map, Function.comp_def]

theorem find_after_replace (src dst : NodeId) (v : Int) (l : List (NodeId × NodeId × Int)) :
    ((l.filter fun x => !(decide (x.1 = src) && decide (x.2.1 = dst))) ++ [(src, dst, v)]).find?
      (fun x => decide (x.1 = src) && decide (x.2.1 = dst)) = some (src, dst, v) := by
  rw [List.find?_append]
  have : (l.filter fun x => !(decide (x.1 = src) && decide (x.2.1 = dst))).find?
      (fun x => decide (x.1 = src) && decide (x.2.1 = dst)) = none := by
    apply List.find?_eq_none.mpr
    intro x hx hc
    have h := (List.mem_filter.mp hx).2
    rw [hc] at h
    simp at h
  rw [this]
  simp

/-- After `_attribute_edge`, an attributable edge (span or kernel-kernel) carries the event
chosen by the rule; other edge types are left without attribution. -/
theorem C10_attribution_recorded (g : G) (e : Edge) (p : Int) :
    ((e.ty = .op ∨ e.ty = .kk) → attrOf (attributeEdge g e p) e = some (attrEv e p)) ∧
    (e.ty ≠ .op → e.ty ≠ .kk → attributeEdge g e p = g) := by
  constructor
  · intro h
    have hc : (e.ty != .op && e.ty != .kk) = false := by
      rcases h with h | h <;> rw [h] <;> decide
    unfold attributeEdge attrOf
    rw [hc]
    simp only [Bool.false_eq_true, if_false]
    rw [find_after_replace]
    rfl
  · intro h1 h2
    unfold attributeEdge
    have : (e.ty != .op && e.ty != .kk) = true := by
      cases hty : e.ty <;> simp_all +decide
    rw [this]; rfl

/-- The attribution rule: a kernel-kernel delay goes to the kernel that precedes the gap; a
span edge to the source's event when the source is a start node, to the destination's event
when both are end nodes, and to the recorded parent otherwise. -/
theorem C10_attribution_rule (e : Edge) (p : Int) :
    (e.ty = .kk → attrEv e p = e.src.ev) ∧
    (e.ty = .op → e.src.isStart = true → attrEv e p = e.src.ev) ∧
    (e.ty = .op → e.src.isStart = false → e.dst.isStart = false → attrEv e p = e.dst.ev) ∧
    (e.ty = .op → e.src.isStart = false → e.dst.isStart = true → attrEv e p = p) := by
  unfold attrEv
  refine ⟨?_, ?_, ?_, ?_⟩
  · intro h; rw [h]; rfl
  · intro h hs; rw [h, hs]; rfl
  · intro h hs hd; rw [h, hs, hd]; rfl
  · intro h hs hd; rw [h, hs, hd]; rfl

def exRows : List Row := [
  { idx := 0, ts := 0, dur := 20, pid := 1, tid := 1, stream := -1, corr := -1, link := -1, name := "aten::add", cat := "cpu_op" },
  { idx := 1, ts := 2, dur := 3, pid := 1, tid := 1, stream := -1, corr := 5, link := 2, name := "cudaLaunchKernel", cat := "cuda_runtime" },
  { idx := 2, ts := 6, dur := 30, pid := 0, tid := 7, stream := 7, corr := 5, link := 1, name := "ncclKernel_AllReduce", cat := "kernel" }]
def exG : G := { edges := [⟨⟨1, true⟩, ⟨2, true⟩, 4, .launch⟩, ⟨⟨2, true⟩, ⟨2, false⟩, 30, .op⟩],
                 attr := [(⟨2, true⟩, ⟨2, false⟩, 2)] }
/-- Non-vacuity: a launch-delay edge and a communication kernel's span give a breakdown (the hypothesis
`breakdown … = some out` is met) with the two bound-by classes and durations adding up to 34. -/
example : (breakdown exRows exG exG.edges).map (fun out => (out.map (·.boundBy), totalDur out)) =
    some (["gpu_kernel_launch_overhead", "gpu_communication_bound"], 34) := by
  decide

/-! ### the attributed event covers the edge -/

/-- attribution of an edge with a different key is untouched by `_attribute_edge` -/
theorem attrOf_attributeEdge_other (g : G) (e0 e : Edge) (p : Int) (hne : ¬ (e.src = e0.src ∧ e.dst = e0.dst)) :
    attrOf (attributeEdge g e0 p) e = attrOf g e := by
  unfold attributeEdge
  split
  · rfl
  · unfold attrOf
    simp only []
    rw [List.find?_append]
    have hlast : ([(e0.src, e0.dst, attrEv e0 p)] : List (NodeId × NodeId × Int)).find?
        (fun x => decide (x.1 = e.src) && decide (x.2.1 = e.dst)) = none := by
      simp only [List.find?_cons, List.find?_nil]
      have : (decide (e0.src = e.src) && decide (e0.dst = e.dst)) = false := by
        apply Bool.eq_false_iff.mpr
        intro h
        simp only [Bool.and_eq_true, decide_eq_true_eq] at h
        exact hne ⟨h.1.symm, h.2.symm⟩
      rw [this]
    rw [hlast, Option.or_none]
    congr 1
    induction g.attr with
    | nil => rfl
    | cons x xs ih =>
      simp only [List.filter_cons]
      by_cases hx : (decide (x.1 = e.src) && decide (x.2.1 = e.dst)) = true
      · have hk : (!(decide (x.1 = e0.src) && decide (x.2.1 = e0.dst))) = true := by
          simp only [Bool.and_eq_true, decide_eq_true_eq] at hx
          simp only [Bool.not_eq_true', Bool.and_eq_false_iff, decide_eq_false_iff_not]
          by_cases h1 : x.1 = e0.src
          · right; intro h2; exact hne ⟨by rw [← hx.1, h1], by rw [← hx.2, h2]⟩
          · left; exact h1
        rw [hk]
        simp only [if_true, List.find?_cons, hx]
      · have hx' : (decide (x.1 = e.src) && decide (x.2.1 = e.dst)) = false := by simpa using hx
        split
        · simp only [List.find?_cons, hx']; exact ih
        · simp only [List.find?_cons, hx']; exact ih

/-- What `applyAll` maintains for every span edge of the graph: it is the edge of one of the
descriptors applied so far, and the attribution table holds the event the rule chose for it. -/
def AttrInv (rows : List Row) (ds : List Desc) (g : G) : Prop :=
  ∀ e ∈ g.edges, e.ty = .op → ∃ d ∈ ds, d.ty = .op ∧ e = mkEdge rows d.src d.dst d.ty d.zero ∧
    attrOf g e = some (attrEv e d.par)

theorem applyDesc_attrInv (rows : List Row) (ds : List Desc) (g : G) (d : Desc) (inv : AttrInv rows ds g) :
    AttrInv rows (ds ++ [d]) (applyDesc rows g d) := by
  intro e he hty
  unfold applyDesc at he ⊢
  simp only [] at he ⊢
  have hedges : (attributeEdge (addEdge g (mkEdge rows d.src d.dst d.ty d.zero)) (mkEdge rows d.src d.dst d.ty d.zero) d.par).edges
      = (addEdge g (mkEdge rows d.src d.dst d.ty d.zero)).edges := by
    unfold attributeEdge; split <;> rfl
  rw [hedges] at he
  unfold addEdge at he
  simp only [List.mem_append, List.mem_singleton, List.mem_filter] at he
  rcases he with ⟨heg, hk⟩ | rfl
  · obtain ⟨d0, hd0, hty0, he0, hat⟩ := inv e heg hty
    refine ⟨d0, List.mem_append_left _ hd0, hty0, he0, ?_⟩
    have hne : ¬ (e.src = (mkEdge rows d.src d.dst d.ty d.zero).src ∧ e.dst = (mkEdge rows d.src d.dst d.ty d.zero).dst) := by
      intro h
      simp only [Bool.not_eq_true', Bool.and_eq_false_iff, decide_eq_false_iff_not] at hk
      rcases hk with hk | hk
      · exact hk h.1
      · exact hk h.2
    have h1 := attrOf_attributeEdge_other (addEdge g (mkEdge rows d.src d.dst d.ty d.zero)) _ e d.par hne
    rw [h1]
    exact hat
  · have hd : d.ty = .op := by simpa [mkEdge] using hty
    refine ⟨d, by simp, hd, rfl, ?_⟩
    exact (C10_attribution_recorded _ _ d.par).1 (Or.inl hty)

theorem applyAll_attrInv (rows : List Row) (ds : List Desc) :
    ∀ (pre : List Desc) (g : G), AttrInv rows pre g → AttrInv rows (pre ++ ds) (applyAll rows g ds) := by
  induction ds with
  | nil => intro pre g inv; simpa [applyAll] using inv
  | cons d ds ih =>
    intro pre g inv
    have := ih (pre ++ [d]) _ (applyDesc_attrInv rows pre g d inv)
    simpa [applyAll, List.append_assoc] using this

/-- **Every span edge of the critical-path graph is attributed to an event whose span covers the
edge's time range.** For a window whose events have unique, non-negative ids and non-negative
durations and whose host threads are properly nested: each span (`op`) edge `e` of the built graph
has an entry in the attribution table, it is the event the four-case rule picks (`attrEv`), and —
unless the rule fell through to the root, −1 — that event starts no later than the edge's source
and ends no earlier than its destination. -/
theorem C10_span_attribution_covers (rows : List Row) (ws : Waits) (w : Int × Int) (zl : Bool)
    (hrows : ∀ r ∈ clip rows w, findRow rows r.idx = some r)
    (hdur : ∀ r ∈ clip rows w, 0 ≤ r.dur) (hidx : ∀ r ∈ clip rows w, 0 ≤ r.idx)
    (hwf : ∀ t ∈ C13.threadsOf (clip rows w), C03.WF ((C13.threadRows (clip rows w) t).map fun r => (⟨r.idx, r.ts, max r.dur 0⟩ : C03.Ev))) :
    ∀ e ∈ (build rows ws w zl).2.edges, e.ty = .op →
      ∃ a, attrOf (build rows ws w zl).2 e = some a ∧
        (0 ≤ a → tsOf rows ⟨a, true⟩ ≤ tsOf rows e.src ∧ tsOf rows e.dst ≤ tsOf rows ⟨a, false⟩) := by
  intro e he hty
  have inv := applyAll_attrInv rows (descs rows (clip rows w) ws zl) [] ⟨[], []⟩ (by intro e he; cases he)
  obtain ⟨d, hd, hdty, hed, hat⟩ := inv e he hty
  simp only [List.nil_append] at hd
  refine ⟨attrEv e d.par, hat, ?_⟩
  have hc := descs_cover rows ws w zl hrows hdur hidx hwf d hd hdty
  unfold CoverOK at hc
  simp only [] at hc
  rw [← hed] at hc
  have hs : e.src = d.src := by rw [hed]; rfl
  have hdst : e.dst = d.dst := by rw [hed]; rfl
  rw [hs, hdst]
  exact hc

/-- **Every span edge is attributed to an event of the same thread or stream.** Under the hypotheses
of `C10_span_attribution_covers`: the two nodes of a span edge and the event the edge is attributed to
(unless the rule fell through to the root, −1) are events of one `(pid, tid)` family of the window —
a host thread, or a device stream. -/
theorem C10_span_attribution_same_thread (rows : List Row) (ws : Waits) (w : Int × Int) (zl : Bool)
    (hrows : ∀ r ∈ clip rows w, findRow rows r.idx = some r)
    (hdur : ∀ r ∈ clip rows w, 0 ≤ r.dur) (hidx : ∀ r ∈ clip rows w, 0 ≤ r.idx)
    (hwf : ∀ t ∈ C13.threadsOf (clip rows w), C03.WF ((C13.threadRows (clip rows w) t).map fun r => (⟨r.idx, r.ts, max r.dur 0⟩ : C03.Ev))) :
    ∀ e ∈ (build rows ws w zl).2.edges, e.ty = .op →
      ∃ a, attrOf (build rows ws w zl).2 e = some a ∧ ∃ t,
        (∃ r ∈ C13.threadRows (clip rows w) t, r.idx = e.src.ev) ∧
        (∃ r ∈ C13.threadRows (clip rows w) t, r.idx = e.dst.ev) ∧
        (0 ≤ a → ∃ r ∈ C13.threadRows (clip rows w) t, r.idx = a) := by
  intro e he hty
  have inv := applyAll_attrInv rows (descs rows (clip rows w) ws zl) [] ⟨[], []⟩ (by intro e he; cases he)
  obtain ⟨d, hd, hdty, hed, hat⟩ := inv e he hty
  simp only [List.nil_append] at hd
  obtain ⟨t, h1, h2, h3⟩ := descs_fam rows ws w zl hrows hdur hidx hwf d hd hdty
  refine ⟨attrEv e d.par, hat, t, ?_, ?_, ?_⟩
  · rw [hed]; exact h1
  · rw [hed]; exact h2
  · rw [hed]; exact h3

/-- Non-vacuity of `C10_span_attribution_covers` / `C10_span_attribution_same_thread` (and of `C08_graph_forward`'s host-side hypotheses): an operator
that follows a sibling inside an annotation — the shape on which the tracked parent and the entered event's
parent differ. -/
def cvRows : List Row := [
  { idx := 0, ts := 0, dur := 20, pid := 1, tid := 1, stream := -1, corr := -1, link := -1, name := "aten::a", cat := "cpu_op" },
  { idx := 1, ts := 2, dur := 3, pid := 1, tid := 1, stream := -1, corr := -1, link := -1, name := "aten::b", cat := "cpu_op" },
  { idx := 2, ts := 6, dur := 12, pid := 1, tid := 1, stream := -1, corr := -1, link := -1, name := "## forward ##", cat := "user_annotation" },
  { idx := 3, ts := 8, dur := 4, pid := 1, tid := 1, stream := -1, corr := -1, link := -1, name := "aten::c", cat := "cpu_op" }]

theorem cvRows_clip : clip cvRows (0, 100) = cvRows := by
  unfold clip
  simp only []
  have hf : (cvRows.filter fun r =>
      if r.stream == -1 then inWindow (0, 100) r
      else (cvRows.any fun h => h.stream == -1 && h.link == r.idx && inWindow (0, 100) h) || r.name == "Stream Wait Event") = cvRows := by
    simp [cvRows, inWindow]
  rw [hf]
  apply List.mergeSort_of_pairwise
  decide

example :
    (∀ r ∈ clip cvRows (0, 100), findRow cvRows r.idx = some r) ∧
    (∀ r ∈ clip cvRows (0, 100), 0 ≤ r.dur) ∧ (∀ r ∈ clip cvRows (0, 100), 0 ≤ r.idx) ∧
    (∀ t ∈ C13.threadsOf (clip cvRows (0, 100)),
      C03.WF ((C13.threadRows (clip cvRows (0, 100)) t).map fun r => (⟨r.idx, r.ts, max r.dur 0⟩ : C03.Ev))) := by
  rw [cvRows_clip]
  refine ⟨?_, by decide, by decide, ?_⟩
  · intro r hr
    simp only [cvRows, List.mem_cons, List.not_mem_nil, or_false] at hr
    rcases hr with rfl | rfl | rfl | rfl <;> rfl
  · have : C13.threadsOf cvRows = [(1, 1)] := by decide
    rw [this]
    intro t ht
    simp only [List.mem_singleton] at ht
    subst ht
    exact ⟨by decide, by decide, by decide, by unfold C03.Nested C03.Ev.fin; decide⟩

end Hta.C10
