import HtaVerif.Model.C10
import HtaVerif.Proofs.C05
/-!
# C10 — critical-path breakdown conserves the path weight and attributes it correctly
-/
namespace Hta.C10
open Hta.C08

theorem mapM_some_length {α β : Type} (f : α → Option β) :
    ∀ (l : List α) (out : List β), l.mapM f = some out → out.length = l.length
  | [], out, h => by simp at h; subst h; rfl
  | a :: l, out, h => by
    simp only [List.mapM_cons] at h
    cases hfa : f a with
    | none => simp [hfa] at h
    | some b =>
      cases hl : l.mapM f with
      | none => simp [hfa, hl] at h
      | some bs =>
        simp [hfa, hl] at h
        subst h
        simp [mapM_some_length f l bs hl]

/-- One breakdown row per critical edge, carrying that edge's weight, type and attribution. -/
theorem C10_rows_one_per_critical_edge (clipped : List Row) (g : G) (crit : List Edge) (out : List BRow)
    (h : breakdown clipped g crit = some out) :
    out.length = crit.length ∧
    out.map (fun r => (r.ev, r.dur, r.ty)) = crit.map (fun e => (attrOf g e, e.weight, e.ty)) := by
  refine ⟨mapM_some_length _ _ _ h, ?_⟩
  induction crit generalizing out with
  | nil => simp [breakdown] at h; subst h; rfl
  | cons e es ih =>
    simp only [breakdown, List.mapM_cons] at h
    cases hb : boundBy clipped e.ty (attrOf g e) with
    | none => simp [hb] at h
    | some b =>
      cases hl : es.mapM (fun e => (boundBy clipped e.ty (attrOf g e)).map fun b =>
          ({ ev := attrOf g e, dur := e.weight, ty := e.ty, boundBy := b } : BRow)) with
      | none => simp [hb, hl] at h
      | some rs =>
        simp [hb, hl] at h
        subst h
        simp only [List.map_cons]
        rw [ih rs hl]

def sumW : List Edge → Int
  | [] => 0
  | e :: es => e.weight + sumW es

/-- The durations add up to the total weight of the critical edges (the path's weight). -/
theorem C10_durations_sum_to_path_weight (clipped : List Row) (g : G) (crit : List Edge) (out : List BRow)
    (h : breakdown clipped g crit = some out) : totalDur out = sumW crit := by
  have := (C10_rows_one_per_critical_edge clipped g crit out h).2
  have h2 : out.map (·.dur) = crit.map (·.weight) := by
    have := congrArg (List.map fun x : Option Int × Int × ETy => x.2.1) this
    simpa [List.map_map, Function.comp_def] using this
  clear this h
  induction out generalizing crit with
  | nil => cases crit with
    | nil => rfl
    | cons _ _ => simp at h2
  | cons r rs ih => cases crit with
    | nil => simp at h2
    | cons e es =>
      simp only [List.map_cons, List.cons.injEq] at h2
      simp only [totalDur, sumW, h2.1, ih es h2.2]

/-- The bound-by class of delay, dependency and synchronisation edges follows from the type. -/
theorem C10_boundBy_delay (clipped : List Row) (ev : Option Int) :
    boundBy clipped .kk ev = some "gpu_kernel_kernel_overhead" ∧
    boundBy clipped .launch ev = some "gpu_kernel_launch_overhead" ∧
    boundBy clipped .dep ev = some "" ∧ boundBy clipped .sync ev = some "" := by
  simp [boundBy]

/-- A span edge is classified by the attributed event: host thread -> cpu_bound;
communication kernel -> gpu_communication_bound; any other device activity -> gpu_compute_bound. -/
theorem C10_boundBy_span (clipped : List Row) (ev : Option Int) (r : Row)
    (hr : ev.bind (findRow clipped) = some r) :
    boundBy clipped .op ev =
      some (if r.stream < 0 then "cpu_bound"
            else if isCommKernel (C17.shortenName r.name) then "gpu_communication_bound"
            else "gpu_compute_bound") := by
  simp only [boundBy, hr]
  split
  · rfl
  · split <;> rfl

theorem sumL_pairs (rows : List BRow) :
    C05.sumL ((rows.map fun r => (r.boundBy, r.dur)).map (·.2)) = totalDur rows := by
  induction rows with
  | nil => rfl
  | cons r rs ih => simp only [List.map_cons, C05.sumL, totalDur, ih]

/-- The per-class sums of the summary add up to the total duration, hence the percentages
(class sum / total * 100) add up to 100 whenever the total is non-zero. -/
theorem C10_class_sums_total (rows : List BRow) :
    C05.sumL ((classSums rows).map (·.2)) = totalDur rows := by
  have h := C05.group_sum_aux (rows.map fun r => (r.boundBy, r.dur))
    (C05.distinct (rows.map (·.boundBy))) (C05.distinct_nodup _)
    (fun k hk => by
      obtain ⟨r, hr, rfl⟩ := List.mem_map.mp hk
      exact C05.mem_distinct.mpr (List.mem_map.mpr ⟨r, hr, rfl⟩))
  rw [← sumL_pairs, ← h]
  simp [classSums, List.map_map, Function.comp_def]

theorem find_after_replace (src dst : NodeId) (v : Int) (l : List (NodeId × NodeId × Int)) :
    ((l.filter fun x => !(decide (x.1 = src) && decide (x.2.1 = dst))) ++ [(src, dst, v)]).find?
      (fun x => decide (x.1 = src) && decide (x.2.1 = dst)) = some (src, dst, v) := by
  rw [List.find?_append]
  have : (l.filter fun x => !(decide (x.1 = src) && decide (x.2.1 = dst))).find?
      (fun x => decide (x.1 = src) && decide (x.2.1 = dst)) = none := by
    apply List.find?_eq_none.mpr
    intro x hx hc
    have h := (List.mem_filter.mp hx).2
    rw [hc] at h
    simp at h
  rw [this]
  simp

/-- After `_attribute_edge`, an attributable edge (span or kernel-kernel) carries the event
chosen by the rule; other edge types are left without attribution. -/
theorem C10_attribution_recorded (g : G) (e : Edge) (p : Int) :
    ((e.ty = .op ∨ e.ty = .kk) → attrOf (attributeEdge g e p) e = some (attrEv e p)) ∧
    (e.ty ≠ .op → e.ty ≠ .kk → attributeEdge g e p = g) := by
  constructor
  · intro h
    have hc : (e.ty != .op && e.ty != .kk) = false := by
      rcases h with h | h <;> rw [h] <;> decide
    unfold attributeEdge attrOf
    rw [hc]
    simp only [Bool.false_eq_true, if_false]
    rw [find_after_replace]
    rfl
  · intro h1 h2
    unfold attributeEdge
    have : (e.ty != .op && e.ty != .kk) = true := by
      cases hty : e.ty <;> simp_all +decide
    rw [this]; rfl

/-- The attribution rule: a kernel-kernel delay goes to the kernel that precedes the gap; a
span edge to the source's event when the source is a start node, to the destination's event
when both are end nodes, and to the recorded parent otherwise. -/
theorem C10_attribution_rule (e : Edge) (p : Int) :
    (e.ty = .kk → attrEv e p = e.src.ev) ∧
    (e.ty = .op → e.src.isStart = true → attrEv e p = e.src.ev) ∧
    (e.ty = .op → e.src.isStart = false → e.dst.isStart = false → attrEv e p = e.dst.ev) ∧
    (e.ty = .op → e.src.isStart = false → e.dst.isStart = true → attrEv e p = p) := by
  unfold attrEv
  refine ⟨?_, ?_, ?_, ?_⟩
  · intro h; rw [h]; rfl
  · intro h hs; rw [h, hs]; rfl
  · intro h hs hd; rw [h, hs, hd]; rfl
  · intro h hs hd; rw [h, hs, hd]; rfl

def exRows : List Row := [
  { idx := 0, ts := 0, dur := 20, pid := 1, tid := 1, stream := -1, corr := -1, link := -1, name := "aten::add", cat := "cpu_op" },
  { idx := 1, ts := 2, dur := 3, pid := 1, tid := 1, stream := -1, corr := 5, link := 2, name := "cudaLaunchKernel", cat := "cuda_runtime" },
  { idx := 2, ts := 6, dur := 30, pid := 0, tid := 7, stream := 7, corr := 5, link := 1, name := "ncclKernel_AllReduce", cat := "kernel" }]
def exG : G := { edges := [⟨⟨1, true⟩, ⟨2, true⟩, 4, .launch⟩, ⟨⟨2, true⟩, ⟨2, false⟩, 30, .op⟩],
                 attr := [(⟨2, true⟩, ⟨2, false⟩, 2)] }
/-- Non-vacuity: a launch-delay edge and a communication kernel's span give a breakdown (the hypothesis
`breakdown … = some out` is met) with the two bound-by classes and durations adding up to 34. -/
example : (breakdown exRows exG exG.edges).map (fun out => (out.map (·.boundBy), totalDur out)) =
    some (["gpu_kernel_launch_overhead", "gpu_communication_bound"], 34) := by
  decide

end Hta.C10
