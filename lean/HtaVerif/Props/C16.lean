import HtaVerif.Model.C16
/-!
# C16 — frequent kernel sequences count exactly the kernels launched under each operator
-/
namespace Hta.C16
open Hta.C13

theorem mem_distinctP {l : List (List String)} {p : List String} : p ∈ distinctP l ↔ p ∈ l := by
  induction l with
  | nil => simp [distinctP]
  | cons a l ih =>
    simp only [distinctP, List.mem_cons, List.mem_filter, ih]
    by_cases h : p = a <;> simp [h]

theorem distinctP_nodup (l : List (List String)) : (distinctP l).Nodup := by
  induction l with
  | nil => simp [distinctP]
  | cons a l ih =>
    simp only [distinctP]
    apply List.nodup_cons.mpr
    exact ⟨by simp [List.mem_filter], ih.filter _⟩

/-- One row per distinct pattern; a pattern's count is its number of occurrences and its CPU
and GPU durations are the sums over its instances. -/
theorem C16_pattern_counts_exact (insts : List Inst) :
    ((table insts).map (·.pattern)).Nodup ∧
    (∀ p, p ∈ (table insts).map (·.pattern) ↔ ∃ i ∈ insts, i.pattern = p) ∧
    ∀ r ∈ table insts,
      r.count = (insts.filter fun i => i.pattern == r.pattern).length ∧
      r.gpuDur = sumBy (·.gpuDur) (insts.filter fun i => i.pattern == r.pattern) ∧
      r.cpuDur = sumBy (·.cpuDur) (insts.filter fun i => i.pattern == r.pattern) := by
  have hnames : (table insts).map (·.pattern) = distinctP (insts.map (·.pattern)) := by
    simp [table, List.map_map, Function.comp_def]
  refine ⟨by rw [hnames]; exact distinctP_nodup _, ?_, ?_⟩
  · intro p; rw [hnames, mem_distinctP]; simp
  · intro r hr
    obtain ⟨p, _, rfl⟩ := List.mem_map.mp hr
    exact ⟨rfl, rfl, rfl⟩

/-- Rows are ordered by descending count, and ordering neither adds nor drops rows. -/
theorem C16_order_desc (t : List PRow) :
    (byCountDesc t).Pairwise (fun a b => a.count ≥ b.count) ∧ (byCountDesc t).Perm t := by
  refine ⟨?_, List.mergeSort_perm _ _⟩
  have := List.pairwise_mergeSort (le := fun (a b : PRow) => decide (a.count ≥ b.count))
    (by intro a b c h1 h2; simp at *; omega) (by intro a b; simp; omega) t
  exact this.imp (by intro a b h; simpa using h)

/-- The instances considered are exactly the matching rows at the shallowest depth at which
the name occurs that have at least `min_pattern_len` kernels beneath them. -/
theorem C16_roots_rule (rows : List Row) (nodes : List N) (op : String) (minLen : Int) (r : Row) (d : Int)
    (hd : minL (((rows.filter fun r => containsSub r.name.toList op.toList)).map
      fun r => (attrsOf rows nodes r.idx).depth) = some d) :
    r ∈ roots rows nodes op minLen ↔
      r ∈ rows ∧ containsSub r.name.toList op.toList = true ∧ (attrsOf rows nodes r.idx).depth = d ∧
        (attrsOf rows nodes r.idx).numKernels ≥ minLen := by
  simp only [roots, hd, List.mem_filter, Bool.and_eq_true, beq_iff_eq, decide_eq_true_eq]
  constructor
  · rintro ⟨⟨h1, h2⟩, h3, h4⟩; exact ⟨h1, h2, h3, h4⟩
  · rintro ⟨h1, h2, h3, h4⟩; exact ⟨⟨h1, h2⟩, h3, h4⟩

theorem minL_is_min {l : List Int} {m : Int} (h : minL l = some m) : m ∈ l ∧ ∀ x ∈ l, m ≤ x := by
  induction l generalizing m with
  | nil => simp [minL] at h
  | cons x xs ih =>
    simp only [minL] at h
    cases hxs : minL xs with
    | none =>
      rw [hxs] at h; cases h
      cases xs with
      | nil => simp
      | cons y ys => simp [minL] at hxs; split at hxs <;> simp at hxs
    | some m' =>
      rw [hxs] at h; cases h
      obtain ⟨hm, hle⟩ := ih hxs
      constructor
      · by_cases hc : x ≤ m'
        · have : min x m' = x := by omega
          rw [this]; exact List.mem_cons_self
        · have : min x m' = m' := by omega
          rw [this]; exact List.mem_cons_of_mem _ hm
      · intro y hy
        rcases List.mem_cons.mp hy with rfl | hy'
        · omega
        · have := hle y hy'; omega

/-- The kernels of an instance are listed in start-time order. -/
theorem C16_kernels_in_start_order (rows : List Row) (nodes : List N) (r : Row) :
    let ds := descendants nodes (nodes.length + 1) r.idx
    let ks := (rows.filter fun k => ds.contains k.idx && k.stream != -1).mergeSort fun a b => decide (a.ts ≤ b.ts)
    ks.Pairwise (fun a b => a.ts ≤ b.ts) ∧ (instOf rows nodes r).pattern = r.name :: ks.map (·.name) := by
  intro ds ks
  refine ⟨?_, rfl⟩
  have := List.pairwise_mergeSort (le := fun (a b : Row) => decide (a.ts ≤ b.ts))
    (by intro a b c h1 h2; simp at *; omega) (by intro a b; simp; omega)
    (rows.filter fun k => ds.contains k.idx && k.stream != -1)
  exact this.imp (by intro a b h; simpa using h)

example : table [⟨["op", "k1", "k2"], 9, 4⟩, ⟨["op", "k1"], 3, 2⟩, ⟨["op", "k1", "k2"], 7, 5⟩]
    = [⟨["op", "k1", "k2"], 2, 16, 9⟩, ⟨["op", "k1"], 1, 3, 2⟩] := by decide

end Hta.C16
