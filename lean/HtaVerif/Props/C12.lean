import HtaVerif.Model.C12
import HtaVerif.Proofs.ListLemmas
/-!
# C12 — iteration numbers follow profiler steps; loading trims only the trailing step
-/
namespace Hta.C12

/-! ### iteration of host events -/

theorem foldl_iter_none (steps : List Step) (t acc : Int)
    (h : ∀ s ∈ steps, s.contains t = false) :
    steps.foldl (fun acc s => if s.contains t then s.num else acc) acc = acc := by
  induction steps generalizing acc with
  | nil => rfl
  | cons s ss ih =>
    simp only [List.foldl_cons, h s List.mem_cons_self]
    exact ih acc (fun x hx => h x (List.mem_cons_of_mem _ hx))

theorem foldl_iter_some (steps : List Step) (t acc : Int)
    (h : ∃ s ∈ steps, s.contains t = true) :
    ∃ s ∈ steps, s.contains t = true ∧
      steps.foldl (fun acc s => if s.contains t then s.num else acc) acc = s.num := by
  induction steps generalizing acc with
  | nil => obtain ⟨s, hs, _⟩ := h; cases hs
  | cons s ss ih =>
    simp only [List.foldl_cons]
    by_cases hrest : ∃ s' ∈ ss, s'.contains t = true
    · obtain ⟨s', hs', hc, heq⟩ := ih (if s.contains t then s.num else acc) hrest
      exact ⟨s', List.mem_cons_of_mem _ hs', hc, heq⟩
    · have hnone : ∀ s' ∈ ss, s'.contains t = false := by
        intro s' hs'
        cases hc : s'.contains t with
        | false => rfl
        | true => exact absurd ⟨s', hs', hc⟩ hrest
      obtain ⟨s0, hs0, hc0⟩ := h
      rcases List.mem_cons.mp hs0 with rfl | hs0'
      · refine ⟨s0, List.mem_cons_self, hc0, ?_⟩
        rw [foldl_iter_none ss t _ hnone, hc0]; rfl
      · rw [hnone s0 hs0'] at hc0; cases hc0

/-- A host event outside every profiler step has iteration -1. -/
theorem C12_iter_host_outside (steps : List Step) (t : Int)
    (h : ∀ s ∈ steps, s.contains t = false) : iterHost steps t = -1 :=
  foldl_iter_none steps t (-1) h

/-- A host event whose start lies in the half-open span of a profiler step gets that step's
number — whenever the steps containing the instant agree on the number, in particular when
step spans are pairwise disjoint. -/
theorem C12_iter_host_inside (steps : List Step) (t : Int) (s : Step) (hs : s ∈ steps)
    (hc : s.contains t = true)
    (huniq : ∀ s' ∈ steps, s'.contains t = true → s'.num = s.num) :
    iterHost steps t = s.num := by
  obtain ⟨s', hs', hc', heq⟩ := foldl_iter_some steps t (-1) ⟨s, hs, hc⟩
  unfold iterHost
  rw [heq, huniq s' hs' hc']

/-- Pairwise disjoint step spans make the containing step unique. -/
theorem disjoint_steps_unique (steps : List Step)
    (hd : steps.Pairwise fun a b => a.ts + a.dur ≤ b.ts ∨ b.ts + b.dur ≤ a.ts)
    (t : Int) (s s' : Step) (hs : s ∈ steps) (hs' : s' ∈ steps)
    (hc : s.contains t = true) (hc' : s'.contains t = true) : s' = s := by
  by_cases heq : s' = s
  · exact heq
  · exfalso
    have key : ∀ a b : Step, a.contains t = true → b.contains t = true →
        ¬ (a.ts + a.dur ≤ b.ts ∨ b.ts + b.dur ≤ a.ts) := by
      intro a b ha hb
      simp only [Step.contains, Bool.and_eq_true, decide_eq_true_eq] at ha hb
      omega
    rcases List.pairwise_iff_getElem.mp hd with hget
    obtain ⟨i, hi, rfl⟩ := List.mem_iff_getElem.mp hs
    obtain ⟨j, hj, rfl⟩ := List.mem_iff_getElem.mp hs'
    rcases Nat.lt_trichotomy i j with hlt | heq' | hgt
    · exact key _ _ hc hc' (hget i j hi hj hlt)
    · subst heq'; exact heq rfl
    · exact key _ _ hc' hc (hget j i hj hi hgt)

/-! ### iteration of device activities -/

/-- A device activity inherits the iteration of the host call linked to it; unlinked: -1. -/
theorem C12_iter_device (rows : List Row) (steps : List Step) (r h : Row)
    (hidx : ∀ a ∈ rows, ∀ b ∈ rows, a.idx = b.idx → a = b)
    (hr : r.stream > 0) (hl : r.link > 0) (hh : h ∈ rows) (hhi : h.idx = r.link) (hhs : h.stream < 0) :
    iterOf rows steps r = iterHost steps h.ts := by
  unfold iterOf
  have h1 : ¬ r.stream < 0 := by omega
  simp only [h1, if_false, hr, hl, if_true]
  cases hf : rows.find? (fun x => x.idx == r.link) with
  | none =>
    have := List.find?_eq_none.mp hf h hh
    simp [hhi] at this
  | some x =>
    have hx := List.mem_of_find?_eq_some hf
    have hp := List.find?_some hf
    have : x = h := hidx x hx h hh (by rw [hhi]; simpa using hp)
    subst this
    simp [hhs]

theorem C12_iter_device_unlinked (rows : List Row) (steps : List Step) (r : Row)
    (hr : r.stream > 0) (hl : ¬ r.link > 0) : iterOf rows steps r = -1 := by
  unfold iterOf
  have h1 : ¬ r.stream < 0 := by omega
  simp [h1, hr, hl]

/-! ### trimming -/

theorem maxL_spec {l : List Int} {m : Int} (h : maxL l = some m) : m ∈ l ∧ ∀ x ∈ l, x ≤ m := by
  induction l generalizing m with
  | nil => simp [maxL] at h
  | cons x xs ih =>
    simp only [maxL] at h
    cases hxs : maxL xs with
    | none =>
      rw [hxs] at h; cases h
      cases xs with
      | nil => simp
      | cons y ys => simp [maxL] at hxs; split at hxs <;> simp at hxs
    | some m' =>
      rw [hxs] at h; cases h
      obtain ⟨hm, hle⟩ := ih hxs
      constructor
      · by_cases hc : m' ≤ x
        · have : max x m' = x := by omega
          rw [this]; exact List.mem_cons_self
        · have : max x m' = m' := by omega
          rw [this]; exact List.mem_cons_of_mem _ hm
      · intro y hy
        rcases List.mem_cons.mp hy with rfl | hy'
        · omega
        · have := hle y hy'; omega

/-- With at least two profiler steps loading keeps exactly: the host events that start before
the last step begins (or no later than its end when requested) and the device activities
whose correlation id is that of a kept host event. -/
theorem C12_trim_keeps_exactly (includeLast : Bool) (rows : List Row) (r : Row) :
    r ∈ trimRank includeLast rows ↔
      (r ∈ keptHost includeLast rows) ∨
      (r ∈ rows ∧ C02.devSide r = true ∧ r.corr ≠ -1 ∧ ∃ h ∈ keptHost includeLast rows, h.corr = r.corr) := by
  simp only [trimRank, List.mem_append, List.mem_filter, Bool.and_eq_true, List.any_eq_true, bne_iff_ne, ne_eq,
    beq_iff_eq]
  constructor
  · rintro (⟨⟨hd, hds⟩, hne, h, hk, hc⟩ | h)
    · right; exact ⟨hd, hds, hne, h, hk, hc⟩
    · left; exact h
  · rintro (h | ⟨hr, hds, hne, h, hk, hc⟩)
    · right; exact h
    · left; exact ⟨⟨hr, hds⟩, hne, h, hk, hc⟩

/-- The cut-off rule for host events. -/
theorem C12_kept_host_rule (includeLast : Bool) (rows : List Row) (r : Row)
    (lastStart lastEnd : Int)
    (hs : maxL (((rows.filter fun r => !C02.devSide r).filter fun r => hasStep r.name).map (·.ts)) = some lastStart)
    (he : maxL (((rows.filter fun r => !C02.devSide r).filter fun r => hasStep r.name).map Row.fin) = some lastEnd) :
    r ∈ keptHost includeLast rows ↔
      r ∈ rows ∧ C02.devSide r = false ∧ (if includeLast then r.ts ≤ lastEnd else r.ts < lastStart) := by
  simp only [keptHost, hs, he]
  cases includeLast <;> simp [List.mem_filter, keepPred] <;> intro _ <;> exact And.comm

/-- A rank without any profiler-step row loses every event when trimming is active (the
hypothesis "every rank carries the profiler steps" is therefore part of the quantifier). -/
theorem C12_trim_no_steps (includeLast : Bool) (rows : List Row)
    (h : ((rows.filter fun r => !C02.devSide r).filter fun r => hasStep r.name) = []) :
    trimRank includeLast rows = [] := by
  have hk : keptHost includeLast rows = [] := by
    simp [keptHost, h, maxL]
  unfold trimRank
  simp [hk]

/-- With fewer than two profiler steps nothing is dropped. -/
theorem C12_trim_noop_lt2 (includeLast : Bool) (n : Nat) (hn : n < 2) (ranks : List (List Row)) :
    load includeLast n ranks = ranks := by
  unfold load
  have : ¬ n ≥ 2 := by omega
  simp [this]

/-- No event is duplicated by trimming: unique rows stay unique, whatever the correlation ids are
(two host calls sharing an id, device-side records without one). -/
theorem C12_trim_nodup (includeLast : Bool) (rows : List Row) (hnd : rows.Nodup) :
    (trimRank includeLast rows).Nodup := by
  have hsubl : (keptHost includeLast rows).Sublist (rows.filter fun r => !C02.devSide r) := by
    simp only [keptHost]
    split
    · exact List.filter_sublist
    · exact List.nil_sublist _
  have hkept_sub : ∀ h ∈ keptHost includeLast rows, h ∈ rows ∧ C02.devSide h = false := by
    intro h hh
    have := List.mem_filter.mp (hsubl.subset hh)
    exact ⟨this.1, by simpa using this.2⟩
  have hkept_nd : (keptHost includeLast rows).Nodup := hsubl.nodup (hnd.filter _)
  unfold trimRank
  apply List.nodup_append.mpr
  refine ⟨((hnd.filter _).filter _), hkept_nd, ?_⟩
  intro a ha b hb
  have h1 := (List.mem_filter.mp (List.mem_filter.mp ha).1).2
  have h2 := (hkept_sub b hb).2
  intro heq
  rw [heq, h2] at h1
  cases h1

/-- Non-vacuity: two steps; the launch in step 1 and its kernel survive, the operator that
starts at the beginning of the last step and the partner-less kernel are dropped. -/
example : (trimRank false
    [⟨0, 0, 10, 1, 1, -1, -1, -1, 1, "ProfilerStep#1", "user_annotation"⟩,
     ⟨1, 2, 2, 1, 1, -1, 7, 3, 1, "cudaLaunchKernel", "cuda_runtime"⟩,
     ⟨2, 10, 5, 1, 1, -1, -1, -1, 2, "ProfilerStep#2", "user_annotation"⟩,
     ⟨3, 12, 9, 0, 7, 7, 7, 1, 1, "k", "kernel"⟩,
     ⟨4, 10, 1, 1, 1, -1, -1, -1, 2, "aten::add", "cpu_op"⟩,
     ⟨5, 30, 9, 0, 7, 7, 9, 0, -1, "k2", "kernel"⟩]).map (·.idx) = [3, 0, 1] := by decide

example : stepIter "ProfilerStep#15" = some 15 ∧ stepIter "ProfilerStep # 7x" = some 7
    ∧ stepIter "ProfilerStepX" = none := by decide

end Hta.C12
