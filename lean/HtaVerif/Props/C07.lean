import HtaVerif.Proofs.Interval
import HtaVerif.Spec.C07
/-!
# C07 — communication/computation overlap is the exact time ratio

For **every** start-sorted permutation of the communication and computation kernels and
**every** time-sorted permutation of the resulting markers (pandas' sorts are unstable), the
numerator and denominator computed by the sweep are the unit-cell measures of
`comm ∩ comp` and `comm`, in any window `[lo, lo+n)` that contains the kernels.
-/
namespace Hta.C07

theorem stateAt_markers_merged (v : Int) {s : List Iv} (hs : SortedByStart s)
    (hnn : ∀ x ∈ s, x.1 ≤ x.2) (t : Int) :
    stateAt (markersOf v (mergeSorted s)) t = if covers s t then v else 0 := by
  have f := mergeSorted_facts hs hnn
  rw [stateAt_markersOf v (f.separated.imp (fun h => Int.le_of_lt h)) f.nonneg t, f.covers_eq t]

theorem C07_overlap_exact
    (comm comp sA sB : List Iv) (ms : List Marker) (lo : Int) (n : Nat)
    (hpA : sA.Perm comm) (hpB : sB.Perm comp)
    (hsA : SortedByStart sA) (hsB : SortedByStart sB)
    (hms : ms.Perm (markers (mergeSorted sA) (mergeSorted sB))) (hsm : SortedByTime ms)
    (hnnA : ∀ x ∈ comm, x.1 ≤ x.2) (hnnB : ∀ x ∈ comp, x.1 ≤ x.2)
    (hwin : ∀ x ∈ comm ++ comp, lo ≤ x.1 ∧ x.2 ≤ lo + n) :
    Holds comm comp lo n (overlapOf (mergeSorted sA) ms) := by
  have hnnA' : ∀ x ∈ sA, x.1 ≤ x.2 := fun x hx => hnnA x (hpA.mem_iff.mp hx)
  have hnnB' : ∀ x ∈ sB, x.1 ≤ x.2 := fun x hx => hnnB x (hpB.mem_iff.mp hx)
  have fA := mergeSorted_facts hsA hnnA'
  have fB := mergeSorted_facts hsB hnnB'
  have hwinA : ∀ y ∈ mergeSorted sA, lo ≤ y.1 ∧ y.2 ≤ lo + n := by
    intro y hy
    obtain ⟨a, ha, h1⟩ := fA.starts y hy
    obtain ⟨b, hb, h2⟩ := fA.ends y hy
    have := hwin a (List.mem_append_left _ (hpA.mem_iff.mp ha))
    have := hwin b (List.mem_append_left _ (hpA.mem_iff.mp hb))
    have := fA.nonneg y hy
    omega
  have hwinB : ∀ y ∈ mergeSorted sB, lo ≤ y.1 ∧ y.2 ≤ lo + n := by
    intro y hy
    obtain ⟨a, ha, h1⟩ := fB.starts y hy
    obtain ⟨b, hb, h2⟩ := fB.ends y hy
    have := hwin a (List.mem_append_right _ (hpB.mem_iff.mp ha))
    have := hwin b (List.mem_append_right _ (hpB.mem_iff.mp hb))
    have := fB.nonneg y hy
    omega
  -- numerator
  have htot : totalDelta ms = 0 := by
    rw [totalDelta_perm hms, markers, totalDelta_append, totalDelta_markersOf, totalDelta_markersOf]; rfl
  have hmwin : ∀ m ∈ ms, lo ≤ m.1 ∧ m.1 ≤ lo + n := by
    intro m hm
    have hm' := hms.mem_iff.mp hm
    rcases List.mem_append.mp hm' with h | h
    · obtain ⟨x, hx, h1⟩ := mem_markersOf h
      have := hwinA x hx; have := fA.nonneg x hx
      rcases h1 with h1 | h1 <;> omega
    · obtain ⟨x, hx, h1⟩ := mem_markersOf h
      have := hwinB x hx; have := fB.nonneg x hx
      rcases h1 with h1 | h1 <;> omega
  have hnum : sweep (fun r => r == 3) ms
      = (cells lo n (fun t => covers comm t && covers comp t) : Int) := by
    rw [sweep_eq_cells_window (fun r => r == 3) (by decide) hsm htot hmwin]
    congr 1
    apply cells_congr
    intro t _ _
    show (stateAt ms t == 3) = _
    rw [stateAt_perm hms t, markers, stateAt_append, stateAt_markers_merged 1 hsA hnnA' t,
      stateAt_markers_merged 2 hsB hnnB' t, covers_perm hpA t, covers_perm hpB t]
    cases covers comm t <;> cases covers comp t <;> decide
  have hden : sumLen (mergeSorted sA) = (cells lo n (covers comm) : Int) := by
    rw [sumLen_eq_cells (lo := lo) (n := n) (fA.separated.imp (fun h => Int.le_of_lt h)) fA.nonneg hwinA]
    congr 1
    apply cells_congr
    intro t _ _
    rw [fA.covers_eq t, covers_perm hpA t]
  have hle : cells lo n (fun t => covers comm t && covers comp t) ≤ cells lo n (covers comm) := by
    have := cells_split_by lo n (covers comm) (covers comp)
    omega
  refine ⟨hnum, hden, ?_, ?_⟩
  · show 0 ≤ sweep _ ms; rw [hnum]; omega
  · show sweep _ ms ≤ sumLen _; rw [hnum, hden]; omega

/-- Non-vacuity / sanity: comm = [0,10) ∪ [20,30), comp = [5,25): overlap 5 + 5, comm time 20. -/
example : overlapOf [(0, 10), (20, 30)]
    [(0, 1), (5, 2), (10, -1), (20, 1), (25, -2), (30, -1)] = { num := 10, den := 20 } := by decide

end Hta.C07
