import HtaVerif.Proofs.Interval
import HtaVerif.Spec.C04
/-!
# C04 — temporal breakdown is an exact partition of the GPU activity span

Property theorems only. `K` = the device activities of a rank as `(ts, ts+dur)` intervals,
`C` = the computation kernels among them. The model sorts with `mergeSort`, pandas with an
unstable quicksort: the theorem is therefore stated for **every** start-sorted permutation
`sK` of `K` and `sC` of `C`.

Hypotheses = the property's quantifier: at least one device activity (`K ≠ []`) and
non-negative durations (`x.1 ≤ x.2`).
-/
namespace Hta.C04

theorem C04_temporal_partition
    (K C sK sC : List Iv)
    (hpK : sK.Perm K) (hpC : sC.Perm C)
    (hsK : SortedByStart sK) (hsC : SortedByStart sC)
    (hne : K ≠ []) (hnn : ∀ x ∈ K, x.1 ≤ x.2) (hsub : ∀ x ∈ C, x ∈ K) :
    ∃ o, temporalSorted sK sC = some o ∧ Holds K C o := by
  have hnnK : ∀ x ∈ sK, x.1 ≤ x.2 := fun x hx => hnn x (hpK.mem_iff.mp hx)
  have hnnC : ∀ x ∈ sC, x.1 ≤ x.2 := fun x hx => hnn x (hsub x (hpC.mem_iff.mp hx))
  have fK := mergeSorted_facts hsK hnnK
  have fC := mergeSorted_facts hsC hnnC
  -- the merged list is non-empty
  obtain ⟨k0, hk0⟩ := List.exists_mem_of_ne_nil K hne
  obtain ⟨y0, hy0, _⟩ := fK.contains k0 (hpK.mem_iff.mpr hk0)
  have hmne : mergeSorted sK ≠ [] := List.ne_nil_of_mem hy0
  generalize hm : mergeSorted sK = mK at fK hmne
  cases mK with
  | nil => exact absurd rfl hmne
  | cons first tl =>
    have hlastmem := List.getLast_mem (l := first :: tl) (by simp)
    generalize hl : (first :: tl).getLast (by simp) = last at hlastmem
    have hlast? : (first :: tl).getLast? = some last := by
      rw [List.getLast?_eq_some_getLast (by simp), hl]
    have hhead := separated_head_le fK.separated fK.nonneg
    have hlastle := separated_le_last fK.separated fK.nonneg (by simp)
    rw [hl] at hlastle
    have hfl : first.1 ≤ last.2 := by
      have := fK.nonneg first List.mem_cons_self
      have := hlastle first List.mem_cons_self
      omega
    -- window facts
    have hwinK : ∀ x ∈ K, first.1 ≤ x.1 ∧ x.2 ≤ last.2 := by
      intro x hx
      obtain ⟨y, hy, h1, h2⟩ := fK.contains x (hpK.mem_iff.mpr hx)
      have := hhead y hy
      have := hlastle y hy
      omega
    obtain ⟨n, hn⟩ : ∃ n : Nat, last.2 = first.1 + n := ⟨(last.2 - first.1).toNat, by omega⟩
    have hnat : (last.2 - first.1).toNat = n := by omega
    have hsumK : sumLen (first :: tl) = (cells first.1 n (covers K) : Int) := by
      rw [sumLen_eq_cells (lo := first.1) (n := n)
        (fK.separated.imp (fun h => Int.le_of_lt h)) fK.nonneg
        (fun y hy => by have := hhead y hy; have := hlastle y hy; have := fK.nonneg y hy; omega)]
      congr 1
      apply cells_congr
      intro t _ _
      rw [fK.covers_eq t, covers_perm hpK t]
    have hsumC : sumLen (mergeSorted sC) = (cells first.1 n (covers C) : Int) := by
      rw [sumLen_eq_cells (lo := first.1) (n := n)
        (fC.separated.imp (fun h => Int.le_of_lt h)) fC.nonneg
        (fun y hy => by
          obtain ⟨a, ha, h1⟩ := fC.starts y hy
          obtain ⟨b, hb, h2⟩ := fC.ends y hy
          have := hwinK a (hsub a (hpC.mem_iff.mp ha))
          have := hwinK b (hsub b (hpC.mem_iff.mp hb))
          omega)]
      congr 1
      apply cells_congr
      intro t _ _
      rw [fC.covers_eq t, covers_perm hpC t]
    have hnot := cells_not first.1 n (covers K)
    have hsplit := cells_split_by first.1 n (covers K) (covers C)
    have hsubcov : cells first.1 n (fun t => covers K t && covers C t) = cells first.1 n (covers C) := by
      apply cells_congr
      intro t _ _
      cases hc : covers C t with
      | false => simp
      | true =>
        obtain ⟨x, hx, h1⟩ := covers_iff.mp hc
        have : covers K t = true := covers_iff.mpr ⟨x, hsub x hx, h1⟩
        simp [this]
    refine ⟨{ idle := (last.2 - first.1) - sumLen (first :: tl),
              compute := sumLen (mergeSorted sC),
              nonCompute := (last.2 - first.1) - sumLen (mergeSorted sC)
                - ((last.2 - first.1) - sumLen (first :: tl)),
              kernelTime := last.2 - first.1 }, ?_, first.1, last.2, ?_, ?_⟩
    · simp only [temporalSorted, hm, List.head?_cons, hlast?]
    · refine ⟨?_, ?_, hwinK⟩
      · obtain ⟨x, hx, h⟩ := fK.starts first List.mem_cons_self
        exact ⟨x, hpK.mem_iff.mp hx, h⟩
      · obtain ⟨x, hx, h⟩ := fK.ends last hlastmem
        exact ⟨x, hpK.mem_iff.mp hx, h⟩
    · simp only [hnat, hsumK, hsumC]
      refine ⟨?_, ?_, ?_, ?_, ?_⟩ <;> first | trivial | omega

/-- The same statement for the executable model `run` (one particular sort). -/
theorem C04_run (classify : String → KType) (rows : List Row)
    (hne : deviceRows rows ≠ []) (hnn : ∀ r ∈ rows, 0 ≤ r.dur) :
    ∃ o, run classify rows = some o ∧
      Holds ((deviceRows rows).map Row.iv)
        (((deviceRows rows).filter fun r => classify r.name == .computation).map Row.iv) o := by
  apply C04_temporal_partition
  · exact List.mergeSort_perm _ _
  · exact List.mergeSort_perm _ _
  · exact (List.pairwise_mergeSort (by intro a b c; simp; omega) (by intro a b; simp; omega) _).imp
      (by intro a b h; simpa using h)
  · exact (List.pairwise_mergeSort (by intro a b c; simp; omega) (by intro a b; simp; omega) _).imp
      (by intro a b h; simpa using h)
  · simpa using hne
  · intro x hx
    obtain ⟨r, hr, rfl⟩ := List.mem_map.mp hx
    have := hnn r (List.mem_filter.mp hr).1
    simp [Row.iv]; omega
  · intro x hx
    obtain ⟨r, hr, rfl⟩ := List.mem_map.mp hx
    exact List.mem_map.mpr ⟨r, (List.mem_filter.mp hr).1, rfl⟩

/-- Non-vacuity: a concrete trace with overlapping, touching, identical and zero-length
activities satisfies the hypotheses, and the model's numbers are the expected ones. -/
example :
    temporalSorted [(0, 4), (0, 4), (2, 6), (4, 4), (5, 9), (20, 25)] [(2, 6), (20, 25)]
      = some { idle := 11, compute := 9, nonCompute := 5, kernelTime := 25 } := by decide

end Hta.C04
