import HtaVerif.Model.C11
/-!
# C11 — symbol ids are a stable bijection; results ignore id numbering and parse order
-/
namespace Hta.C11

/-- The invariant of every reachable table: no symbol twice, and the dictionary is exactly the
inverse of the list. -/
structure Inv (t : Tab) : Prop where
  nodup : t.table.Nodup
  index_iff : ∀ s i, lookup t.index s = some i ↔ t.table[i]? = some s

theorem lookup_append (ix : List (String × Nat)) (s s' : String) (k : Nat) :
    lookup (ix ++ [(s', k)]) s = match lookup ix s with
      | some i => some i
      | none => if s' == s then some k else none := by
  unfold lookup
  rw [List.find?_append]
  cases h : ix.find? (fun p => p.1 == s) with
  | some p => simp
  | none => simp [List.find?_cons]; split <;> simp_all

theorem inv_empty : Inv Tab.empty :=
  ⟨List.nodup_nil, by intro s i; simp [lookup, Tab.empty]⟩

theorem mem_of_lookup {t : Tab} (h : Inv t) {s : String} {i : Nat} (hl : lookup t.index s = some i) :
    s ∈ t.table := List.mem_of_getElem? ((h.index_iff s i).mp hl)

theorem lookup_of_mem {t : Tab} (h : Inv t) {s : String} (hs : s ∈ t.table) :
    ∃ i, lookup t.index s = some i := by
  obtain ⟨i, hi, rfl⟩ := List.mem_iff_getElem.mp hs
  exact ⟨i, (h.index_iff _ i).mpr (by simp [hi])⟩

/-- Adding a symbol preserves the invariant. -/
theorem inv_add {t : Tab} (h : Inv t) (s : String) : Inv (t.add s) := by
  unfold Tab.add
  cases hl : lookup t.index s with
  | some i => exact h
  | none =>
    have hnot : s ∉ t.table := by
      intro hs
      obtain ⟨i, hi⟩ := lookup_of_mem h hs
      rw [hl] at hi; cases hi
    refine ⟨?_, ?_⟩
    · simp only []
      rw [List.nodup_append]
      refine ⟨h.nodup, by simp, ?_⟩
      intro a ha b hb
      simp at hb; subst hb
      intro hab; subst hab; exact hnot ha
    · intro s' i
      simp only []
      rw [lookup_append]
      constructor
      · intro hh
        cases hl' : lookup t.index s' with
        | some j =>
          rw [hl'] at hh; simp at hh; subst hh
          have := (h.index_iff s' j).mp hl'
          rw [List.getElem?_append_left (List.getElem?_eq_some_iff.mp this).1]
          exact this
        | none =>
          rw [hl'] at hh
          simp at hh
          obtain ⟨hs, hk⟩ := hh
          subst hk; subst hs
          simp
      · intro hh
        by_cases hi : i < t.table.length
        · rw [List.getElem?_append_left hi] at hh
          rw [(h.index_iff s' i).mpr hh]
        · have hi' : i = t.table.length := by
            have := (List.getElem?_eq_some_iff.mp hh).1
            simp at this; omega
          subst hi'
          simp at hh
          subst hh
          rw [hl]; simp

/-- Every reachable state satisfies the invariant. -/
theorem C11_inv_reachable (ss : List String) : Inv (Tab.empty.addAll ss) := by
  suffices ∀ t, Inv t → Inv (t.addAll ss) from this _ inv_empty
  induction ss with
  | nil => intro t h; exact h
  | cons s ss ih => intro t h; exact ih _ (inv_add h s)

theorem inv_addAll {t : Tab} (h : Inv t) (ss : List String) : Inv (t.addAll ss) := by
  induction ss generalizing t with
  | nil => exact h
  | cons s ss ih => exact ih (inv_add h s)

/-- An id once assigned never changes: the old table is a prefix of the new one. -/
theorem C11_ids_stable (t : Tab) (ss : List String) : ∃ new, (t.addAll ss).table = t.table ++ new := by
  induction ss generalizing t with
  | nil => exact ⟨[], by simp [Tab.addAll]⟩
  | cons s ss ih =>
    obtain ⟨new, hnew⟩ := ih (t.add s)
    unfold Tab.addAll at hnew ⊢
    simp only [List.foldl_cons]
    rw [hnew]
    unfold Tab.add
    cases lookup t.index s with
    | some _ => exact ⟨new, rfl⟩
    | none => exact ⟨s :: new, by simp⟩

theorem C11_decode_stable (t : Tab) (ss : List String) (i : Nat) (s : String)
    (h : t.decode i = some s) : (t.addAll ss).decode i = some s := by
  obtain ⟨new, hnew⟩ := C11_ids_stable t ss
  unfold Tab.decode at *
  rw [hnew, List.getElem?_append_left (List.getElem?_eq_some_iff.mp h).1]
  exact h

/-- Decoding an id yields the string that was encoded, and conversely. -/
theorem C11_decode_encode {t : Tab} (h : Inv t) (s : String) (i : Nat) :
    t.encode s = some i ↔ t.decode i = some s := h.index_iff s i

/-- Every added symbol has an id afterwards. -/
theorem mem_table_addAll (t : Tab) (ss : List String) (h : Inv t) :
    ∀ s, s ∈ (t.addAll ss).table ↔ s ∈ t.table ∨ s ∈ ss := by
  induction ss generalizing t with
  | nil => intro s; simp [Tab.addAll]
  | cons a ss ih =>
    intro s
    have := ih (t.add a) (inv_add h a) s
    unfold Tab.addAll at this ⊢
    simp only [List.foldl_cons]
    rw [this]
    have hadd : s ∈ (t.add a).table ↔ s ∈ t.table ∨ s = a := by
      unfold Tab.add
      cases hl : lookup t.index a with
      | some i =>
        simp only []
        constructor
        · intro hs; exact Or.inl hs
        · rintro (hs | rfl)
          · exact hs
          · exact mem_of_lookup h hl
      | none => simp
    rw [hadd]
    simp only [List.mem_cons]
    constructor
    · rintro ((h1 | h1) | h1)
      · exact Or.inl h1
      · exact Or.inr (Or.inl h1)
      · exact Or.inr (Or.inr h1)
    · rintro (h1 | h1 | h1)
      · exact Or.inl (Or.inl h1)
      · exact Or.inl (Or.inr h1)
      · exact Or.inr h1

/-- After multi-rank loading every rank's rows decode to that rank's original strings:
re-encoding a local id through any table that contains the local vocabulary preserves the
decoded string. -/
theorem C11_reencode_correct {loc glob : Tab} (hg : Inv glob)
    (hcover : ∀ s ∈ loc.table, s ∈ glob.table) (i : Nat) (s : String) (h : loc.decode i = some s) :
    ∃ j, reencode loc glob i = some j ∧ glob.decode j = some s := by
  have hs : s ∈ loc.table := List.mem_of_getElem? h
  obtain ⟨j, hj⟩ := lookup_of_mem hg (hcover s hs)
  refine ⟨j, ?_, (hg.index_iff s j).mp hj⟩
  unfold reencode
  rw [h]; exact hj

theorem globalOf_aux (locals : List Tab) : ∀ g : Tab, Inv g →
    Inv (locals.foldl (fun g l => g.addAll l.table) g) ∧
    (∀ s, s ∈ (locals.foldl (fun g l => g.addAll l.table) g).table ↔ s ∈ g.table ∨ ∃ l ∈ locals, s ∈ l.table) := by
  induction locals with
  | nil => intro g hg; exact ⟨hg, by simp⟩
  | cons l ls ih =>
    intro g hg
    have h1 := inv_addAll hg l.table
    obtain ⟨hi, hm⟩ := ih (g.addAll l.table) h1
    refine ⟨hi, ?_⟩
    intro s
    simp only [List.foldl_cons]
    rw [hm s, mem_table_addAll g l.table hg s]
    simp only [List.mem_cons, exists_eq_or_imp]
    constructor
    · rintro ((h | h) | h)
      · exact Or.inl h
      · exact Or.inr (Or.inl h)
      · exact Or.inr (Or.inr h)
    · rintro (h | h | h)
      · exact Or.inl (Or.inl h)
      · exact Or.inl (Or.inr h)
      · exact Or.inr h

/-- The global table built from the ranks' local tables — in **any** order of the ranks, so
for every worker completion order — is a bijection containing exactly the union of the
vocabularies; hence every rank re-encodes correctly against it. -/
theorem C11_global_any_order (locals perm : List Tab) (hp : perm.Perm locals) :
    Inv (globalOf perm) ∧ ∀ s, s ∈ (globalOf perm).table ↔ ∃ l ∈ locals, s ∈ l.table := by
  obtain ⟨hi, hm⟩ := globalOf_aux perm Tab.empty inv_empty
  refine ⟨hi, ?_⟩
  intro s
  unfold globalOf
  rw [hm s]
  simp only [Tab.empty, List.not_mem_nil, false_or]
  constructor
  · rintro ⟨l, hl, hs⟩; exact ⟨l, hp.mem_iff.mp hl, hs⟩
  · rintro ⟨l, hl, hs⟩; exact ⟨l, hp.mem_iff.mpr hl, hs⟩

/-- Results are independent of the numbering: two bijective tables that both contain a
vocabulary decode their own encodings of any of its strings to the same string, so any
analysis that works on decoded rows (all models in this development do) cannot observe the
numbering. -/
theorem C11_numbering_free {t1 t2 : Tab} (h1 : Inv t1) (h2 : Inv t2) (s : String)
    (hs1 : s ∈ t1.table) (hs2 : s ∈ t2.table) :
    ∃ i j, t1.encode s = some i ∧ t2.encode s = some j ∧ t1.decode i = t2.decode j := by
  obtain ⟨i, hi⟩ := lookup_of_mem h1 hs1
  obtain ⟨j, hj⟩ := lookup_of_mem h2 hs2
  exact ⟨i, j, hi, hj, by unfold Tab.decode; rw [(h1.index_iff s i).mp hi, (h2.index_iff s j).mp hj]⟩

example : (Tab.empty.addAll ["a", "b", "a", "c", "b"]).table = ["a", "b", "c"] := by decide
example : reencode (Tab.empty.addAll ["x", "b"]) (Tab.empty.addAll ["a", "b", "x"]) 0 = some 2 := by decide

end Hta.C11
