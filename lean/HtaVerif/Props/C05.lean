import HtaVerif.Proofs.C05
/-!
# C05 — kernel breakdown partitions busy time by type and conserves per-kernel time

`types` is the list of analysed kernel types as `(marker value, start-sorted intervals)`;
HTA uses the values 1, 2, 4. `ms` is **any** time-sorted permutation of the concatenated
markers (the code re-sorts with an unstable sort after adding each type).
-/
namespace Hta.C05

/-- Every combination's reported time is the time during which exactly that combination runs. -/
theorem C05_type_time_exact
    (types : List (Int × List Iv)) (ms : List Marker) (lo : Int) (n : Nat)
    (hs : ∀ p ∈ types, SortedByStart p.2 ∧ ∀ x ∈ p.2, x.1 ≤ x.2)
    (hms : ms.Perm (markersAll types)) (hsm : SortedByTime ms)
    (hwin : ∀ p ∈ types, ∀ x ∈ p.2, lo ≤ x.1 ∧ x.2 ≤ lo + n) :
    TypeTimeHolds types lo n (typeTime ms) := by
  intro m hm
  have htot : totalDelta ms = 0 := by rw [totalDelta_perm hms, totalDelta_markersAll]
  have hmwin : ∀ x ∈ ms, lo ≤ x.1 ∧ x.1 ≤ lo + n :=
    fun x hx => markersAll_window types lo n hs hwin x (hms.mem_iff.mp hx)
  have hP : (fun r : Int => r == m) 0 = false := by
    show ((0 : Int) == m) = false
    exact beq_eq_false_iff_ne.mpr (Ne.symm hm)
  unfold typeTime
  rw [sweep_eq_cells_window (fun r => r == m) hP hsm htot hmwin]
  congr 1
  apply cells_congr
  intro t _ _
  show (stateAt ms t == m) = _
  rw [stateAt_perm hms t, stateAt_markersAll types hs t]

/-- The mask does not depend on the order in which a type's kernels are listed. -/
theorem maskAt_perm (v : Int) {s s' : List Iv} (h : s.Perm s') (rest : List (Int × List Iv)) (t : Int) :
    maskAt ((v, s) :: rest) t = maskAt ((v, s') :: rest) t := by
  simp only [maskAt, covers_perm h t]

/-- Three analysed types (values 1, 2, 4): the seven rows add up to the measure of the
union of all analysed kernels. -/
theorem C05_type_total_three (a b c : List Iv) (lo : Int) (n : Nat) :
    (cells lo n (fun t => maskAt [(1, a), (2, b), (4, c)] t == 1)
      + cells lo n (fun t => maskAt [(1, a), (2, b), (4, c)] t == 2)
      + cells lo n (fun t => maskAt [(1, a), (2, b), (4, c)] t == 3)
      + cells lo n (fun t => maskAt [(1, a), (2, b), (4, c)] t == 4)
      + cells lo n (fun t => maskAt [(1, a), (2, b), (4, c)] t == 5)
      + cells lo n (fun t => maskAt [(1, a), (2, b), (4, c)] t == 6)
      + cells lo n (fun t => maskAt [(1, a), (2, b), (4, c)] t == 7))
      = cells lo n (fun t => covers a t || covers b t || covers c t) := by
  induction n generalizing lo with
  | zero => rfl
  | succ n ih =>
    simp only [cells]
    have hp := point_three a b c lo
    have := ih (lo + 1)
    omega

/-- Two analysed types (values 1, 2). -/
theorem C05_type_total_two (a b : List Iv) (lo : Int) (n : Nat) :
    (cells lo n (fun t => maskAt [(1, a), (2, b)] t == 1)
      + cells lo n (fun t => maskAt [(1, a), (2, b)] t == 2)
      + cells lo n (fun t => maskAt [(1, a), (2, b)] t == 3))
      = cells lo n (fun t => covers a t || covers b t) := by
  induction n generalizing lo with
  | zero => rfl
  | succ n ih =>
    simp only [cells]
    have hp := point_two a b lo
    have := ih (lo + 1)
    omega

/-- Per-kernel table: conservation, the bound on named rows, and exact statistics of named
rows — for **every** order `st` of the per-name statistics (so for every tie-break pandas may
choose), every `num_kernels` and every quantile cut position `j0`. -/
theorem C05_aggr (ks : List (String × Int)) (st : List Stat) (hst : st.Perm (groupStats ks))
    (numKernels j0 : Nat) :
    AggrHolds ks numKernels (aggrOrdered st numKernels j0) := by
  have hsum : sumL (st.map (·.sum)) = sumL (ks.map (·.2)) := by
    rw [sumL_perm (hst.map _), group_sum]
  have hnd : (st.map (·.name)).Nodup := by
    have := (hst.map (·.name)).nodup_iff.mpr (by rw [groupStats_names]; exact distinct_nodup _)
    exact this
  have hmem : ∀ s ∈ st, s.name ∈ ks.map (·.1) ∧ s = statOf ks s.name :=
    fun s hs => mem_groupStats (hst.mem_iff.mp hs)
  unfold aggrOrdered
  split
  · rename_i hgt
    refine ⟨?_, ?_, ?_, ?_⟩
    · show sumL ((st.take _).map (·.sum)) + sumL ((st.drop _).map (·.sum)) = _
      rw [← sumL_append, ← List.map_append, List.take_append_drop, hsum]
    · simp only [List.length_take]; omega
    · exact (List.Sublist.map _ (List.take_sublist _ _)).nodup hnd
    · intro s hs; exact hmem s (List.mem_of_mem_take hs)
  · rename_i hle
    refine ⟨?_, ?_, hnd, hmem⟩
    · simp [hsum]
    · show st.length ≤ numKernels
      omega

/-- The executable model uses one particular order. -/
theorem C05_runAggr (ks : List (String × Int)) (numKernels j0 : Nat) :
    AggrHolds ks numKernels (runAggr ks numKernels j0) :=
  C05_aggr ks _ (List.mergeSort_perm _ _) numKernels j0

/-- Non-vacuity: three names, two named rows; conservation 10+30+7+5 = 40 + 7 + 5. -/
example : aggrOrdered
    [⟨"a", 40, 30, 10, 2⟩, ⟨"b", 7, 7, 7, 1⟩, ⟨"c", 5, 5, 5, 1⟩] 2 3
    = { named := [⟨"a", 40, 30, 10, 2⟩, ⟨"b", 7, 7, 7, 1⟩], others := some 5 } := by decide

end Hta.C05
