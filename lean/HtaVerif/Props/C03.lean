import HtaVerif.Proofs.C03Stack
import HtaVerif.Proofs.ListLemmas
/-!
# C03 — call stack: parent is the innermost enclosing event on the thread

`es` are the events of one host thread (`WF`: non-negative durations, unique ids, positive
spans properly nested). `S` is **any** list of their endpoint tokens sorted by the key order
`tokLt po` — what `sorted()` returns for either builder's comparator, both of which are shown
equal to that order (`C03_lessThanNew_is_key_order`, `C03_cmpOld_is_key_order`). `po` is
arbitrary in the structural theorems (the builders use "a positive event starts here").
-/
namespace Hta.C03

variable (po : Int → Bool) (es : List Ev) (wf : WF es) (S : List Tok)
  (hperm : S.Perm (tokens es)) (hs : S.Pairwise (tokLt po))

include wf hperm hs in
theorem final_inv : Inv po es S (S.foldl step { stack := [], out := [] }) :=
  inv_run po es wf S hperm hs S [] _ (by simp) (inv_init po es)

include wf hperm hs in
/-- Every event appears exactly once. -/
theorem C03_each_event_once : ((build S).map (·.1)).Perm (es.map (·.idx)) := by
  have inv := final_inv po es wf S hperm hs
  unfold build
  rw [inv.outIdx]
  have h1 : (S.filter isOpen).Perm ((tokens es).filter isOpen) := hperm.filter _
  have h2 : (tokens es).filter isOpen = es.map openTok := by
    unfold tokens
    rw [List.filter_append]
    have a : (es.map openTok).filter isOpen = es.map openTok := by
      apply List.filter_eq_self.mpr
      intro x hx; obtain ⟨e, _, rfl⟩ := List.mem_map.mp hx; simp [isOpen, openTok]
    have b : (es.map closeTok).filter isOpen = [] := by
      apply List.filter_eq_nil_iff.mpr
      intro x hx; obtain ⟨e, _, rfl⟩ := List.mem_map.mp hx; simp [isOpen, closeTok]
    rw [a, b, List.append_nil]
  rw [h2] at h1
  have := h1.map (·.idx)
  simpa [List.map_map, Function.comp_def, openTok] using this

include wf hperm hs in
theorem entry_good (ent : Entry) (h : ent ∈ build S) : ∃ f ∈ es, Good po es f ent := by
  obtain ⟨f, hf, _, hg⟩ := (final_inv po es wf S hperm hs).outGood ent h
  exact ⟨f, hf, hg⟩

include wf in
/-- The recorded stack consists of exactly the events enclosing `f` in token order. -/
theorem stackFor_mem {f : Ev} (hf : f ∈ es) {stk : List Tok} (h : StackFor po es f stk) (x : Tok) :
    x ∈ stk ↔ ∃ e ∈ es, x = openTok e ∧ TokEncl po e f := by
  rw [h.2 x]
  constructor
  · rintro ⟨e, he, rfl, h1, h2⟩
    refine ⟨e, he, rfl, h1, ?_⟩
    have hef : e ≠ f := by
      intro heq; subst heq; exact tokLt_irrefl po _ h1
    have hidx : e.idx ≠ f.idx := fun h => hef (wf.idxInj e he f hf h)
    have hne : closeTok f ≠ closeTok e := fun h => hef (closeTok_inj wf he hf h.symm)
    rcases tokLt_total po (closeTok_ok (wf.durNonneg f hf)) (closeTok_ok (wf.durNonneg e he)) hne with h3 | h3
    · exact h3
    · exact absurd ⟨h1, h2, h3⟩ (laminar po (wf.durNonneg e he) (wf.durNonneg f hf) hidx
        (fun ha hb => wf.nested e he f hf ha hb))
  · rintro ⟨e, he, rfl, h1, h2⟩
    exact ⟨e, he, rfl, h1, tokLt_trans (open_lt_close po (wf.durNonneg f hf)) h2⟩

/-- The parent of `f` as the property states it. -/
def IsParent (es : List Ev) (f : Ev) (p : Int) : Prop :=
  (p = -1 ∧ ∀ c ∈ es, ¬ Encl c f) ∨
  (∃ a ∈ es, p = a.idx ∧ Encl a f ∧ ∀ c ∈ es, Encl c f → c = a ∨ Encl c a)

include wf hperm hs in
/-- **Main theorem.** A positive-duration event's parent is the innermost event whose span
contains it (identical spans nest in id order, touching spans are siblings); it is the root
exactly when no event contains it. -/
theorem C03_parent_is_innermost (f : Ev) (hf : f ∈ es) (hpos : f.dur > 0) (p : Int) (d : Nat)
    (hent : (f.idx, p, d) ∈ build S) : IsParent es f p := by
  obtain ⟨g, hg, stk, hstk, heq⟩ := entry_good po es wf S hperm hs _ hent
  have hgf : g = f := wf.idxInj g hg f hf (by simpa using (congrArg (·.1) heq).symm)
  subst hgf
  have hp : p = parentOf stk := by simpa using congrArg (·.2.1) heq
  have hiff : ∀ c ∈ es, c.idx ≠ g.idx → (TokEncl po c g ↔ Encl c g) := fun c hc hne =>
    tokEncl_iff_encl po (wf.durNonneg c hc) hpos hne (fun hcp => wf.nested c hc g hf hcp hpos)
  cases hst : stk with
  | nil =>
    left
    refine ⟨by rw [hp, hst]; rfl, ?_⟩
    intro c hc henc
    have hne : c.idx ≠ g.idx := henc.1
    have := (stackFor_mem po es wf hf hstk (openTok c)).mpr ⟨c, hc, rfl, (hiff c hc hne).mpr henc⟩
    rw [hst] at this; cases this
  | cons x rest =>
    right
    obtain ⟨a, ha, hxa, hta⟩ := (stackFor_mem po es wf hf hstk x).mp (by rw [hst]; exact List.mem_cons_self)
    subst hxa
    have hane : a.idx ≠ g.idx := by
      intro h
      have : a = g := wf.idxInj a ha g hf h
      subst this; exact tokLt_irrefl po _ hta.1
    have hea : Encl a g := (hiff a ha hane).mp hta
    refine ⟨a, ha, by rw [hp, hst]; simp [parentOf, openTok], hea, ?_⟩
    intro c hc henc
    have hcne : c.idx ≠ g.idx := henc.1
    have htc : TokEncl po c g := (hiff c hc hcne).mpr henc
    have hcin := (stackFor_mem po es wf hf hstk (openTok c)).mpr ⟨c, hc, rfl, htc⟩
    rw [hst] at hcin
    rcases List.mem_cons.mp hcin with h1 | h1
    · left; exact openTok_inj wf hc ha h1
    · right
      have hsorted := hstk.1
      rw [hst] at hsorted
      have hlt : tokLt po (openTok c) (openTok a) := (List.pairwise_cons.mp hsorted).1 _ h1
      have hca : c ≠ a := by intro h; subst h; exact tokLt_irrefl po _ hlt
      have hcaidx : c.idx ≠ a.idx := fun h => hca (wf.idxInj c hc a ha h)
      have hne : closeTok a ≠ closeTok c := fun h => hca (closeTok_inj wf hc ha h.symm)
      have hclose : tokLt po (closeTok a) (closeTok c) := by
        rcases tokLt_total po (closeTok_ok (wf.durNonneg a ha)) (closeTok_ok (wf.durNonneg c hc)) hne with h3 | h3
        · exact h3
        · have h2 : tokLt po (openTok a) (closeTok c) :=
            tokLt_trans hta.1 (tokLt_trans (open_lt_close po (wf.durNonneg g hf)) htc.2)
          exact absurd ⟨hlt, h2, h3⟩ (laminar po (wf.durNonneg c hc) (wf.durNonneg a ha) hcaidx
            (fun h1 h2 => wf.nested c hc a ha h1 h2))
      exact (tokEncl_iff_encl po (wf.durNonneg c hc) hea.2.1 hcaidx
        (fun hcp => wf.nested c hc a ha hcp hea.2.1)).mp ⟨hlt, hclose⟩

/-- The parent relation of the statement is functional: at most one `p` qualifies. -/
theorem isParent_unique
    (f : Ev) (p p' : Int) (h : IsParent es f p) (h' : IsParent es f p') : p = p' := by
  rcases h with ⟨rfl, hno⟩ | ⟨a, ha, rfl, hea, hin⟩ <;> rcases h' with ⟨rfl, hno'⟩ | ⟨a', ha', rfl, hea', hin'⟩
  · rfl
  · exact absurd hea' (hno a' ha')
  · exact absurd hea (hno' a ha)
  · rcases hin a' ha' hea' with h1 | h1
    · rw [h1]
    · rcases hin' a ha hea with h2 | h2
      · rw [h2]
      · exfalso
        unfold Encl Ev.fin at h1 h2
        omega

include wf hperm hs in
/-- An event's depth equals the number of events enclosing it (its ancestors). -/
theorem C03_depth_counts_enclosers (f : Ev) (hf : f ∈ es) (p : Int) (d : Nat)
    (hent : (f.idx, p, d) ∈ build S) :
    d = (es.filter fun e => decide (TokEncl po e f)).length := by
  obtain ⟨g, hg, stk, hstk, heq⟩ := entry_good po es wf S hperm hs _ hent
  have hgf : g = f := wf.idxInj g hg f hf (by simpa using (congrArg (·.1) heq).symm)
  subst hgf
  have hd : d = stk.length := by simpa using congrArg (·.2.2) heq
  rw [hd]
  have hnd1 : stk.Nodup := hstk.1.imp (fun {a b} h heq => by subst heq; exact tokLt_irrefl po _ h)
  have hnd2 : ((es.filter fun e => decide (TokEncl po e g)).map openTok).Nodup := by
    apply nodup_map_of_inj_on (wf.nodup.filter _)
    intro a ha b hb h
    exact openTok_inj wf (List.mem_filter.mp ha).1 (List.mem_filter.mp hb).1 h
  have hperm' : stk.Perm ((es.filter fun e => decide (TokEncl po e g)).map openTok) := by
    apply (List.perm_ext_iff_of_nodup hnd1 hnd2).mpr
    intro x
    rw [stackFor_mem po es wf hf hstk x]
    simp only [List.mem_map, List.mem_filter, decide_eq_true_eq]
    constructor
    · rintro ⟨e, he, rfl, ht⟩; exact ⟨e, ⟨he, ht⟩, rfl⟩
    · rintro ⟨e, ⟨he, ht⟩, rfl⟩; exact ⟨e, he, rfl, ht⟩
  rw [hperm'.length_eq, List.length_map]

include wf hperm hs in
/-- A zero-duration event is placed beneath the root or beneath an event whose closed span
contains its instant. -/
theorem C03_zero_placement (z : Ev) (hz : z ∈ es) (hzero : z.dur = 0) (p : Int) (d : Nat)
    (hent : (z.idx, p, d) ∈ build S) :
    p = -1 ∨ ∃ a ∈ es, p = a.idx ∧ a.ts ≤ z.ts ∧ z.ts ≤ a.ts + a.dur := by
  obtain ⟨g, hg, stk, hstk, heq⟩ := entry_good po es wf S hperm hs _ hent
  have hgf : g = z := wf.idxInj g hg z hz (by simpa using (congrArg (·.1) heq).symm)
  subst hgf
  have hp : p = parentOf stk := by simpa using congrArg (·.2.1) heq
  cases hst : stk with
  | nil => left; rw [hp, hst]; rfl
  | cons x rest =>
    right
    obtain ⟨a, ha, hxa, hta⟩ := (stackFor_mem po es wf hz hstk x).mp (by rw [hst]; exact List.mem_cons_self)
    subst hxa
    have := tokEncl_zero_contains po (wf.durNonneg a ha) hzero hta
    exact ⟨a, ha, by rw [hp, hst]; simp [parentOf, openTok], this.1, this.2⟩

/-- Zero-duration events never change the parent of a positive-duration event: the parent
relation only refers to positive-duration events. -/
theorem isParent_filter_pos (f : Ev) (p : Int) :
    IsParent es f p ↔ IsParent (es.filter fun e => decide (e.dur > 0)) f p := by
  unfold IsParent
  constructor
  · rintro (⟨rfl, hno⟩ | ⟨a, ha, rfl, hea, hin⟩)
    · exact Or.inl ⟨rfl, fun c hc => hno c (List.mem_filter.mp hc).1⟩
    · exact Or.inr ⟨a, List.mem_filter.mpr ⟨ha, by simpa using hea.2.1⟩, rfl, hea,
        fun c hc => hin c (List.mem_filter.mp hc).1⟩
  · rintro (⟨rfl, hno⟩ | ⟨a, ha, rfl, hea, hin⟩)
    · exact Or.inl ⟨rfl, fun c hc henc => hno c (List.mem_filter.mpr ⟨hc, by simpa using henc.2.1⟩) henc⟩
    · exact Or.inr ⟨a, (List.mem_filter.mp ha).1, rfl, hea,
        fun c hc henc => hin c (List.mem_filter.mpr ⟨hc, by simpa using henc.2.1⟩) henc⟩

/-- Spans that merely touch are never ancestor and descendant. -/
theorem C03_touching_not_enclosing (a b : Ev) (ha : a.dur > 0) (hb : b.dur > 0) (ht : a.ts + a.dur = b.ts) :
    ¬ Encl a b ∧ ¬ Encl b a := by
  unfold Encl Ev.fin; omega

/-- Tokens of a well-formed event family: distinct tokens with the same id are the two ends
of one event; `po` is true wherever a positive-duration event starts. -/
def Dom (po : Int → Bool) (x y : Tok) : Prop :=
  TokOk x ∧ TokOk y ∧ x ≠ y ∧
  (x.idx = y.idx → x.dur = y.dur ∧ x.kind ≠ y.kind ∧
    (x.kind = -1 → y.time = x.time + x.dur) ∧ (x.kind = 1 → x.time = y.time + y.dur)) ∧
  (x.kind = -1 → x.dur > 0 → po x.time = true) ∧ (y.kind = -1 → y.dur > 0 → po y.time = true)

/-- The newer builder's comparator `_less_than` is the key order. -/
theorem C03_lessThanNew_is_key_order (po : Int → Bool) (x y : Tok) (h : Dom po x y) :
    lessThanNew po x y = some (decide (tokLt po x y)) := by
  obtain ⟨xi, xd, xk, xt⟩ := x
  obtain ⟨yi, yd, yk, yt⟩ := y
  obtain ⟨⟨hxk, hxd⟩, ⟨hyk, hyd⟩, hne, hsame, hpx, hpy⟩ := h
  simp only at hxk hxd hyk hyd hsame hpx hpy
  have hne' : ¬ (xi = yi ∧ xd = yd ∧ xk = yk ∧ xt = yt) := by
    intro ⟨a, b, c, d⟩; apply hne; subst a; subst b; subst c; subst d; rfl
  by_cases ht : xt = yt
  · subst ht
    cases hp : po xt <;>
    rcases hxk with rfl | rfl <;> rcases hyk with rfl | rfl <;>
    by_cases hxz : xd = 0 <;> by_cases hyz : yd = 0 <;> by_cases hi : xi = yi <;>
    simp [lessThanNew, cmpZeroNew, tokLt, key, keyLt, hp, hxz, hyz, hi] <;>
    first
      | omega
      | (exfalso; have h9 := hpy rfl (by omega); rw [hp] at h9; cases h9; done)
      | (exfalso; have h9 := hpx rfl (by omega); rw [hp] at h9; cases h9; done)
      | ((by_cases hd : xd = yd <;> simp [hd] <;> omega); done)
      | ((constructor <;> (repeat' split) <;> omega); done)
  · rcases hxk with rfl | rfl <;> rcases hyk with rfl | rfl <;>
    by_cases hxz : xd = 0 <;> by_cases hyz : yd = 0 <;>
    simp [lessThanNew, tokLt, key, keyLt, ht, hxz, hyz] <;> omega

/-- The older builder's comparator `compare_events` is the key order (and never reports a tie
between distinct tokens). -/
theorem C03_cmpOld_is_key_order (po : Int → Bool) (x y : Tok) (h : Dom po x y) :
    (cmpOld po x y < 0 ↔ tokLt po x y) ∧ (cmpOld po x y ≠ 0) := by
  obtain ⟨xi, xd, xk, xt⟩ := x
  obtain ⟨yi, yd, yk, yt⟩ := y
  obtain ⟨⟨hxk, hxd⟩, ⟨hyk, hyd⟩, hne, hsame, hpx, hpy⟩ := h
  simp only at hxk hxd hyk hyd hsame hpx hpy
  have hne' : ¬ (xi = yi ∧ xd = yd ∧ xk = yk ∧ xt = yt) := by
    intro ⟨a, b, c, d⟩; apply hne; subst a; subst b; subst c; subst d; rfl
  by_cases ht : xt = yt
  · subst ht
    cases hp : po xt <;>
    rcases hxk with rfl | rfl <;> rcases hyk with rfl | rfl <;>
    by_cases hxz : xd = 0 <;> by_cases hyz : yd = 0 <;> by_cases hi : xi = yi <;>
    simp [cmpOld, tokLt, key, keyLt, hp, hxz, hyz, hi] <;>
    first
      | omega
      | (exfalso; have h9 := hpy rfl (by omega); rw [hp] at h9; cases h9; done)
      | (exfalso; have h9 := hpx rfl (by omega); rw [hp] at h9; cases h9; done)
      | ((by_cases hd : xd = yd <;> simp [hd] <;> omega); done)
      | ((constructor <;> (repeat' split) <;> omega); done)
  · have hsub : xt - yt ≠ 0 := by omega
    rcases hxk with rfl | rfl <;> rcases hyk with rfl | rfl <;>
    by_cases hxz : xd = 0 <;> by_cases hyz : yd = 0 <;> by_cases hi : xi = yi <;>
    simp [cmpOld, tokLt, key, keyLt, ht, hxz, hyz, hi, hsub] <;>
    first
      | omega
      | ((by_cases hd : xd = yd <;> simp [hd] <;> omega); done)
      | ((constructor <;> (repeat' split) <;> omega); done)


/-! ### the executable model sorts with one particular algorithm -/

theorem tokens_ok {es : List Ev} (hd : ∀ e ∈ es, 0 ≤ e.dur) : ∀ t ∈ tokens es, TokOk t := by
  intro t ht
  obtain ⟨e, he, rfl | rfl⟩ := mem_tokens.mp ht
  · exact openTok_ok (hd e he)
  · exact closeTok_ok (hd e he)

theorem tokens_nodup {es : List Ev} (wf : WF es) : (tokens es).Nodup := by
  unfold tokens
  apply List.nodup_append.mpr
  refine ⟨?_, ?_, ?_⟩
  · exact nodup_map_of_inj_on wf.nodup (fun a ha b hb h => openTok_inj wf ha hb h)
  · exact nodup_map_of_inj_on wf.nodup (fun a ha b hb h => closeTok_inj wf ha hb h)
  · intro a ha b hb
    obtain ⟨e, _, rfl⟩ := List.mem_map.mp ha
    obtain ⟨f, _, rfl⟩ := List.mem_map.mp hb
    exact open_ne_close e f

theorem sortToks_spec (po : Int → Bool) {es : List Ev} (wf : WF es) :
    (sortToks po (tokens es)).Perm (tokens es) ∧ (sortToks po (tokens es)).Pairwise (tokLt po) := by
  have hperm : (sortToks po (tokens es)).Perm (tokens es) := List.mergeSort_perm _ _
  refine ⟨hperm, ?_⟩
  have hpw := List.pairwise_mergeSort (le := fun a b => !decide (tokLt po b a))
    (by
      intro a b c h1 h2
      simp only [Bool.not_eq_true', decide_eq_false_iff_not] at h1 h2 ⊢
      unfold tokLt at *
      generalize key po a = ka at *
      generalize key po b = kb at *
      generalize key po c = kc at *
      obtain ⟨a1, a2, a3, a4⟩ := ka
      obtain ⟨b1, b2, b3, b4⟩ := kb
      obtain ⟨c1, c2, c3, c4⟩ := kc
      unfold keyLt at *
      simp only at *
      omega)
    (by
      intro a b
      simp only [Bool.or_eq_true, Bool.not_eq_true', decide_eq_false_iff_not]
      by_cases h : tokLt po b a
      · exact Or.inr (tokLt_asymm h)
      · exact Or.inl h)
    (tokens es)
  have hnd : (sortToks po (tokens es)).Nodup := hperm.nodup_iff.mpr (tokens_nodup wf)
  have hok : ∀ t ∈ sortToks po (tokens es), TokOk t :=
    fun t ht => tokens_ok wf.durNonneg t (hperm.mem_iff.mp ht)
  have h3 := (List.Pairwise.and_mem.mp (hpw.and hnd)).imp (R := fun a b =>
      a ∈ sortToks po (tokens es) ∧ b ∈ sortToks po (tokens es) ∧
        ((!decide (tokLt po b a)) = true ∧ a ≠ b)) (S := tokLt po) (by
    rintro a b ⟨ha, hb, hle, hne⟩
    simp only [Bool.not_eq_true', decide_eq_false_iff_not] at hle
    rcases tokLt_total po (hok a ha) (hok b hb) hne with h | h
    · exact h
    · exact absurd h hle)
  exact h3

/-- The executable model `run` (both builders after sorting) satisfies the main theorem. -/
theorem C03_run_parent_is_innermost (es : List Ev) (wf : WF es) (f : Ev) (hf : f ∈ es) (hpos : f.dur > 0)
    (p : Int) (d : Nat) (hent : (f.idx, p, d) ∈ run es) : IsParent es f p :=
  C03_parent_is_innermost (hasPO es) es wf _ (sortToks_spec _ wf).1 (sortToks_spec _ wf).2 f hf hpos p d hent

theorem C03_run_each_event_once (es : List Ev) (wf : WF es) :
    ((run es).map (·.1)).Perm (es.map (·.idx)) :=
  C03_each_event_once (hasPO es) es wf _ (sortToks_spec _ wf).1 (sortToks_spec _ wf).2

theorem wf_filter_pos {es : List Ev} (wf : WF es) : WF (es.filter fun e => decide (e.dur > 0)) :=
  ⟨fun e he => wf.durNonneg e (List.mem_filter.mp he).1,
   fun a ha b hb => wf.idxInj a (List.mem_filter.mp ha).1 b (List.mem_filter.mp hb).1,
   wf.nodup.filter _,
   fun a ha b hb => wf.nested a (List.mem_filter.mp ha).1 b (List.mem_filter.mp hb).1⟩

/-- Deleting all zero-duration events leaves every positive-duration event's parent unchanged. -/
theorem C03_zero_dur_transparent (es : List Ev) (wf : WF es) (f : Ev) (hf : f ∈ es) (hpos : f.dur > 0)
    (p p' : Int) (d d' : Nat) (h : (f.idx, p, d) ∈ run es)
    (h' : (f.idx, p', d') ∈ run (es.filter fun e => decide (e.dur > 0))) : p = p' := by
  have h1 := C03_run_parent_is_innermost es wf f hf hpos p d h
  have hf' : f ∈ es.filter fun e => decide (e.dur > 0) := List.mem_filter.mpr ⟨hf, by simpa using hpos⟩
  have h2 := C03_run_parent_is_innermost _ (wf_filter_pos wf) f hf' hpos p' d' h'
  exact isParent_unique es f p p' h1 ((isParent_filter_pos es f p').mpr h2)

/-- Non-vacuity and the D2 witness: a zero-duration event exactly where event 1 ends and
event 2 begins; 2 is a root, not a child of 1. -/
example : build [openTok ⟨1, 0, 5⟩, closeTok ⟨1, 0, 5⟩, openTok ⟨2, 5, 5⟩, openTok ⟨3, 5, 0⟩, closeTok ⟨3, 5, 0⟩,
    closeTok ⟨2, 5, 5⟩] = [(1, -1, 0), (2, -1, 0), (3, 2, 1)] := by decide
example : tokLt (hasPO [⟨1, 0, 5⟩, ⟨3, 5, 0⟩, ⟨2, 5, 5⟩]) (closeTok ⟨1, 0, 5⟩) (openTok ⟨2, 5, 5⟩) ∧
    tokLt (hasPO [⟨1, 0, 5⟩, ⟨3, 5, 0⟩, ⟨2, 5, 5⟩]) (openTok ⟨2, 5, 5⟩) (openTok ⟨3, 5, 0⟩) := by decide
example : build [openTok ⟨9, 0, 10⟩, openTok ⟨4, 0, 10⟩, openTok ⟨7, 3, 0⟩, closeTok ⟨7, 3, 0⟩,
    closeTok ⟨4, 0, 10⟩, closeTok ⟨9, 0, 10⟩] = [(9, -1, 0), (4, 9, 1), (7, 4, 2)] := by decide

end Hta.C03
