import HtaVerif.Model.C19
/-!
# C19 — a saved critical-path graph restores to an identical graph

The theorem covers the node-link encoding; pickle, CSV, zip and the extraction directory are
exercised by the correspondence run, not modelled.
-/
namespace Hta.C19

theorem filter_flatMap_self (nodes : List Nat) (f : Nat → List (Nat × Attr)) (u : Nat)
    (hnd : nodes.Nodup) (hu : u ∈ nodes) :
    ((nodes.flatMap fun x => (f x).map fun e => (x, e.1, e.2)).filter fun l => l.1 == u).map
      (fun l => (l.2.1, l.2.2)) = f u := by
  induction nodes with
  | nil => cases hu
  | cons x xs ih =>
    have hnd' := List.nodup_cons.mp hnd
    simp only [List.flatMap_cons, List.filter_append, List.map_append]
    rcases List.mem_cons.mp hu with rfl | hu'
    · have h1 : (((f u).map fun e => (u, e.1, e.2)).filter fun l => l.1 == u) = (f u).map fun e => (u, e.1, e.2) := by
        apply List.filter_eq_self.mpr
        intro l hl
        obtain ⟨e, _, rfl⟩ := List.mem_map.mp hl
        simp
      have h2 : ((xs.flatMap fun x => (f x).map fun e => (x, e.1, e.2)).filter fun l => l.1 == u) = [] := by
        apply List.filter_eq_nil_iff.mpr
        intro l hl
        obtain ⟨y, hy, hl'⟩ := List.mem_flatMap.mp hl
        obtain ⟨e, _, rfl⟩ := List.mem_map.mp hl'
        have : y ≠ u := fun h => hnd'.1 (h ▸ hy)
        simpa using this
      rw [h1, h2]
      simp [List.map_map, Function.comp_def]
    · have hne : x ≠ u := fun h => hnd'.1 (h ▸ hu')
      have h1 : (((f x).map fun e => (x, e.1, e.2)).filter fun l => l.1 == u) = [] := by
        apply List.filter_eq_nil_iff.mpr
        intro l hl
        obtain ⟨e, _, rfl⟩ := List.mem_map.mp hl
        simpa using hne
      rw [h1]
      simpa using ih hnd'.2 hu'

theorem find_map_pair {β : Type} (nodes : List Nat) (g : Nat → β) (u : Nat) (hu : u ∈ nodes) :
    (nodes.map fun x => (x, g x)).find? (fun p => p.1 == u) = some (u, g u) := by
  induction nodes with
  | nil => cases hu
  | cons x xs ih =>
    simp only [List.map_cons, List.find?_cons]
    by_cases hx : x = u
    · subst hx; simp
    · have : (x == u) = false := by simpa using hx
      simp only [this]
      rcases List.mem_cons.mp hu with h | h
      · exact absurd h.symm hx
      · exact ih h

/-- Restoring what was saved yields the same nodes and, for every node, the same out-edges
with the same payload in the same order. -/
theorem C19_decode_encode (a : Adj) (wf : a.nodes.Nodup) :
    (decode (encode a)).nodes = a.nodes ∧ ∀ u ∈ a.nodes, outOf (decode (encode a)) u = outOf a u := by
  refine ⟨rfl, ?_⟩
  intro u hu
  have hfind := find_map_pair a.nodes
    (fun x => ((encode a).links.filter fun l => l.1 == x).map fun l => (l.2.1, l.2.2)) u hu
  show (((decode (encode a)).out.find? fun p => p.1 == u).map (·.2)).getD [] = outOf a u
  have hout : (decode (encode a)).out = a.nodes.map fun x =>
      (x, ((encode a).links.filter fun l => l.1 == x).map fun l => (l.2.1, l.2.2)) := rfl
  rw [hout, hfind]
  simp only [Option.map_some, Option.getD_some]
  exact filter_flatMap_self a.nodes (outOf a) u wf hu

/-- Nodes outside the node list have no out-edges after a round trip. -/
theorem C19_decode_no_extra (a : Adj) (u : Nat) (hu : u ∉ a.nodes) :
    outOf (decode (encode a)) u = [] := by
  unfold outOf decode
  have : (List.map (fun u => (u, List.map (fun l => (l.2.1, l.2.2)) (List.filter (fun l => l.1 == u) (encode a).links)))
      (encode a).nodes).find? (fun p => p.1 == u) = none := by
    apply List.find?_eq_none.mpr
    intro p hp
    obtain ⟨x, hx, rfl⟩ := List.mem_map.mp hp
    have : x ≠ u := fun h => hu (h ▸ hx)
    simpa using this
  simp [this]

/-- Observational equality of adjacencies (what `graph.adj` iteration shows). -/
def Same (a b : Adj) : Prop := a.nodes = b.nodes ∧ ∀ u ∈ a.nodes, outOf a u = outOf b u

theorem Same.trans {a b c : Adj} (h1 : Same a b) (h2 : Same b c) : Same a c :=
  ⟨h1.1.trans h2.1, fun u hu => (h1.2 u hu).trans (h2.2 u (h1.1 ▸ hu))⟩

/-- Any number of save/restore cycles yields the same graph. -/
theorem C19_roundtrip_n (n : Nat) (a : Adj) (wf : a.nodes.Nodup) : Same a (roundtrip n a) := by
  induction n generalizing a with
  | zero => exact ⟨rfl, fun _ _ => rfl⟩
  | succ n ih =>
    have h1 := C19_decode_encode a wf
    have wf' : (decode (encode a)).nodes.Nodup := by rw [h1.1]; exact wf
    exact Same.trans ⟨h1.1.symm, fun u hu => (h1.2 u hu).symm⟩ (ih _ wf')

/-- The number of edges is preserved (edge multiset is, by `C19_decode_encode`). -/
theorem C19_link_count (a : Adj) :
    (encode a).links.length = (a.nodes.map fun u => (outOf a u).length).sum := by
  unfold encode
  simp only [List.length_flatMap, List.length_map]

/-- Non-vacuity: a three-node graph with a zero-weight edge and two edges out of node 0. -/
example : decode (encode ⟨[0, 1, 2], [(0, [(1, (5, "OPERATOR_KERNEL")), (2, (0, "DEPENDENCY"))]), (1, [(2, (3, "KERNEL_KERNEL_DELAY"))]), (2, [])]⟩)
    = ⟨[0, 1, 2], [(0, [(1, (5, "OPERATOR_KERNEL")), (2, (0, "DEPENDENCY"))]), (1, [(2, (3, "KERNEL_KERNEL_DELAY"))]), (2, [])]⟩ := by
  decide

end Hta.C19

namespace Hta.C19

theorem read_write_same (s : Store) (dir : String) (d : NodeLink) : (s.write dir d).read dir = some d := by
  simp [Store.write, Store.read]

theorem read_write_other (s : Store) (dir dir' : String) (d : NodeLink) (h : dir' ≠ dir) :
    (s.write dir d).read dir' = s.read dir' := by
  have : (dir == dir') = false := by
    have : dir ≠ dir' := fun e => h e.symm
    simpa using this
  simp [Store.write, Store.read, List.find?_cons, this]

/-- After any history, what a directory holds is the encoding of the graph saved to it most
recently — saves to other directories and restores in between do not disturb it. -/
theorem read_run (s : Store) (ops : List Op) (dir : String) :
    (run s ops).read dir = match lastSaved dir ops with
      | some a => some (encode a)
      | none => s.read dir := by
  induction ops generalizing s with
  | nil => simp [run, lastSaved]
  | cons op ops ih =>
    simp only [run, lastSaved]
    rw [ih]
    cases hl : lastSaved dir ops with
    | some a => rfl
    | none =>
      cases op with
      | restore d => simp [step]
      | save d a =>
        simp only [step]
        by_cases hd : d = dir
        · subst hd; simp [read_write_same]
        · have hd' : (d == dir) = false := by simpa using hd
          simp only [hd']
          exact read_write_other s d dir (encode a) (fun e => hd e.symm)

/-- Histories: in every sequence of saves and restores, a restore from `dir` yields a graph
observationally equal to the one most recently saved to `dir` (not an earlier one, not one
saved elsewhere). -/
theorem C19_restore_returns_last_saved (s : Store) (ops : List Op) (dir : String) (a : Adj)
    (hl : lastSaved dir ops = some a) (wf : a.nodes.Nodup) :
    ∃ b, (step (run s ops) (.restore dir)).2 = some b ∧ Same a b := by
  have h := read_run s ops dir
  rw [hl] at h
  refine ⟨decode (encode a), ?_, ?_⟩
  · simp [step, h]
  · have := C19_decode_encode a wf
    exact ⟨this.1.symm, fun u hu => (this.2 u hu).symm⟩

/-- non-vacuity: save A to "d", restore, save B to "d": the directory holds B -/
example : lastSaved "d" [.save "d" ⟨[0], [(0, [])]⟩, .restore "d", .save "e" ⟨[5], [(5, [])]⟩, .save "d" ⟨[0, 1], [(0, [(1, (3, "x"))]), (1, [])]⟩]
    = some ⟨[0, 1], [(0, [(1, (3, "x"))]), (1, [])]⟩ := by decide

end Hta.C19
