import HtaVerif.Model.C05
/-
C05 — statements.

Kernel-type table: for every non-zero combination `m` of analysed kernel types, the reported
time is the time during which exactly that combination is running (`maskAt = m`); the rows
add up to the measure of the union of all analysed kernels.

Per-kernel table: the reported sums (named rows and "others") add up to the total duration
of the kernels; at most `num_kernels` named rows; a named row's sum / max / min / count
(hence mean) are those of the kernels bearing that name.
-/
namespace Hta.C05

def TypeTimeHolds (types : List (Int × List Iv)) (lo : Int) (n : Nat) (time : Int → Int) : Prop :=
  ∀ m : Int, m ≠ 0 → time m = cells lo n (fun t => maskAt types t == m)

def AggrHolds (ks : List (String × Int)) (numKernels : Nat) (o : AggrOut) : Prop :=
  sumL (o.named.map (·.sum)) + o.others.getD 0 = sumL (ks.map (·.2)) ∧
  o.named.length ≤ numKernels ∧
  (o.named.map (·.name)).Nodup ∧
  ∀ s ∈ o.named, s.name ∈ ks.map (·.1) ∧ s = statOf ks s.name

/-- Executable form of `AggrHolds` for the implementation's output. -/
def checkAggr (ks : List (String × Int)) (numKernels : Nat) (o : AggrOut) : Bool :=
  (sumL (o.named.map (·.sum)) + o.others.getD 0 == sumL (ks.map (·.2))) &&
  decide (o.named.length ≤ numKernels) &&
  (distinct (o.named.map (·.name))).length == o.named.length &&
  o.named.all fun s => (ks.map (·.1)).contains s.name && s == statOf ks s.name

/-- Exact time of mask `m` by cell counting, over the window spanned by all intervals. -/
def exactTypeTime (types : List (Int × List Iv)) (m : Int) : Int :=
  let all := types.flatMap (·.2)
  let lo := minStart all
  let n := (maxEnd all - lo).toNat
  cells lo n (fun t => maskAt types t == m)

end Hta.C05
