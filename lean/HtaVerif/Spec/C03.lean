import HtaVerif.Model.C03
/-
C03 — statement.
-/
namespace Hta.C03

def Ev.fin (e : Ev) : Int := e.ts + e.dur

/-- Spans of positive duration on one thread are properly nested. -/
def Nested (es : List Ev) : Prop :=
  ∀ a ∈ es, ∀ b ∈ es, a.dur > 0 → b.dur > 0 →
    a.fin ≤ b.ts ∨ b.fin ≤ a.ts ∨ (a.ts ≤ b.ts ∧ b.fin ≤ a.fin) ∨ (b.ts ≤ a.ts ∧ a.fin ≤ b.fin)

structure WF (es : List Ev) : Prop where
  durNonneg : ∀ e ∈ es, 0 ≤ e.dur
  idxInj : ∀ a ∈ es, ∀ b ∈ es, a.idx = b.idx → a = b
  nodup : es.Nodup
  nested : Nested es

/-- `a` encloses the positive-duration event `b`: `a`'s span contains `b`'s; identical spans
nest in id order; spans that merely touch do not enclose each other. -/
def Encl (a b : Ev) : Prop :=
  a.idx ≠ b.idx ∧ a.dur > 0 ∧ a.ts ≤ b.ts ∧ b.fin ≤ a.fin ∧ ((a.ts = b.ts ∧ a.dur = b.dur) → a.idx < b.idx)

/-- Enclosure in the order both builders sort the endpoint tokens by. -/
def TokEncl (po : Int → Bool) (a b : Ev) : Prop :=
  tokLt po (openTok a) (openTok b) ∧ tokLt po (closeTok b) (closeTok a)

instance (po : Int → Bool) (a b : Ev) : Decidable (TokEncl po a b) := by
  unfold TokEncl; infer_instance

end Hta.C03
