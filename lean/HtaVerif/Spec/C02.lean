import HtaVerif.Model.C02
/-
C02 — statement.
-/
namespace Hta.C02

/-- `p` is a counterpart of `r`: same correlation id (not -1), opposite side. -/
def Partner (rows : List Row) (r p : Row) : Prop :=
  p ∈ rows ∧ p.corr = r.corr ∧ r.corr ≠ -1 ∧ devSide p ≠ devSide r

/-- Well-formedness used by C02: event ids are unique and a correlation id pairs at most one
host-side row with at most one device-side row. -/
structure WF (rows : List Row) : Prop where
  idxInj : ∀ a ∈ rows, ∀ b ∈ rows, a.idx = b.idx → a = b
  paired : ∀ a ∈ rows, ∀ b ∈ rows, a.corr = b.corr → a.corr ≠ -1 → devSide a = devSide b → a = b

/-- The link of every row: the id of its counterpart when there is one, else the sentinel. -/
def Holds (rows : List Row) (link : Row → Int) : Prop :=
  ∀ r ∈ rows,
    (∀ p, Partner rows r p → link r = p.idx ∧ link p = r.idx) ∧
    ((¬ ∃ p, Partner rows r p) → link r = min r.corr 0)

end Hta.C02
