import HtaVerif.Model.Interval
import HtaVerif.Model.C04
/-
C04 — statement. With `K` the device activities of a rank (as intervals), `C ⊆ K` the
computation kernels, `lo` the earliest start and `hi` the latest end over `K`:
kernel_time = hi - lo; idle = measure of the span covered by no activity; compute = measure
of the union of computation kernels; non_compute = the remainder; all non-negative, summing
exactly to kernel_time.
-/
namespace Hta.C04

/-- `lo`/`hi` are the extreme endpoints of `K` (attained, and bounding everything). -/
def IsSpan (K : List Iv) (lo hi : Int) : Prop :=
  (∃ x ∈ K, x.1 = lo) ∧ (∃ x ∈ K, x.2 = hi) ∧ ∀ x ∈ K, lo ≤ x.1 ∧ x.2 ≤ hi

def Holds (K C : List Iv) (o : Out) : Prop :=
  ∃ lo hi : Int, IsSpan K lo hi ∧
    o.kernelTime = hi - lo ∧
    o.idle = cells lo (hi - lo).toNat (fun t => !covers K t) ∧
    o.compute = cells lo (hi - lo).toNat (covers C) ∧
    o.nonCompute = cells lo (hi - lo).toNat (fun t => covers K t && !covers C t) ∧
    o.idle + o.compute + o.nonCompute = o.kernelTime

/-- Executable form of `Holds`, used on the implementation's own output. -/
def check (K C : List Iv) (o : Out) : Bool :=
  match K with
  | [] => false
  | _ =>
    let lo := minStart K
    let hi := maxEnd K
    let n := (hi - lo).toNat
    o.kernelTime == hi - lo &&
    o.idle == (cells lo n (fun t => !covers K t) : Int) &&
    o.compute == (cells lo n (covers C) : Int) &&
    o.nonCompute == (cells lo n (fun t => covers K t && !covers C t) : Int) &&
    o.idle + o.compute + o.nonCompute == o.kernelTime

end Hta.C04
