import HtaVerif.Model.C08
/-
C08 — statement and an executable checker that is run on the implementation's own graph.
-/
namespace Hta.C08

/-- Weight rule of one edge. -/
def WeightOK (rows : List Row) (e : Edge) : Prop :=
  ((e.ty = .dep ∨ e.ty = .sync) → e.weight = 0) ∧
  (e.weight = 0 ∨ e.weight = tsOf rows e.dst - tsOf rows e.src)

def Forward (rows : List Row) (e : Edge) : Prop := tsOf rows e.src ≤ tsOf rows e.dst

/-- A walk along edges. -/
inductive Walk (edges : List Edge) : NodeId → NodeId → Prop
  | single (e : Edge) : e ∈ edges → Walk edges e.src e.dst
  | cons (e : Edge) {c : NodeId} : e ∈ edges → Walk edges e.dst c → Walk edges e.src c

def Acyclic (edges : List Edge) : Prop := ∀ n, ¬ Walk edges n n

/-- Certificate check: every edge goes strictly up in the supplied rank. -/
def checkTopo (edges : List Edge) (rank : NodeId → Nat) : Bool :=
  edges.all fun e => decide (rank e.src < rank e.dst)

/-- Executable forms used on the implementation's graph. -/
def checkWeights (rows : List Row) (edges : List Edge) : Bool :=
  edges.all fun e =>
    (if e.ty == .dep || e.ty == .sync then e.weight == 0 else true) &&
    (e.weight == 0 || e.weight == tsOf rows e.dst - tsOf rows e.src) && decide (0 ≤ e.weight)

def checkForward (rows : List Row) (edges : List Edge) : Bool :=
  edges.all fun e => decide (tsOf rows e.src ≤ tsOf rows e.dst)

/-- Type discipline: a launch-delay edge runs from the start of a launch call to the start of
the kernel linked to it; a kernel-kernel edge from the end of a kernel to the start of a
kernel of the same stream; a synchronisation edge from a kernel's end to the end of a host
call or the start of a kernel. -/
def checkTypes (rows : List Row) (edges : List Edge) : Bool :=
  edges.all fun e =>
    match findRow rows e.src.ev, findRow rows e.dst.ev with
    | some s, some d =>
      match e.ty with
      | .launch => e.src.isStart && e.dst.isStart && s.stream == -1 && d.stream != -1 && d.link == s.idx
      | .kk => !e.src.isStart && e.dst.isStart && s.stream != -1 && s.stream == d.stream
      | .sync => !e.src.isStart && s.stream != -1 &&
          ((!e.dst.isStart && d.stream == -1) || (e.dst.isStart && d.stream != -1))
      | _ => true
    | _, _ => false

end Hta.C08
