import HtaVerif.Model.C06
/-
C06 — statements for one stream whose kernels do not overlap.
-/
namespace Hta.C06

/-- Kernels of one stream do not overlap (symmetric, so independent of the list order). -/
def NoOverlap (ks : List K) : Prop := ks.Pairwise fun a b => a.fin ≤ b.ts ∨ b.fin ≤ a.ts

def SortedK (ks : List K) : Prop := ks.Pairwise fun a b => kLe a b = true

def sumGaps : List (Int × Cat) → Int
  | [] => 0
  | g :: gs => g.1 + sumGaps gs

def sumDur : List K → Int
  | [] => 0
  | k :: ks => k.dur + sumDur ks

def lastFin (prevEnd : Int) : List K → Int
  | [] => prevEnd
  | k :: ks => lastFin k.fin ks

def K.iv (k : K) : Iv := (k.ts, k.fin)

end Hta.C06
