import HtaVerif.Model.C07
/-
C07 — statement: numerator = time during which at least one communication kernel and at
least one computation kernel run simultaneously; denominator = time during which at least
one communication kernel runs; 0 ≤ num ≤ den (so the percentage lies in [0,100]).
-/
namespace Hta.C07

def Holds (comm comp : List Iv) (lo : Int) (n : Nat) (o : Out) : Prop :=
  o.num = cells lo n (fun t => covers comm t && covers comp t) ∧
  o.den = cells lo n (covers comm) ∧
  0 ≤ o.num ∧ o.num ≤ o.den

def window (comm comp : List Iv) : Int × Nat :=
  let all := comm ++ comp
  let lo := minStart all
  (lo, (maxEnd all - lo).toNat)

/-- Executable numerator/denominator by cell counting (for checking the implementation's
percentage against the statement). -/
def exact (comm comp : List Iv) : Out :=
  let w := window comm comp
  { num := cells w.1 w.2 (fun t => covers comm t && covers comp t),
    den := cells w.1 w.2 (covers comm) }

end Hta.C07
