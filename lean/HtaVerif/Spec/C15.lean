import HtaVerif.Model.C15
/-
C15 — statement: exactly one row per linked pair (launch call with a selected name, device
activity with the same correlation id); durations are the two events' durations; the delay
is the activity's start minus the call's end, floored at 0.
-/
namespace Hta.C15

/-- `(h, d)` is a launch/activity pair of the selected kind. -/
def IsPair (withMem : Bool) (rows : List Row) (h d : Row) : Prop :=
  h ∈ rows ∧ d ∈ rows ∧ h.stream = -1 ∧ d.stream ≠ -1 ∧ d.corr = h.corr ∧ selected withMem h.name = true

/-- A correlation id pairs at most one host call with at most one device activity, and the
selected launch names only occur on host rows (well-formed trace). -/
structure WF (withMem : Bool) (rows : List Row) : Prop where
  hostNodup : ((rows.filter fun r => r.stream == -1).map (·.corr)).Nodup
  devNodup : ((rows.filter fun r => r.stream != -1).map (·.corr)).Nodup
  launchesOnHost : ∀ r ∈ rows, selected withMem r.name = true → r.stream = -1

def Holds (withMem : Bool) (rows : List Row) (out : List Out) : Prop :=
  (∀ h d, IsPair withMem rows h d → mkOut h d ∈ out) ∧
  (∀ o ∈ out, ∃ h d, IsPair withMem rows h d ∧ o = mkOut h d) ∧
  (out.map (·.corr)).Nodup

end Hta.C15
