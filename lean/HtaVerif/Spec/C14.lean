import HtaVerif.Model.C14
/-
C14 — statements, for one stream. `pairs` are the linked (launch ts, activity start ts) pairs
of that stream; the series is the running sum over the sorted markers.
-/
namespace Hta.C14

/-- `(launch ts, +1)` and `(start ts, -1)` for every linked pair. -/
def qmarkers : List (Int × Int) → List Marker
  | [] => []
  | p :: ps => (p.1, 1) :: (p.2, -1) :: qmarkers ps

/-- launches issued up to `t` minus activities started up to `t`. -/
def outstanding : List (Int × Int) → Int → Int
  | [], _ => 0
  | p :: ps, t => (if p.1 ≤ t then 1 else 0) - (if p.2 ≤ t then 1 else 0) + outstanding ps t

def SortedByKey (ms : List Marker) : Prop := ms.Pairwise keyLe

end Hta.C14
