import HtaVerif.Model.Row
import HtaVerif.Model.C02
import HtaVerif.Model.KernelType
/-
C12 — `add_iteration` and `Trace._filter_irrelevant_gpu_kernels`.
-/
namespace Hta.C12

def isDigit (c : Char) : Bool := c.isDigit
def isSpace (c : Char) : Bool := c == ' ' || c == '\t' || c == '\n' || c == '\r' || c == '\x0b' || c == '\x0c'

def digitsVal (cs : List Char) : Int :=
  cs.foldl (fun acc c => acc * 10 + (c.toNat - '0'.toNat : Nat)) 0

/-- `re.match(r"ProfilerStep\s*#\s*(\d+)", s)` followed by `int(m.group(1))`;
`none` = no match (the code then raises). -/
def stepIter (n : String) : Option Int :=
  let cs := n.toList
  if "ProfilerStep".toList.isPrefixOf cs then
    let r1 := (cs.drop 12).dropWhile isSpace
    match r1 with
    | '#' :: r2 =>
      let r3 := r2.dropWhile isSpace
      let ds := r3.takeWhile isDigit
      if ds.isEmpty then none else some (digitsVal ds)
    | _ => none
  else none

/-- Rows taken as profiler steps by `add_iteration`: name starts with "ProfilerStep". -/
def isStepStart (n : String) : Bool := "ProfilerStep".toList.isPrefixOf n.toList

/-- Symbols counted / selected by the trimming: "ProfilerStep" occurs anywhere in the string. -/
def hasStep (n : String) : Bool := containsSub n.toList "ProfilerStep".toList

structure Step where
  ts : Int
  dur : Int
  num : Int
  deriving Repr, BEq, DecidableEq

def Step.contains (s : Step) (t : Int) : Bool := decide (s.ts ≤ t) && decide (t < s.ts + s.dur)

/-- `_get_profiler_step`: the *last* step (in frame order) whose half-open span contains `ts`. -/
def iterHost (steps : List Step) (t : Int) : Int :=
  steps.foldl (fun acc s => if s.contains t then s.num else acc) (-1)

def stepsOf (rows : List Row) : Option (List Step) :=
  (rows.filter fun r => isStepStart r.name).mapM fun r =>
    (stepIter r.name).map fun k => { ts := r.ts, dur := r.dur, num := k : Step }

/-- Iteration of every row: host rows (`stream < 0`) by their start, device rows
(`stream > 0`) through the link (`-1` when unlinked). -/
def iterOf (rows : List Row) (steps : List Step) (r : Row) : Int :=
  if r.stream < 0 then iterHost steps r.ts
  else if r.stream > 0 then
    if r.link > 0 then
      match rows.find? (fun h => h.idx == r.link) with
      | some h => if h.stream < 0 then iterHost steps h.ts else -1
      | none => -1
    else -1
  else -1

def runIter (rows : List Row) : Option (List (Int × Int)) :=
  (stepsOf rows).map fun steps => rows.map fun r => (r.idx, iterOf rows steps r)

/-! ### trimming -/

def maxL : List Int → Option Int
  | [] => none
  | x :: xs => match maxL xs with
    | none => some x
    | some m => some (max x m)

def keepPred (includeLast : Bool) (lastStart lastEnd : Int) (r : Row) : Bool :=
  if includeLast then decide (r.ts ≤ lastEnd) else decide (r.ts < lastStart)

/-- Kept host-side rows of one rank. -/
def keptHost (includeLast : Bool) (rows : List Row) : List Row :=
  let cpu := rows.filter fun r => !C02.devSide r
  let steps := cpu.filter fun r => hasStep r.name
  match maxL (steps.map (·.ts)), maxL (steps.map Row.fin) with
  | some lastStart, some lastEnd =>
    cpu.filter (keepPred includeLast lastStart lastEnd)
  | _, _ => []

/-- Device rows whose correlation id (other than -1) is carried by a kept host row — a semi-join
(`gpu_kernels[gpu_kernels.correlation.isin(launched)]`) — then `concat([gpu, cpu])`. -/
def trimRank (includeLast : Bool) (rows : List Row) : List Row :=
  let kept := keptHost includeLast rows
  let gpu := rows.filter C02.devSide
  (gpu.filter fun d => d.corr != -1 && kept.any fun h => h.corr == d.corr) ++ kept

/-- `nStepSymbols` = number of distinct symbols of the global table containing "ProfilerStep". -/
def load (includeLast : Bool) (nStepSymbols : Nat) (ranks : List (List Row)) : List (List Row) :=
  if nStepSymbols ≥ 2 then ranks.map (trimRank includeLast) else ranks

def distinctStr : List String → List String
  | [] => []
  | n :: rest => n :: (distinctStr rest).filter (· != n)

def countStepSymbols (ranks : List (List Row)) : Nat :=
  (distinctStr ((ranks.flatten.flatMap fun r => [r.name, r.cat]).filter hasStep)).length

end Hta.C12
