import HtaVerif.Model.Row
/-
C01 — `_parse_trace_dataframe_json` (position -> `index`), `round_down_time_stamps`,
`_compress_df` (drop entries lacking dur/cat and the 'Trace' span; args -> columns with
defaults), `parse_trace_file` (`end = ts + dur`), `Trace._align_all_ranks`.

Times are carried in thousandths of a microsecond (exact decimal arithmetic on the file's
values); an integer-microsecond file has all values multiples of 1000.
-/
namespace Hta.C01

structure RawEntry where
  ts : Int                 -- in 1/1000 us
  dur : Option Int         -- in 1/1000 us; `none` = the entry has no "dur"
  cat : Option String
  name : String
  pid : Int
  tid : Int
  stream : Option Int      -- args["stream"]
  corr : Option Int        -- args["correlation"]
  deriving Repr, BEq, DecidableEq

/-- A complete event: carries a duration and a category other than the profiler's own span. -/
def complete (e : RawEntry) : Bool :=
  e.dur.isSome && e.cat.isSome && e.cat != some "Trace"

/-- `math.ceil` of `n/1000`. -/
def ceilUs (n : Int) : Int := (n + 999) / 1000
/-- `math.floor` of `n/1000`. -/
def floorUs (n : Int) : Int := n / 1000

structure PRow where
  idx : Int
  ts : Int       -- us
  dur : Int
  fin : Int      -- `end`
  pid : Int
  tid : Int
  stream : Int
  corr : Int
  name : String
  cat : String
  deriving Repr, BEq, DecidableEq

/-- Rounded start / end of an entry (inward). -/
def startOf (e : RawEntry) : Int := ceilUs e.ts
def endOf (e : RawEntry) (d : Int) : Int := floorUs (e.ts + d)

def rowOf (i : Nat) (e : RawEntry) : Option PRow :=
  match e.dur, e.cat with
  | some d, some c =>
    if c == "Trace" then none
    else
      let s := startOf e
      let f := endOf e d
      some { idx := i, ts := s, dur := f - s, fin := s + (f - s), pid := e.pid, tid := e.tid,
             stream := e.stream.getD (-1), corr := e.corr.getD (-1), name := e.name, cat := c }
  | _, _ => none

def parseFrom (i : Nat) : List RawEntry → List PRow
  | [] => []
  | e :: es => match rowOf i e with
    | some r => r :: parseFrom (i + 1) es
    | none => parseFrom (i + 1) es

def parseRank (es : List RawEntry) : List PRow := parseFrom 0 es

def minL : List Int → Option Int
  | [] => none
  | x :: xs => match minL xs with
    | none => some x
    | some m => some (min x m)

/-- `min(trace_df["ts"].min() for trace_df in traces)` -/
def minTs (ranks : List (List PRow)) : Option Int := minL (ranks.flatten.map (·.ts))

def shift (c : Int) (r : PRow) : PRow := { r with ts := r.ts - c, fin := r.fin - c }

/-- `_align_all_ranks` (with `end` shifted together with `ts`). -/
def align (ranks : List (List PRow)) : Int × List (List PRow) :=
  match minTs ranks with
  | none => (0, ranks)
  | some c => (c, ranks.map fun rows => rows.map (shift c))

def loadAll (files : List (List RawEntry)) : Int × List (List PRow) :=
  align (files.map parseRank)

end Hta.C01
