import HtaVerif.Model.Interval
import HtaVerif.Model.Row
import HtaVerif.Model.KernelType
import HtaVerif.Model.C04
/-
C07 — `CommunicationAnalysis.get_comm_comp_overlap.get_comm_comp_overlap_value`:
merge per type, markers (plus or minus 1 for communication, 2 for computation), sort by time, cumsum,
rows with `running == 3` weigh `next_time - time`; divided by the merged communication time.
-/
namespace Hta.C07

structure Out where
  num : Int
  den : Int
  deriving Repr, BEq, DecidableEq

/-- On start-sorted inputs and an already time-sorted marker list. -/
def overlapOf (mComm : List Iv) (ms : List Marker) : Out :=
  { num := sweep (fun r => r == 3) ms, den := sumLen mComm }

def markers (mComm mComp : List Iv) : List Marker :=
  markersOf 1 mComm ++ markersOf 2 mComp

def run (classify : String → KType) (rows : List Row) : Out :=
  let K := C04.deviceRows rows
  let comm := (K.filter fun r => classify r.name == .communication).map Row.iv
  let comp := (K.filter fun r => classify r.name == .computation).map Row.iv
  let mComm := mergeSorted (C04.sortIv comm)
  let mComp := mergeSorted (C04.sortIv comp)
  overlapOf mComm (sortMarkers (markers mComm mComp))

end Hta.C07
