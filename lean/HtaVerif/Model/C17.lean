import HtaVerif.Model.Row
import HtaVerif.Model.C05
/-
C17 — `LabeledTrace.extract_ops`, `get_ops_summary`, `TraceDiff.compare_traces`, `ops_diff`,
and `hta/utils/utils.py: shorten_name`.
-/
namespace Hta.C17

inductive Device | cpu | gpu | all
  deriving Repr, BEq, DecidableEq

/-- `extract_ops`: rows of the selected ranks (already concatenated by the caller), filtered
by iteration and device side (`stream == -1` / `stream != -1`). -/
def extractOps (iterations : List Int) (dev : Device) (rows : List Row) : List Row :=
  (rows.filter fun r => iterations.contains r.iter).filter fun r =>
    match dev with
    | .cpu => r.stream == -1
    | .gpu => r.stream != -1
    | .all => true

/-! ### shorten_name -/

def popUntil (open_ : Char) : List Char → List Char
  | [] => []
  | c :: rest => if c == open_ then rest else popUntil open_ rest

/-- The stack loop of `shorten_name` (the stack is kept reversed: head = top). -/
def shortenGo : List Char → List Char → List Char
  | stack, [] => stack
  | stack, c :: cs =>
    if c == '>' then shortenGo (popUntil '<' stack) cs
    else if c == ')' then shortenGo (popUntil '(' stack) cs
    else shortenGo (c :: stack) cs

def removeArrow : List Char → List Char
  | '-' :: '>' :: rest => removeArrow rest
  | c :: rest => c :: removeArrow rest
  | [] => []

def lastWord (cs : List Char) : List Char :=
  (cs.reverse.takeWhile (· != ' ')).reverse

def shortenName (n : String) : String :=
  if isMemoryKernel n then n
  else
    let cs := n.toList
    if !cs.contains '<' && !cs.contains '(' then n
    else String.ofList (lastWord (shortenGo [] (removeArrow cs)).reverse)

/-! ### comparison table -/

/-- `(count, total duration)` of the events bearing key `n`. -/
def summaryOf (evs : List (String × Int)) (n : String) : Nat × Int :=
  let ds := C05.dursOf evs n
  (ds.length, C05.sumL ds)

structure DiffRow where
  name : String
  controlCount : Nat
  testCount : Nat
  controlDur : Int
  testDur : Int
  diffCount : Int
  diffDur : Int
  deriving Repr, BEq, DecidableEq

def mkRow (control test : List (String × Int)) (n : String) : DiffRow :=
  let c := summaryOf control n
  let t := summaryOf test n
  { name := n, controlCount := c.1, testCount := t.1, controlDur := c.2, testDur := t.2,
    diffCount := (t.1 : Int) - (c.1 : Int), diffDur := t.2 - c.2 }

/-- Outer union of the names of both sides, one row each. -/
def compare (control test : List (String × Int)) : List DiffRow :=
  (C05.distinct ((control ++ test).map (·.1))).map (mkRow control test)

inductive Change | added | deleted | increased | decreased | unchanged
  deriving Repr, BEq, DecidableEq

/-- The five selections of `ops_diff`, as predicates on a row. -/
def isAdded (r : DiffRow) : Bool := r.controlCount == 0 && decide (r.testCount > 0)
def isDeleted (r : DiffRow) : Bool := decide (r.controlCount > 0) && r.testCount == 0
def isIncreased (r : DiffRow) : Bool := decide (r.controlCount > 0) && decide (r.diffCount > 0)
def isDecreased (r : DiffRow) : Bool := decide (r.testCount > 0) && decide (r.diffCount < 0)
def isUnchanged (r : DiffRow) : Bool := decide (r.testCount > 0) && r.diffCount == 0

def keyed (short : Bool) (rows : List Row) : List (String × Int) :=
  rows.map fun r => (if short then shortenName r.name else r.name, r.dur)

def run (short : Bool) (dev : Device) (cIter tIter : List Int) (cRows tRows : List Row) : List DiffRow :=
  compare (keyed short (extractOps cIter dev cRows)) (keyed short (extractOps tIter dev tRows))

end Hta.C17
