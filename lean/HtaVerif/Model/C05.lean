import HtaVerif.Model.Interval
import HtaVerif.Model.Row
import HtaVerif.Model.KernelType
import HtaVerif.Model.C04
/-
C05 — `BreakdownAnalysis._get_gpu_kernel_type_time` (kernel-type table) and
`_aggr_gpu_kernel_time` (per-kernel table).
-/
namespace Hta.C05

/-! ### kernel-type table -/

/-- Analysed kernel types with their marker value `1 << idx`
(`kernel_type_to_analysis`: COMPUTATION, COMMUNICATION, and MEMORY when requested). -/
def typeValues (withMemory : Bool) : List (KType × Int) :=
  [(.computation, 1), (.communication, 2)] ++ (if withMemory then [(.memory, 4)] else [])

/-- Markers of all analysed types: each type's kernels merged, then `+v` at starts, `-v` at ends. -/
def markersAll : List (Int × List Iv) → List Marker
  | [] => []
  | (v, s) :: rest => markersOf v (mergeSorted s) ++ markersAll rest

/-- The set of types active at `t`, encoded as the sum of their values. -/
def maskAt : List (Int × List Iv) → Int → Int
  | [], _ => 0
  | (v, s) :: rest, t => (if covers s t then v else 0) + maskAt rest t

/-- Time attributed to `running == m` by the sweep over a time-sorted marker list. -/
def typeTime (ms : List Marker) (m : Int) : Int := sweep (fun r => r == m) ms

def perType (classify : String → KType) (withMemory : Bool) (rows : List Row) : List (Int × List Iv) :=
  let K := C04.deviceRows rows
  (typeValues withMemory).map fun (ty, v) =>
    (v, C04.sortIv ((K.filter fun r => classify r.name == ty).map Row.iv))

/-- Per rank: the time of every non-zero mask `1 .. 2^k - 1`. -/
def runTypeTimes (classify : String → KType) (withMemory : Bool) (rows : List Row) : List (Int × Int) :=
  let ms := sortMarkers (markersAll (perType classify withMemory rows))
  let top : Nat := if withMemory then 7 else 3
  (List.range top).map fun (i : Nat) => (Int.ofNat i + 1, typeTime ms (Int.ofNat i + 1))

/-- Row label of a mask: names of the set bits, in analysis order, joined by " overlapping ". -/
def maskLabel (m : Nat) : String :=
  let parts := (if m % 2 == 1 then ["COMPUTATION"] else []) ++
    (if (m / 2) % 2 == 1 then ["COMMUNICATION"] else []) ++
    (if (m / 4) % 2 == 1 then ["MEMORY"] else [])
  " overlapping ".intercalate parts

/-! ### per-kernel table -/

structure Stat where
  name : String
  sum : Int
  max : Int
  min : Int
  count : Nat
  deriving Repr, BEq, DecidableEq

def sumL : List Int → Int
  | [] => 0
  | x :: xs => x + sumL xs

def maxL : List Int → Int
  | [] => 0
  | [x] => x
  | x :: xs => max x (maxL xs)

def minL : List Int → Int
  | [] => 0
  | [x] => x
  | x :: xs => min x (minL xs)

/-- Durations of the kernels bearing name `n`. -/
def dursOf (ks : List (String × Int)) (n : String) : List Int :=
  (ks.filter fun k => k.1 == n).map (·.2)

/-- `groupby("name")["dur"].agg(["sum","max","min","mean"])` for one name (mean = sum/count). -/
def statOf (ks : List (String × Int)) (n : String) : Stat :=
  let ds := dursOf ks n
  { name := n, sum := sumL ds, max := maxL ds, min := minL ds, count := ds.length }

/-- Distinct names in order of first occurrence. -/
def distinct : List String → List String
  | [] => []
  | n :: rest => n :: (distinct rest).filter (· != n)

def groupStats (ks : List (String × Int)) : List Stat :=
  (distinct (ks.map (·.1))).map (statOf ks)

structure AggrOut where
  named : List Stat
  others : Option Int     -- sum of the "others" row, when present
  deriving Repr, BEq, DecidableEq

/-- `_aggr_gpu_kernel_time` on the per-name statistics already ordered by descending sum
(`st`; the order among equal sums is pandas' choice and a parameter here), with the
quantile cut given as the first position `j0` whose cumulative sum exceeds the quantile. -/
def aggrOrdered (st : List Stat) (numKernels j0 : Nat) : AggrOut :=
  if st.length > numKernels then
    let b := min j0 numKernels
    { named := st.take b, others := some (sumL ((st.drop b).map (·.sum))) }
  else
    { named := st, others := none }

def sortStats (st : List Stat) : List Stat :=
  st.mergeSort fun a b => decide (a.sum ≥ b.sum)

def runAggr (ks : List (String × Int)) (numKernels j0 : Nat) : AggrOut :=
  aggrOrdered (sortStats (groupStats ks)) numKernels j0

end Hta.C05
