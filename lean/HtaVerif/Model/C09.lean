/-
C09 — `CPGraph.critical_path`: the HTA part is thin (node path -> consecutive pairs -> edge
objects -> event set); the optimisation is `networkx.dag_longest_path`. The Lean side is a
verified *checker*: path validity, path weight, a longest-path dynamic programme over a
topological order, and a potential-function certificate.
-/
namespace Hta.C09

structure WEdge where
  src : Nat
  dst : Nat
  w : Int
  deriving Repr, BEq, DecidableEq

def findEdge (es : List WEdge) (u v : Nat) : Option WEdge := es.find? fun e => e.src == u && e.dst == v

/-- consecutive nodes of `p` are joined by edges of the graph -/
def isPath (es : List WEdge) : List Nat → Bool
  | [] => false
  | [_] => true
  | u :: v :: rest => (findEdge es u v).isSome && isPath es (v :: rest)

def pathWeight (es : List WEdge) : List Nat → Int
  | u :: v :: rest => ((findEdge es u v).map (·.w)).getD 0 + pathWeight es (v :: rest)
  | _ => 0

/-- `critical_path_edges_set`: the edges joining consecutive path nodes. -/
def pathEdges (es : List WEdge) : List Nat → List WEdge
  | u :: v :: rest => (findEdge es u v).toList ++ pathEdges es (v :: rest)
  | _ => []

/-- longest-path DP: `dist v = max 0 (max over in-edges (dist u + w))`, nodes in topological order -/
def dpStep (es : List WEdge) (dist : List (Nat × Int)) (v : Nat) : List (Nat × Int) :=
  let look := fun (u : Nat) => ((dist.find? fun p => p.1 == u).map (·.2)).getD 0
  let cands := (es.filter fun e => e.dst == v).map fun e => look e.src + e.w
  dist ++ [(v, cands.foldl max 0)]

def dp (es : List WEdge) (order : List Nat) : List (Nat × Int) := order.foldl (dpStep es) []

def distOf (d : List (Nat × Int)) (v : Nat) : Int := ((d.find? fun p => p.1 == v).map (·.2)).getD 0

def best (d : List (Nat × Int)) : Int := (d.map (·.2)).foldl max 0

/-- certificate check: `d` is a potential (every edge is "tight or slack") and non-negative -/
def checkPotential (es : List WEdge) (d : Nat → Int) (bound : Int) (nodes : List Nat) : Bool :=
  es.all (fun e => decide (d e.src + e.w ≤ d e.dst)) && nodes.all fun v => decide (0 ≤ d v) && decide (d v ≤ bound)

end Hta.C09
