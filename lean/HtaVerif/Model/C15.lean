import HtaVerif.Model.Row
/-
C15 — `CudaKernelAnalysis.cuda_kernel_launch_stats`: correlations of the rows named as a
kernel launch (plus memcpy/memset launches when requested); host rows (`stream == -1`) and
device rows (`stream != -1`) with one of those correlations; inner merge on correlation;
`launch_delay = (ts_y - ts_x - dur_x).clip(lower=0)`.
-/
namespace Hta.C15

def kernelLaunchNames : List String :=
  ["cudaLaunchKernel", "cudaLaunchKernelExC", "runFunction - job_prep_and_submit_for_execution"]

def memoryLaunchNames : List String := ["cudaMemsetAsync", "cudaMemcpyAsync"]

def selected (withMem : Bool) (n : String) : Bool :=
  kernelLaunchNames.contains n || (withMem && memoryLaunchNames.contains n)

structure Out where
  corr : Int
  cpuDur : Int
  gpuDur : Int
  delay : Int
  deriving Repr, BEq, DecidableEq

def mkOut (h d : Row) : Out :=
  { corr := h.corr, cpuDur := h.dur, gpuDur := d.dur, delay := max 0 (d.ts - h.ts - h.dur) }

def run (withMem : Bool) (rows : List Row) : List Out :=
  let merged := (rows.filter fun r => selected withMem r.name).map (·.corr)
  let cpu := rows.filter fun r => r.stream == -1 && merged.contains r.corr
  let gpu := rows.filter fun r => r.stream != -1 && merged.contains r.corr
  cpu.flatMap fun h => (gpu.filter fun d => d.corr == h.corr).map fun d => mkOut h d

end Hta.C15
