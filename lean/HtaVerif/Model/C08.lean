import HtaVerif.Model.Row
import HtaVerif.Model.C03
import HtaVerif.Model.C13
import HtaVerif.Model.C14
import HtaVerif.Model.KernelType
/-
C08 — the critical-path graph: window clipping (`critical_path_analysis`),
`CPGraph._create_event_nodes`, `_construct_graph_from_call_stack` (DFS enter/exit with the
closure variables `last_node`, `last_ev_parent`, `last_highlevel_op`, `op_depth`),
`_construct_graph_from_kernels` (launch-delay / kernel-kernel / synchronisation edges for
Stream Sync and Context Sync), `_add_edge_helper` (weight rule), `_attribute_edge`.

Stage 2 (CUDA event record / stream-wait / event-synchronize matching) is included.
-/
namespace Hta.C08

/-- A node of the graph: the start or the end of an event. -/
structure NodeId where
  ev : Int
  isStart : Bool
  deriving Repr, BEq, DecidableEq

inductive ETy | op | dep | launch | kk | sync
  deriving Repr, BEq, DecidableEq

structure Edge where
  src : NodeId
  dst : NodeId
  weight : Int
  ty : ETy
  deriving Repr, BEq, DecidableEq

structure G where
  edges : List Edge
  attr : List (NodeId × NodeId × Int)       -- `edge_to_event_map`
  deriving Repr, BEq, DecidableEq

def blockingCalls : List String :=
  ["cudaDeviceSynchronize", "cudaStreamSynchronize", "cudaEventQuery", "cudaEventSynchronize",
   "cudaMemcpy", "cudaMemcpyAsync"]

/-! ### window clipping -/

def minL : List Int → Option Int
  | [] => none
  | x :: xs => match minL xs with | none => some x | some m => some (min x m)
def maxL : List Int → Option Int
  | [] => none
  | x :: xs => match maxL xs with | none => some x | some m => some (max x m)

/-- `(start_ts, end_ts)` of the analysed window. -/
def window (rows : List Row) (ann : String) (iS iE : Nat) : Option (Int × Int) :=
  let sel := if ann == "" then rows
    else ((rows.filter fun r => containsSub r.name.toList ann.toList).drop iS).take (iE + 1 - iS)
  match minL (sel.map (·.ts)), maxL (sel.map Row.fin) with
  | some s, some e => some (s, e)
  | _, _ => none

def inWindow (w : Int × Int) (r : Row) : Bool :=
  decide (r.ts ≥ w.1) && decide (r.ts ≤ w.2) && decide (r.dur > 0)

/-- Host events that start inside the window (positive duration), and device events whose
runtime call does; in event-id order. -/
def clip (rows : List Row) (w : Int × Int) : List Row :=
  let keep := rows.filter fun r =>
    if r.stream == -1 then inWindow w r
    else (rows.any fun h => h.stream == -1 && h.link == r.idx && inWindow w h) || r.name == "Stream Wait Event"
  keep.mergeSort fun a b => decide (a.idx ≤ b.idx)

/-! ### nodes -/

/-- Events represented in the graph: operators, CUDA runtime/driver calls, linked device events. -/
def hasNode (r : Row) : Bool :=
  r.cat == "cpu_op" || r.cat == "cuda_runtime" || r.cat == "cuda_driver" ||
    (r.stream != -1 && decide (r.link ≥ 0))

def nodeTs (r : Row) (isStart : Bool) : Int := if isStart then r.ts else r.ts + r.dur

def nodesOf (clipped : List Row) : List (NodeId × Int) :=
  (clipped.filter hasNode).flatMap fun r => [(⟨r.idx, true⟩, r.ts), (⟨r.idx, false⟩, r.ts + r.dur)]

def findRow (rows : List Row) (i : Int) : Option Row := rows.find? fun r => r.idx == i

def tsOf (rows : List Row) (n : NodeId) : Int :=
  match findRow rows n.ev with
  | some r => nodeTs r n.isStart
  | none => 0

/-! ### edges -/

/-- `_add_edge_helper`: dependency and synchronisation edges (and zero-weight ones) weigh 0,
everything else the time difference of its endpoints. -/
def mkEdge (rows : List Row) (src dst : NodeId) (ty : ETy) (zeroWeight : Bool) : Edge :=
  { src, dst, ty,
    weight := if ty == .dep || ty == .sync || zeroWeight then 0 else tsOf rows dst - tsOf rows src }

/-- networkx `DiGraph.add_edge`: a second edge between the same two nodes replaces the first. -/
def addEdge (g : G) (e : Edge) : G :=
  { g with edges := (g.edges.filter fun x => !(decide (x.src = e.src) && decide (x.dst = e.dst))) ++ [e] }

/-- The event `_attribute_edge` picks for an attributable edge. -/
def attrEv (e : Edge) (srcParent : Int) : Int :=
  if e.ty == .kk then e.src.ev
  else if e.src.isStart then e.src.ev
  else if !e.dst.isStart then e.dst.ev
  else srcParent

/-- `_attribute_edge` -/
def attributeEdge (g : G) (e : Edge) (srcParent : Int) : G :=
  if e.ty != .op && e.ty != .kk then g
  else
    { g with attr := (g.attr.filter fun x => !(decide (x.1 = e.src) && decide (x.2.1 = e.dst)))
        ++ [(e.src, e.dst, attrEv e srcParent)] }

/-- What the construction emits: an edge to add through `_add_edge_helper`, followed by
`_attribute_edge(e, par)` (a no-op for edge types that carry no attribution). -/
structure Desc where
  src : NodeId
  dst : NodeId
  ty : ETy
  zero : Bool
  par : Int
  deriving Repr, BEq, DecidableEq

def applyDesc (rows : List Row) (g : G) (d : Desc) : G :=
  let e := mkEdge rows d.src d.dst d.ty d.zero
  attributeEdge (addEdge g e) e d.par

def applyAll (rows : List Row) (g : G) (ds : List Desc) : G := ds.foldl (applyDesc rows) g

/-! ### call-stack edges: the DFS of a thread's call stack visits start/end nodes in the
order of the sorted endpoint tokens -/

structure DS where
  lastNode : Option NodeId
  lastPar : Int
  lastHigh : Option NodeId
  depth : Nat
  deriving Repr, BEq, DecidableEq

/-- `enter_func` / `exit_func` for one token: the new closure state and the emitted edges. -/
def dfsStep (nodeEv : Int → Bool) (parent : Int → Int) (blocking : Int → Bool)
    (s : DS) (t : C03.Tok) : DS × List Desc :=
  if !nodeEv t.idx then
    -- an event without graph nodes (e.g. a user annotation): when it ends, edges leaving it are
    -- attributed to its parent from now on
    (if t.kind == 1 && s.lastPar == t.idx then { s with lastPar := parent t.idx } else s, [])
  else if t.kind == -1 then
    let start : NodeId := ⟨t.idx, true⟩
    let dep : List Desc := match s.depth, s.lastHigh with
      | 0, some h => [⟨h, start, .dep, false, -1⟩]
      | _, _ => []
    let span : List Desc := match s.lastNode with
      | some ln => [⟨ln, start, .op, false, s.lastPar⟩]
      | none => []
    (⟨some start, parent t.idx, s.lastHigh, s.depth + 1⟩, dep ++ span)
  else
    let endN : NodeId := ⟨t.idx, false⟩
    let d := s.depth - 1
    let span : List Desc := match s.lastNode with
      | some ln => [⟨ln, endN, .op, blocking t.idx, s.lastPar⟩]
      | none => []
    if d == 0 then (⟨none, s.lastPar, some endN, 0⟩, span)
    else (⟨some endN, parent t.idx, s.lastHigh, d⟩, span)

def dfsRun (nodeEv : Int → Bool) (parent : Int → Int) (blocking : Int → Bool) :
    DS → List C03.Tok → List Desc
  | _, [] => []
  | s, t :: ts =>
    let r := dfsStep nodeEv parent blocking s t
    r.2 ++ dfsRun nodeEv parent blocking r.1 ts

def threadDescs (clipped : List Row) (t : Int × Int) : List Desc :=
  let rs := C13.threadRows clipped t
  if rs.any (fun r => decide (r.stream > 0)) || !(rs.all fun r => decide (r.stream < 0)) then []
  else
    let evs := rs.map fun r => (⟨r.idx, r.ts, max r.dur 0⟩ : C03.Ev)
    let entries := C03.run evs
    let parent := fun (i : Int) => ((entries.find? fun e => e.1 == i).map (·.2.1)).getD (-1)
    let nodeEv := fun (i : Int) => ((findRow clipped i).map hasNode).getD false
    let blocking := fun (i : Int) => ((findRow clipped i).map fun r => blockingCalls.contains r.name).getD false
    dfsRun nodeEv parent blocking ⟨none, -1, none, 0⟩ (C03.sortToks (C03.hasPO evs) (C03.tokens evs))

/-! ### kernel edges -/

def queueOf (series : List (Int × List (Int × Int × Int × Int × Int))) (i : Int) : Option Int :=
  (series.flatMap (·.2)).find? (fun x => x.1 == i) |>.map (·.2.2.2.2)

/-- stream -> last kernel end node, in insertion order -/
abbrev KS := List (Int × NodeId)

def lastOn (l : KS) (s : Int) : Option NodeId := (l.find? fun x => x.1 == s).map (·.2)

def setLast (l : KS) (s : Int) (n : NodeId) : KS :=
  if l.any (fun x => x.1 == s) then l.map fun x => if x.1 == s then (s, n) else x else l ++ [(s, n)]

/-! #### CUDA-event based synchronisation (stage 2): `_get_cuda_runtime_calls_df`,
`_get_cuda_event_to_stream_df`, `_get_cuda_event_record_df` (`find_previous_launch`),
`_get_cuda_stream_wait_event_df` (`find_next_launch`) -/

/-- `wait_on_stream` / `wait_on_cuda_event_record_corr_id` of the rows that carry them:
`(event id, wait_on_stream, wait_on_cuda_event_record_corr_id)`; every other row has `(-1, -1)`. -/
abbrev Waits := List (Int × Int × Int)

def waitOf (ws : Waits) (i : Int) : Int × Int := ((ws.find? fun w => w.1 == i).map (·.2)).getD (-1, -1)

def launchNames : List String :=
  ["cudaMemsetAsync", "cudaMemcpyAsync", "cudaLaunchKernel", "cudaLaunchKernelExC", "cuLaunchKernel",
   "runFunction - job_prep_and_submit_for_execution", "hipLaunchKernel", "hipExtModuleLaunchKernel",
   "hipMemcpyAsync", "hipMemsetAsync", "hipMemcpyWithStream"]

/-- A row of `_get_cuda_runtime_calls_df`: the launch call, the stream and the device (pid) of the
activity it launched. The position in the list is the `launch_id`. -/
structure Launch where
  call : Row
  stream : Int
  gpu : Int
  deriving Repr, BEq

def sortByTs (l : List Row) : List Row := l.mergeSort fun a b => decide (a.ts ≤ b.ts)

/-- Launch calls linked to a device activity, in start order (inner merge with the linked device rows). -/
def launches (rows : List Row) : List Launch :=
  (sortByTs (rows.filter fun r => launchNames.contains r.name && decide (r.link > 0))).filterMap fun c =>
    (rows.find? fun k => k.idx == c.link && k.stream != -1 && decide (k.link > 0)).map fun k => ⟨c, k.stream, k.pid⟩

/-- `_get_cuda_event_to_stream_df`: the stream and device an event record was made on, read off the
synchronisation records that wait for it. -/
def recordStream (rows : List Row) (ws : Waits) (corr : Int) : Option (Int × Int) :=
  (rows.find? fun r => decide ((waitOf ws r.idx).1 > -1) && (waitOf ws r.idx).2 == corr).map fun r => ((waitOf ws r.idx).1, r.pid)

/-- position (= `launch_id`) of the last element satisfying `p` -/
def lastIdx {α : Type} (p : α → Bool) : List α → Nat → Option Nat → Option Nat
  | [], _, acc => acc
  | x :: xs, i, acc => lastIdx p xs (i + 1) (if p x then some i else acc)

/-- `find_previous_launch`: for a `cudaEventRecord` call whose stream is known, the id of the launch
call that most recently (by start time) put work on that stream of that device; -1 if none. -/
def prevLaunch (rows : List Row) (ws : Waits) (rec : Row) : Int :=
  match recordStream rows ws rec.corr with
  | none => -1
  | some (s, gpu) =>
    let ls := launches rows
    match lastIdx (fun (l : Launch) => l.stream == s && l.gpu == gpu && decide (l.call.ts ≤ rec.ts)) ls 0 none with
    | some i => ((ls[i]?).map (·.call.idx)).getD (-1)
    | none => -1

/-- `index_previous_launch` as joined onto a synchronisation record through
`wait_on_cuda_event_record_corr_id` (-1 when no event record matches). -/
def prevLaunchOfSync (rows : List Row) (ws : Waits) (r : Row) : Int :=
  let wc := (waitOf ws r.idx).2
  match rows.find? fun c => c.name == "cudaEventRecord" && c.corr == wc && (recordStream rows ws c.corr).isSome with
  | some c => prevLaunch rows ws c
  | none => -1

/-- `find_next_launch`: for a linked `cudaStreamWaitEvent` call, the id of the next launch call of the
same host thread that puts work on the waiting stream; -1 if none. `none`: the call is not in the table. -/
def nextLaunch (rows : List Row) (callIdx : Int) : Option Int :=
  match rows.find? fun c => c.idx == callIdx && c.name == "cudaStreamWaitEvent" && decide (c.link > 0) with
  | none => none
  | some c =>
    match rows.find? fun k => k.idx == c.link && k.stream != -1 && decide (k.link > 0) with
    | none => none
    | some k =>
      some (((launches rows).find? fun l =>
        l.call.pid == c.pid && l.call.tid == c.tid && l.stream == k.stream && decide (l.call.ts > c.ts)).map (·.call.idx) |>.getD (-1))

def linkOf (rows : List Row) (i : Int) : Int := ((findRow rows i).map (·.link)).getD (-1)
def streamOf (rows : List Row) (i : Int) : Int := ((findRow rows i).map (·.stream)).getD (-1)

/-- pending GPU->GPU dependencies: waiting kernel -> kernel to wait for (`none` once consumed) -/
abbrev KSync := List (Int × Option Int)

def ksGet (m : KSync) (i : Int) : Option (Option Int) := (m.find? fun x => x.1 == i).map (·.2)
def ksSet (m : KSync) (i : Int) (v : Option Int) : KSync :=
  if m.any (fun x => x.1 == i) then m.map fun x => if x.1 == i then (i, v) else x else m ++ [(i, v)]

structure KState where
  last : KS
  ksync : KSync
  deriving Repr, BEq

/-- Has the analysis any event records to join with (`cuda_record_calls is not None`)? -/
def hasRecords (rows : List Row) (ws : Waits) : Bool :=
  rows.any fun c => c.name == "cudaEventRecord" && (recordStream rows ws c.corr).isSome

/-- `index_previous_launch` of a synchronisation record as the kernel loop sees it. -/
def syncPrev (rows : List Row) (ws : Waits) (r : Row) : Int :=
  if hasRecords rows ws then prevLaunchOfSync rows ws r else -1

def hasNodeIn (clipped : List Row) (i : Int) : Bool := ((findRow clipped i).map hasNode).getD false

/-- `handle_cuda_sync` for `Stream Wait Event` / `Event Sync` records. -/
def eventStep (rows clipped : List Row) (ws : Waits) (st : KState) (r : Row) : KState × List Desc :=
  if syncPrev rows ws r == -1 then (st, [])
  else if r.name == "Stream Wait Event" then
    match nextLaunch rows r.link with
    | some nl =>
      if nl < 0 then (st, [])
      -- waiting for an event of the same stream is implied by stream order: nothing is scheduled
      else if streamOf rows (linkOf rows (syncPrev rows ws r)) == streamOf rows (linkOf rows nl) then (st, [])
      else ({ st with ksync := ksSet st.ksync (linkOf rows nl) (some (linkOf rows (syncPrev rows ws r))) }, [])
    | none => (st, [])
  else if hasNodeIn clipped (linkOf rows (syncPrev rows ws r)) && hasNodeIn clipped r.link then
    (st, [⟨⟨linkOf rows (syncPrev rows ws r), false⟩, ⟨r.link, false⟩, .sync, false, -1⟩])
  else (st, [])

/-- The end node of the kernel a pending GPU->GPU dependency makes `i` wait for (if that kernel is analysed). -/
def ksEndOf (clipped : List Row) (ks : KSync) (i : Int) : Option NodeId :=
  match ksGet ks i with
  | some (some s) => if hasNodeIn clipped s then some ⟨s, false⟩ else none
  | _ => none

def kernelStep (rows clipped : List Row) (ws : Waits) (q : Int → Option Int) (zeroLaunch : Bool) (st : KState) (r : Row) :
    KState × List Desc :=
  let hasN := hasNodeIn clipped
  if r.cat == "cuda_sync" then
    if r.name == "Stream Wait Event" || r.name == "Event Sync" then eventStep rows clipped ws st r
    else if (r.name == "Stream Sync" || r.name == "Context Sync") && hasN r.link then
      let srcs := if r.name == "Context Sync" then st.last.map (·.2) else (lastOn st.last r.stream).toList
      (st, srcs.map fun n => (⟨n, ⟨r.link, false⟩, .sync, false, -1⟩ : Desc))
    else (st, [])
  else
    let startN : NodeId := ⟨r.idx, true⟩
    let endN : NodeId := ⟨r.idx, false⟩
    let span : List Desc := [⟨startN, endN, .op, false, -1⟩]
    -- a pending GPU->GPU dependency scheduled by an earlier Stream Wait Event
    let ksEnd : Option NodeId := ksEndOf clipped st.ksync r.idx
    let ksync' := match ksGet st.ksync r.idx with
      | some (some _) => ksSet st.ksync r.idx none
      | _ => st.ksync
    let gsync : List Desc := match ksEnd with
      | some n => [⟨n, startN, .sync, false, -1⟩]
      | none => []
    let lastN := lastOn st.last r.stream
    let rtTs := ((findRow rows r.link).map (·.ts)).getD 0
    let launchCond := q r.link == some 1 && q r.idx == some 0 &&
      (match lastN with | none => true | some n => decide (tsOf rows n < rtTs)) &&
      (match ksEnd with | none => true | some n => decide (tsOf rows n < rtTs))
    let launched := launchCond && hasN r.link
    let delay : List Desc :=
      if launched then [⟨⟨r.link, true⟩, startN, .launch, false, -1⟩]
      else match lastN with
        | some n =>
          if (match ksEnd with | none => true | some k => decide (tsOf rows k < tsOf rows n)) then [⟨n, startN, .kk, false, -1⟩] else []
        | none => []
    let zl : List Desc := if zeroLaunch && !launched && hasN r.link then
        [⟨⟨r.link, true⟩, startN, .launch, true, -1⟩] else []
    ({ last := setLast st.last r.stream endN, ksync := ksync' }, span ++ gsync ++ delay ++ zl)

def kernelRun (rows clipped : List Row) (ws : Waits) (q : Int → Option Int) (zeroLaunch : Bool) :
    KState → List Row → List Desc
  | _, [] => []
  | st, r :: rs =>
    let x := kernelStep rows clipped ws q zeroLaunch st r
    x.2 ++ kernelRun rows clipped ws q zeroLaunch x.1 rs

def kernelRows (rows clipped : List Row) : List Row :=
  let ks := clipped.filter fun r =>
    (r.stream != -1 || r.name == "Event Sync" || r.name == "Context Sync") && decide (r.link ≥ 0)
  let key : Row → Int × Int × Int := fun (r : Row) =>
    (if r.cat == "cuda_sync" then r.ts + r.dur else r.ts, r.ts + r.dur, ((findRow rows r.link).map (·.ts)).getD 0)
  ks.mergeSort fun a b =>
    let ka := key a
    let kb := key b
    decide (ka.1 < kb.1) || (ka.1 == kb.1 && (decide (ka.2.1 < kb.2.1) || (ka.2.1 == kb.2.1 && decide (ka.2.2 ≤ kb.2.2))))

/-- Everything the construction emits, in order: call-stack edges thread by thread, then the
kernel loop. -/
def descs (rows clipped : List Row) (ws : Waits) (zeroLaunch : Bool) : List Desc :=
  (C13.threadsOf clipped).flatMap (threadDescs clipped) ++
    kernelRun rows clipped ws (queueOf (C14.run rows)) zeroLaunch ⟨[], []⟩ (kernelRows rows clipped)

/-- The whole graph for a window of one rank. -/
def build (rows : List Row) (ws : Waits) (w : Int × Int) (zeroLaunch : Bool) : List Row × G :=
  let clipped := clip rows w
  (clipped, applyAll rows ⟨[], []⟩ (descs rows clipped ws zeroLaunch))

end Hta.C08
