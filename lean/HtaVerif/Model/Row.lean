/-
A row of a loaded trace frame (`Trace.get_trace(rank)`), with names and categories as
*strings*: integer symbol ids exist only in the symbol-table model (C11).
-/
namespace Hta

structure Row where
  idx : Int          -- position in the file's traceEvents list (`index`)
  ts : Int
  dur : Int
  pid : Int
  tid : Int
  stream : Int       -- -1 = host side
  corr : Int         -- -1 = none
  link : Int := -1   -- `index_correlation`
  iter : Int := -1   -- `iteration`
  name : String
  cat : String
  deriving Repr, BEq, Inhabited

def Row.fin (r : Row) : Int := r.ts + r.dur

/-- `(ts, ts + dur)` -/
def Row.iv (r : Row) : Int × Int := (r.ts, r.ts + r.dur)

end Hta
