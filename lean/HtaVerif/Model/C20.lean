/-
C20 — files written by the tool: the trace with counters, the critical-path overlay, the
trace-file writer/reader and the rank update. Events are opaque (`Nat` ids interned by the
harness); the model is the list surgery the code performs on them.
-/
namespace Hta.C20

/-! ### trace with counters (`generate_trace_with_counters`) -/

def withCounters (raw cs : List Nat) : List Nat := raw ++ cs

/-- Checker evaluated on the implementation's output: `out` is `src` followed by counter
events only (`isC` tells, per output position, whether the event is a counter event). -/
def checkAppendOnly (src out : List Nat) (isC : List Bool) : Bool :=
  decide (out.take src.length = src) && decide (src.length ≤ out.length) && (isC.drop src.length).all id
    && decide (isC.length = out.length)

/-! ### overlay (`overlay_critical_path_analysis`) -/

/-- What the overlay reads of a source event. -/
structure Src where
  isX : Bool          -- ph == "X"
  keepCat : Bool      -- cat in [user_annotation, python_function]
  pid : Int
  tid : Int
  ts : Int
  dur : Int
  onDevice : Bool     -- args.device >= 0
  deriving Repr, DecidableEq

structure Edge where
  srcEv : Nat
  srcIsStart : Bool
  dstEv : Nat
  dstIsStart : Bool
  weight : Int
  type : String
  critical : Bool
  deriving Repr, DecidableEq

inductive Out where
  | src (i : Nat) (marked : Bool)
  | flow (id : Nat) (isStart : Bool) (pid tid ts : Int) (cat : String) (weight : Int) (critical : Bool)
  deriving Repr, DecidableEq

def isCrit (crit : List Nat) (i : Nat) : Bool := crit.contains i

/-- the events kept: all of them, or with `onlyCritical` the non-complete events, the
annotations and the marked ones -/
def keep (crit : List Nat) (onlyCritical : Bool) (i : Nat) (e : Src) : Bool :=
  !onlyCritical || !e.isX || e.keepCat || isCrit crit i

def headFrom (crit : List Nat) (onlyCritical : Bool) : Nat → List Src → List Out
  | _, [] => []
  | i, e :: es =>
    if keep crit onlyCritical i e then Out.src i (isCrit crit i) :: headFrom crit onlyCritical (i + 1) es
    else headFrom crit onlyCritical (i + 1) es

def head (raw : List Src) (crit : List Nat) (onlyCritical : Bool) : List Out := headFrom crit onlyCritical 0 raw

def zeroLaunch (e : Edge) : Bool := e.type == "critical_path_kernel_launch_delay" && e.weight == 0

/-- which edges are drawn -/
def drawn (all critEdges : List Edge) (onlyCritical showAll showZero : Bool) : List Edge :=
  if showAll && !onlyCritical then (if showZero then all else all.filter fun e => !zeroLaunch e)
  else critEdges

/-- time at which a flow event is placed: the node's time, with the end of a device event
pulled back by one unit (when it has any length) so that the arrow binds to the slice -/
def flowTs (e : Src) (isStart : Bool) : Int :=
  if isStart then e.ts else e.ts + e.dur - (if e.onDevice then min 1 e.dur else 0)

def dflt : Src := ⟨false, false, 0, 0, 0, 0, false⟩

def flowPair (raw : List Src) (k : Nat) (e : Edge) : List Out :=
  let a := raw.getD e.srcEv dflt
  let b := raw.getD e.dstEv dflt
  [Out.flow k true a.pid a.tid (flowTs a e.srcIsStart) e.type e.weight e.critical,
   Out.flow k false b.pid b.tid (flowTs b e.dstIsStart) e.type e.weight e.critical]

def flowsFrom (raw : List Src) : Nat → List Edge → List Out
  | _, [] => []
  | k, e :: es => flowPair raw k e ++ flowsFrom raw (k + 1) es

def overlay (raw : List Src) (crit : List Nat) (all critEdges : List Edge) (onlyCritical showAll showZero : Bool) : List Out :=
  head raw crit onlyCritical ++ flowsFrom raw 0 (drawn all critEdges onlyCritical showAll showZero)

/-! ### rank update (`update_trace_rank`) on a document given as an ordered key/value list -/

abbrev Doc := List (String × Nat)

def setKey (d : Doc) (k : String) (v : Nat) : Doc :=
  if d.any (fun p => p.1 == k) then d.map (fun p => if p.1 == k then (p.1, v) else p) else d ++ [(k, v)]

def getKey (d : Doc) (k : String) : Option Nat := (d.find? fun p => p.1 == k).map (·.2)

/-- `_add_rank_meta` on the distributedInfo object (`none` when the document has none) -/
def setRank (di : Option Doc) (r : Nat) : Doc :=
  match di with
  | some d => setKey d "rank" r
  | none => [("rank", r)]

end Hta.C20
