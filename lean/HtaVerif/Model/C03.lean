/-
C03 — the two call-stack builders:
  new: `hta/common/trace_call_stack.py` (`_less_than`, `_cmp_events_with_zero_duration`,
       `sort_events`, `CallStackGraph._construct_call_stack_graph`)
  old: `hta/common/call_stack.py` (`compare_events`, `_construct_call_stack_graph`)
Both sort the 2n endpoint tokens of a thread's events and run a push-on-open /
pop-on-close loop in which the pop is unlabelled (`stack.pop(-1)`).
-/
namespace Hta.C03

/-- A host event of one thread. -/
structure Ev where
  idx : Int
  ts : Int
  dur : Int
  deriving Repr, BEq, DecidableEq

/-- An endpoint token `(index, dur, kind, time)`; `kind = -1` opens, `kind = 1` closes. -/
structure Tok where
  idx : Int
  dur : Int
  kind : Int
  time : Int
  deriving Repr, BEq, DecidableEq

def openTok (e : Ev) : Tok := ⟨e.idx, e.dur, -1, e.ts⟩
def closeTok (e : Ev) : Tok := ⟨e.idx, e.dur, 1, e.ts + e.dur⟩

/-- `melt(value_vars=["ts","end"])`: all start tokens, then all end tokens. -/
def tokens (es : List Ev) : List Tok := es.map openTok ++ es.map closeTok

/-- `open_times`: the instants at which a positive-duration event starts. A zero-duration
event at such an instant belongs to the event that starts there, so it is ordered after the
positive closes of that instant instead of before them. -/
def hasPO (es : List Ev) (t : Int) : Bool := es.any fun e => decide (e.dur > 0) && e.ts == t

/-- The total order both builders sort by, as a lexicographic key
`(time, class, k3, k4)`: at one instant positive closes (class 1; shorter first, larger id
first), then positive opens (class 2; longer first, smaller id first); zero-duration tokens
are class 0 (before the closes) unless a positive event opens at that instant (class 3);
among zero tokens opens by id ascending, then closes by id descending. -/
def key (po : Int → Bool) (t : Tok) : Int × Int × Int × Int :=
  if t.dur == 0 then
    (t.time, if po t.time then 3 else 0, if t.kind == -1 then 0 else 1, if t.kind == -1 then t.idx else -t.idx)
  else if t.kind == 1 then (t.time, 1, t.dur, -t.idx)
  else (t.time, 2, -t.dur, t.idx)

def keyLt (a b : Int × Int × Int × Int) : Prop :=
  a.1 < b.1 ∨ (a.1 = b.1 ∧ (a.2.1 < b.2.1 ∨ (a.2.1 = b.2.1 ∧
    (a.2.2.1 < b.2.2.1 ∨ (a.2.2.1 = b.2.2.1 ∧ a.2.2.2 < b.2.2.2)))))

instance (a b : Int × Int × Int × Int) : Decidable (keyLt a b) := by unfold keyLt; infer_instance

def tokLt (po : Int → Bool) (x y : Tok) : Prop := keyLt (key po x) (key po y)
instance (po : Int → Bool) (x y : Tok) : Decidable (tokLt po x y) := by unfold tokLt; infer_instance

/-! ### the comparators, branch for branch -/

/-- `_cmp_events_with_zero_duration(x, y, open_times)`; `none` = raises ValueError. -/
def cmpZeroNew (po : Int → Bool) (x y : Tok) : Option Bool :=
  if x.dur == 0 && decide (y.dur > 0) then
    some (y.kind == 1 && !po x.time)
  else if decide (x.dur > 0) && y.dur == 0 then
    some (x.kind == -1 || po x.time)
  else if x.dur == 0 && y.dur == 0 then
    if x.kind == -1 && y.kind == -1 then some (decide (x.idx < y.idx))
    else if x.kind == 1 && y.kind == 1 then some (decide (x.idx > y.idx))
    else some (x.kind == -1)
  else none

/-- `_less_than(x, y, open_times)` -/
def lessThanNew (po : Int → Bool) (x y : Tok) : Option Bool :=
  if x.time != y.time then some (decide (x.time < y.time))
  else if x.idx == y.idx then some (x.kind == -1)
  else if x.dur == 0 || y.dur == 0 then cmpZeroNew po x y
  else if x.kind == 1 && y.kind == -1 then some true
  else if x.kind == -1 && y.kind == 1 then some false
  else if x.kind == -1 && y.kind == -1 && x.dur != y.dur then some (decide (x.dur > y.dur))
  else if x.kind == 1 && y.kind == 1 && x.dur != y.dur then some (decide (x.dur < y.dur))
  else if x.kind == -1 then some (decide (x.idx < y.idx))
  else some (decide (x.idx > y.idx))

/-- `compare_events(x, y, open_times)` of the old builder (`type`: start = 1 there; here the
same tokens are used, `kind = -1` is a start). -/
def cmpOld (po : Int → Bool) (x y : Tok) : Int :=
  if x.idx == y.idx then (if x.kind == -1 then -1 else 1)
  else
    let r := x.time - y.time
    if r != 0 then r
    else if x.kind == y.kind then
      if x.kind == -1 then
        if x.dur == y.dur then (if x.idx < y.idx then -1 else if x.idx > y.idx then 1 else 0)
        else (if x.dur < y.dur then 1 else -1)
      else
        if x.dur == y.dur then (if x.idx < y.idx then 1 else if x.idx > y.idx then -1 else 0)
        else if (x.dur == 0 || y.dur == 0) && po x.time then (if x.dur == 0 then 1 else -1)
        else (if x.dur < y.dur then -1 else 1)
    else
      if decide (x.dur > 0) && decide (y.dur > 0) then (if x.kind == -1 then 1 else -1)
      else if x.dur == 0 && y.dur == 0 then (if x.kind == -1 then -1 else 1)
      else if po x.time && (if x.dur == 0 then y.kind == 1 else x.kind == 1) then
        (if x.dur == 0 then 1 else -1)      -- a positive close precedes the zero-duration token
      else (if x.kind == -1 then -1 else 1)

/-! ### the loop -/

/-- `(event id, parent id, depth)`; the root is `-1`. -/
abbrev Entry := Int × Int × Nat

structure St where
  stack : List Tok          -- the open tokens of the events currently open, top first
  out : List Entry
  deriving Repr, BEq, DecidableEq

def parentOf (stack : List Tok) : Int := match stack with
  | [] => -1
  | x :: _ => x.idx

def step (s : St) (t : Tok) : St :=
  if t.kind == -1 then
    { stack := t :: s.stack, out := s.out ++ [(t.idx, parentOf s.stack, s.stack.length)] }
  else
    { stack := s.stack.tail, out := s.out }

def build (sorted : List Tok) : List Entry := (sorted.foldl step { stack := [], out := [] }).out

def sortToks (po : Int → Bool) (ts : List Tok) : List Tok :=
  ts.mergeSort fun a b => !decide (tokLt po b a)

/-- Both builders, on the events of one thread. -/
def run (es : List Ev) : List Entry := build (sortToks (hasPO es) (tokens es))

end Hta.C03
