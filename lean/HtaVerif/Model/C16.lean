import HtaVerif.Model.C13
/-
C16 — `CudaKernelAnalysis.get_frequent_cuda_kernel_sequences` and
`_generate_frequent_pattern_results` (the returned table).
-/
namespace Hta.C16
open Hta.C13

/-- `get_descendants` (including the node itself), by the children lists. -/
def descendants (nodes : List N) : Nat → Int → List Int
  | 0, i => [i]
  | fuel + 1, i => i :: (childrenOf nodes i).flatMap (descendants nodes fuel)

structure Inst where
  pattern : List String      -- operator name followed by the kernel names in start order
  gpuDur : Int               -- the operator's kernel_dur_sum
  cpuDur : Int
  deriving Repr, BEq, DecidableEq

def minL : List Int → Option Int
  | [] => none
  | x :: xs => match minL xs with
    | none => some x
    | some m => some (min x m)

/-- The instances the analysis considers: rows whose name contains `op`, at the shallowest
depth at which such a row occurs, with at least `minLen` kernels beneath them. -/
def roots (rows : List Row) (nodes : List N) (op : String) (minLen : Int) : List Row :=
  let cands := rows.filter fun r => containsSub r.name.toList op.toList
  match minL (cands.map fun r => (attrsOf rows nodes r.idx).depth) with
  | none => []
  | some d => cands.filter fun r =>
      (attrsOf rows nodes r.idx).depth == d && decide ((attrsOf rows nodes r.idx).numKernels ≥ minLen)

def instOf (rows : List Row) (nodes : List N) (r : Row) : Inst :=
  let ds := descendants nodes (nodes.length + 1) r.idx
  let ks := (rows.filter fun k => ds.contains k.idx && k.stream != -1).mergeSort fun a b => decide (a.ts ≤ b.ts)
  { pattern := r.name :: ks.map (·.name), gpuDur := (attrsOf rows nodes r.idx).kernelDurSum, cpuDur := r.dur }

def distinctP : List (List String) → List (List String)
  | [] => []
  | p :: rest => p :: (distinctP rest).filter (· != p)

structure PRow where
  pattern : List String
  count : Nat
  gpuDur : Int
  cpuDur : Int
  deriving Repr, BEq, DecidableEq

def sumBy (f : Inst → Int) : List Inst → Int
  | [] => 0
  | i :: is => f i + sumBy f is

def table (insts : List Inst) : List PRow :=
  (distinctP (insts.map (·.pattern))).map fun p =>
    let sel := insts.filter fun i => i.pattern == p
    { pattern := p, count := sel.length, gpuDur := sumBy (·.gpuDur) sel, cpuDur := sumBy (·.cpuDur) sel }

/-- lexicographic order on the joined pattern strings is delegated to the harness (it owns the
string order); the model orders by descending count only and keeps first-seen order among
equal counts. -/
def byCountDesc (t : List PRow) : List PRow := t.mergeSort fun a b => decide (a.count ≥ b.count)

def run (rows : List Row) (op : String) (minLen : Int) : List PRow :=
  let nodes := buildNodes rows
  byCountDesc (table ((roots rows nodes op minLen).map (instOf rows nodes)))

end Hta.C16
