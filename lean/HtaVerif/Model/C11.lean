/-
C11 — `TraceSymbolTable.add_symbols` (append-only id assignment), the local -> global
re-encoding of `Trace.parse_multiple_ranks` / `parse_single_rank`.
-/
namespace Hta.C11

/-- `sym_table` (list, id = position) and `sym_index` (dict symbol -> id) side by side, as
the class keeps them. -/
structure Tab where
  table : List String
  index : List (String × Nat)
  deriving Repr, BEq, DecidableEq

def Tab.empty : Tab := { table := [], index := [] }

def lookup (ix : List (String × Nat)) (s : String) : Option Nat :=
  (ix.find? fun p => p.1 == s).map (·.2)

/-- `if s not in self.sym_index: idx = len(self.sym_table); append; sym_index[s] = idx` -/
def Tab.add (t : Tab) (s : String) : Tab :=
  match lookup t.index s with
  | some _ => t
  | none => { table := t.table ++ [s], index := t.index ++ [(s, t.table.length)] }

def Tab.addAll (t : Tab) (ss : List String) : Tab := ss.foldl Tab.add t

def Tab.encode (t : Tab) (s : String) : Option Nat := lookup t.index s
def Tab.decode (t : Tab) (i : Nat) : Option String := t.table[i]?

/-- `global_map[local_table[idx]]` -/
def reencode (loc glob : Tab) (i : Nat) : Option Nat := (loc.decode i).bind glob.encode

/-- Multi-rank load: the global table receives every rank's local table in rank order. -/
def globalOf (locals : List Tab) : Tab := locals.foldl (fun g l => g.addAll l.table) Tab.empty

end Hta.C11
