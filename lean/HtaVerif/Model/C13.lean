import HtaVerif.Model.Row
import HtaVerif.Model.C03
import HtaVerif.Model.KernelType
/-
C13 — the enhanced call graph: `CallGraph._build_call_stacks`,
`CallStackGraph._link_cpu_and_gpu`, `_compute_depth`, `_compute_height`,
`_add_kernel_info_to_cpu_ops`, `_normalize_stack_columns`, `_link_main_and_bwd_stacks`,
`update_parent_of_first_layer_nodes`.
-/
namespace Hta.C13

/-- An entry of the shared node map: event id (roots have negative ids), parent, device. -/
structure N where
  idx : Int
  parent : Int
  gpu : Bool
  deriving Repr, BEq, DecidableEq

def insertPair (p : Int × Int) : List (Int × Int) → List (Int × Int)
  | [] => [p]
  | q :: qs => if p.1 < q.1 || (p.1 == q.1 && p.2 < q.2) then p :: q :: qs
               else if p == q then q :: qs else q :: insertPair p qs

/-- `df.groupby(["pid","tid"])`: groups in key order. -/
def threadsOf (rows : List Row) : List (Int × Int) :=
  rows.foldl (fun acc r => insertPair (r.pid, r.tid) acc) []

def threadRows (rows : List Row) (t : Int × Int) : List Row :=
  rows.filter fun r => r.pid == t.1 && r.tid == t.2

/-- `infer_device_type(df) == DeviceType.GPU` -/
def isGpuThread (rs : List Row) : Bool := !rs.isEmpty && rs.all fun r => decide (r.stream > 0)

def rootOf (tid : Int) : Int := -(tid.natAbs : Int)

def hasNode (nodes : List N) (i : Int) : Bool := nodes.any fun n => n.idx == i

/-- `get_cpu_gpu_correlation`: `(gpu_index, cpu_index)` for device rows with a positive link. -/
def gpuEdges (rows : List Row) : List (Int × Int) :=
  (rows.filter fun r => decide (r.stream > 0) && decide (r.link > 0)).map fun r => (r.idx, r.link)

/-- One thread: the call stack of its host rows, then the device children of its launches. -/
def addThread (rows : List Row) (nodes : List N) (t : Int × Int) : List N :=
  let rs := threadRows rows t
  if isGpuThread rs then nodes
  else
    let root := rootOf t.2
    let nodes := if hasNode nodes root then nodes else nodes ++ [⟨root, -1, false⟩]
    let evs := (rs.filter fun r => r.stream == -1).map fun r => (⟨r.idx, r.ts, r.dur⟩ : C03.Ev)
    let host := (C03.run evs).filter (fun e => !hasNode nodes e.1) |>.map fun e =>
      (⟨e.1, if e.2.1 == -1 then root else e.2.1, false⟩ : N)
    let nodes := nodes ++ host
    let idxs := rs.map (·.idx)
    (gpuEdges rows).foldl (fun acc e =>
      if idxs.contains e.2 && !hasNode acc e.1 then
        (if hasNode acc e.2 then acc else acc ++ [⟨e.2, root, false⟩]) ++ [⟨e.1, e.2, true⟩]
      else acc) nodes

def parentOf (nodes : List N) (i : Int) : Int :=
  ((nodes.find? fun n => n.idx == i).map (·.parent)).getD (-1)

def childrenOf (nodes : List N) (p : Int) : List Int :=
  (nodes.filter fun n => n.parent == p && n.idx != p).map (·.idx)

/-! ### main / backward linking -/

inductive Label | main | bwd | other
  deriving Repr, BEq, DecidableEq

def labelOf (rs : List Row) : Label :=
  if rs.any (fun r => "ProfilerStep#".toList.isPrefixOf r.name.toList) then .main
  else if rs.any (fun r => containsSub r.name.toList "autograd::".toList) then .bwd
  else .other

/-- `update_parent_of_first_layer_nodes`: the first-layer nodes of the backward stack whose
span lies within the new parent's span move beneath it. Nothing happens once the backward
stack's own root is gone. -/
def reparent (rows : List Row) (bwdRoot : Int) (nodes : List N) (newParent : Int) : List N :=
  if !hasNode nodes bwdRoot then nodes
  else
    match rows.find? (fun r => r.idx == newParent) with
    | none => nodes
    | some p =>
      let first := childrenOf nodes bwdRoot
      let guarded := first.filter fun i =>
        match rows.find? (fun r => r.idx == i) with
        | some r => decide (r.ts ≥ p.ts) && decide (r.ts + r.dur ≤ p.ts + p.dur)
        | none => false
      let valid := guarded.filter fun i => !(childrenOf nodes newParent).contains i
      let moved := nodes.map fun n => if valid.contains n.idx then { n with parent := newParent } else n
      if (childrenOf moved bwdRoot).isEmpty then moved.filter fun n => n.idx != bwdRoot else moved

def linkStacks (rows : List Row) (nodes : List N) : List N :=
  let ts := (threadsOf rows).filter fun t => !isGpuThread (threadRows rows t)
  let labelled := ts.map fun t => (t, labelOf (threadRows rows t))
  let sel := labelled.filter fun x => x.2 == .main || x.2 == .bwd
  if sel.length != 2 then nodes
  else
    -- sorted by label: "bwd" < "main"
    let sorted := (sel.filter fun x => x.2 == .bwd) ++ (sel.filter fun x => x.2 == .main)
    match sorted with
    | [b, m] =>
      let mrows := threadRows rows m.1
      let pick := fun (pre : String) => (mrows.filter fun r => pre.toList.isPrefixOf r.name.toList).map (·.idx)
      let parents := if (pick "## backward ##").isEmpty then pick "ProfilerStep#" else pick "## backward ##"
      parents.foldl (fun acc i => if hasNode acc i then reparent rows (rootOf b.1.2) acc i else acc) nodes
    | _ => nodes

def buildNodes (rows : List Row) : List N :=
  linkStacks rows ((threadsOf rows).foldl (addThread rows) [])

/-! ### attributes -/

/-- The call graph below one node as a tree. -/
inductive T where
  | node (idx : Int) (gpu : Bool) (ts dur : Int) (kids : List T)

def mkT (rows : List Row) (nodes : List N) : Nat → Int → T
  | 0, i => .node i false 0 0 []
  | fuel + 1, i =>
    let r := rows.find? fun r => r.idx == i
    let g := ((nodes.find? fun n => n.idx == i).map (·.gpu)).getD false
    .node i g ((r.map (·.ts)).getD 0) ((r.map (·.dur)).getD 0)
      ((childrenOf nodes i).map (mkT rows nodes fuel))

/-- `KernelInfo(count, sum_dur, first_start, last_end)`; `first = none` encodes `t_max`,
`last = none` encodes `-1`. -/
structure KInfo where
  count : Nat
  sum : Int
  first : Option Int
  last : Option Int
  deriving Repr, BEq, DecidableEq

def KInfo.zero : KInfo := ⟨0, 0, none, none⟩

def optMin : Option Int → Option Int → Option Int
  | none, b => b
  | a, none => a
  | some a, some b => some (min a b)

def optMax : Option Int → Option Int → Option Int
  | none, b => b
  | a, none => a
  | some a, some b => some (max a b)

def KInfo.add (a b : KInfo) : KInfo :=
  ⟨a.count + b.count, a.sum + b.sum, optMin a.first b.first, optMax a.last b.last⟩

mutual
  /-- `_add_kernel_info_to_cpu_ops._dfs` -/
  def T.kinfo : T → KInfo
    | .node _ gpu ts dur kids => if gpu then ⟨1, dur, some ts, some (ts + dur)⟩ else kinfoL kids
  def kinfoL : List T → KInfo
    | [] => KInfo.zero
    | t :: ts => (T.kinfo t).add (kinfoL ts)
end

mutual
  /-- `_compute_height._dfs` -/
  def T.height : T → Nat
    | .node _ gpu _ _ kids => if gpu then 0 else max 1 (heightL kids)
  def heightL : List T → Nat
    | [] => 0
    | t :: ts => max (T.height t + 1) (heightL ts)
end

def depthOf (nodes : List N) : Nat → Int → Int
  | 0, _ => -1
  | fuel + 1, i =>
    let p := parentOf nodes i
    if i < 0 then -1 else if p < 0 then 0 else depthOf nodes fuel p + 1

structure Attrs where
  parent : Int
  depth : Int
  height : Int
  numKernels : Int
  kernelDurSum : Int
  kernelSpan : Int
  firstKernelStart : Int
  lastKernelEnd : Int
  deriving Repr, BEq, DecidableEq

/-- `_normalize_stack_columns` applied to a node's `KernelInfo`. -/
def normalize (k : KInfo) : Int × Int × Int × Int × Int :=
  if k.count = 0 then (0, 0, 0, -1, -1)
  else
    let f := k.first.getD 0
    let l := k.last.getD (-1)
    (k.count, k.sum, l - f, f, l)

def attrsOf (rows : List Row) (nodes : List N) (i : Int) : Attrs :=
  if !hasNode nodes i then ⟨-1, -1, -1, 0, 0, 0, -1, -1⟩
  else
    let fuel := nodes.length + 1
    let t := mkT rows nodes fuel i
    let (n, s, sp, f, l) := normalize t.kinfo
    ⟨parentOf nodes i, depthOf nodes fuel i, t.height, n, s, sp, f, l⟩

def run (rows : List Row) : List (Int × Attrs) :=
  let nodes := buildNodes rows
  rows.map fun r => (r.idx, attrsOf rows nodes r.idx)

end Hta.C13
