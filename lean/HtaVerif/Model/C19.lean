/-
C19 — `CPGraph.save` / `restore_cpgraph`: the logic is field wiring plus networkx's
node-link encoding of the graph (`node_link_data` / `node_link_graph`): the adjacency (per
node, its out-edges in insertion order) is flattened into a list of links and rebuilt.
-/
namespace Hta.C19

/-- edge payload: weight and the pickled edge object (type tag) -/
abbrev Attr := Int × String

structure Adj where
  nodes : List Nat
  out : List (Nat × List (Nat × Attr))     -- for every node, its out-edges in insertion order
  deriving Repr, BEq, DecidableEq

def outOf (a : Adj) (u : Nat) : List (Nat × Attr) := ((a.out.find? fun p => p.1 == u).map (·.2)).getD []

structure NodeLink where
  nodes : List Nat
  links : List (Nat × Nat × Attr)
  deriving Repr, BEq, DecidableEq

/-- `nx.node_link_data` -/
def encode (a : Adj) : NodeLink :=
  { nodes := a.nodes, links := a.nodes.flatMap fun u => (outOf a u).map fun e => (u, e.1, e.2) }

/-- `nx.node_link_graph`: add the nodes, then the links in order -/
def decode (d : NodeLink) : Adj :=
  { nodes := d.nodes,
    out := d.nodes.map fun u => (u, (d.links.filter fun l => l.1 == u).map fun l => (l.2.1, l.2.2)) }

def roundtrip : Nat → Adj → Adj
  | 0, a => a
  | n + 1, a => roundtrip n (decode (encode a))

end Hta.C19

namespace Hta.C19

/-! ### histories: saves to named directories, restores from them

`CPGraph.save out_dir` writes the archive for `out_dir`; `restore_cpgraph` reads the archive
it is given. The store below is the abstract file system: the latest write to a name wins. -/

abbrev Store := List (String × NodeLink)

inductive Op where
  | save (dir : String) (a : Adj)
  | restore (dir : String)

def Store.write (s : Store) (dir : String) (d : NodeLink) : Store := (dir, d) :: s

def Store.read (s : Store) (dir : String) : Option NodeLink := (s.find? fun p => p.1 == dir).map (·.2)

/-- one operation; a restore returns the decoded graph of what `dir` holds -/
def step (s : Store) : Op → Store × Option Adj
  | .save dir a => (s.write dir (encode a), none)
  | .restore dir => (s, (s.read dir).map decode)

def run (s : Store) : List Op → Store
  | [] => s
  | op :: ops => run (step s op).1 ops

/-- the graph most recently saved to `dir` in a history (latest first scan) -/
def lastSaved (dir : String) : List Op → Option Adj
  | [] => none
  | op :: ops =>
    match lastSaved dir ops with
    | some a => some a
    | none => match op with
      | .save d a => if d == dir then some a else none
      | .restore _ => none

end Hta.C19
