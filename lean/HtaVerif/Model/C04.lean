import HtaVerif.Model.Interval
import HtaVerif.Model.Row
import HtaVerif.Model.KernelType
/-
C04 — `BreakdownAnalysis.get_temporal_breakdown.idle_time_per_rank`,
`_get_idle_time_for_kernels`, `merge_kernel_intervals`.
-/
namespace Hta.C04

structure Out where
  idle : Int
  compute : Int
  nonCompute : Int
  kernelTime : Int
  deriving Repr, BEq, DecidableEq

/-- The computation on two lists that are already sorted by start: all device
activities, and the computation kernels among them. `none` = the code raises
(`merged_kernels.iloc[-1]` on an empty frame). -/
def temporalSorted (sK sC : List Iv) : Option Out :=
  let mK := mergeSorted sK
  match mK.head?, mK.getLast? with
  | some first, some last =>
    let kernelTime := last.2 - first.1
    let idle := kernelTime - sumLen mK
    let compute := sumLen (mergeSorted sC)
    some { idle, compute, nonCompute := kernelTime - compute - idle, kernelTime }
  | _, _ => none

def sortIv (l : List Iv) : List Iv := l.mergeSort fun x y => decide (x.1 ≤ y.1)

def deviceRows (rows : List Row) : List Row := rows.filter fun r => r.stream != -1

def run (classify : String → KType) (rows : List Row) : Option Out :=
  let K := deviceRows rows
  let C := K.filter fun r => classify r.name == .computation
  temporalSorted (sortIv (K.map Row.iv)) (sortIv (C.map Row.iv))

end Hta.C04
