import HtaVerif.Model.Interval
import HtaVerif.Model.Row
import HtaVerif.Model.KernelType
/-
C14 — `TraceCounters._get_queue_length_time_series_for_rank`,
`_get_memory_bw_time_series_for_rank`, `Trace.convert_time_series_to_events`.
-/
namespace Hta.C14

/-- `TraceSymbolTable.get_runtime_launch_events_query`: the eleven launch names. -/
def launchNames : List String :=
  ["cudaMemsetAsync", "cudaMemcpyAsync", "cudaLaunchKernel", "cudaLaunchKernelExC", "cuLaunchKernel",
   "runFunction - job_prep_and_submit_for_execution", "hipLaunchKernel", "hipExtModuleLaunchKernel",
   "hipMemcpyAsync", "hipMemsetAsync", "hipMemcpyWithStream"]

/-- One row of the merged frame: a launch (`delta = +1`, carrying the pid/tid/stream of the
device activity it is joined with on correlation) or a device activity (`delta = -1`). -/
structure QEv where
  idx : Int
  ts : Int
  pid : Int
  tid : Int
  stream : Int
  delta : Int
  deriving Repr, BEq, DecidableEq

def launches (rows : List Row) : List Row :=
  rows.filter fun r => launchNames.contains r.name && decide (r.link > 0)

def devRows (rows : List Row) : List Row := rows.filter fun r => r.stream != -1

def events (rows : List Row) : List QEv :=
  let ls := launches rows
  let gpu := devRows rows
  let le := ls.flatMap fun h => (gpu.filter fun d => d.corr == h.corr).map fun d =>
    { idx := h.idx, ts := h.ts, pid := d.pid, tid := d.tid, stream := d.stream, delta := 1 : QEv }
  let ke := (gpu.filter fun d => (ls.map (·.corr)).contains d.corr).map fun d =>
    { idx := d.idx, ts := d.ts, pid := d.pid, tid := d.tid, stream := d.stream, delta := -1 : QEv }
  le ++ ke

/-- Sort key `(ts ascending, queue descending)`: at one instant launches come before starts. -/
def keyLe (a b : Marker) : Prop := a.1 < b.1 ∨ (a.1 = b.1 ∧ b.2 ≤ a.2)

def qLe (a b : QEv) : Bool := decide (a.ts < b.ts) || (decide (a.ts = b.ts) && decide (b.delta ≤ a.delta))

/-- Running sums (`cumsum`). -/
def running (acc : Int) : List Marker → List Int
  | [] => []
  | m :: ms => (acc + m.2) :: running (acc + m.2) ms

def streamsOf (evs : List QEv) : List Int :=
  (evs.map (·.stream)).foldl (fun acc s => if acc.contains s then acc else acc ++ [s]) []

/-- Per stream: `(stream, [(idx, ts, pid, tid, queue_length)])`. -/
def run (rows : List Row) : List (Int × List (Int × Int × Int × Int × Int)) :=
  let evs := (events rows).mergeSort qLe
  (streamsOf evs).map fun s =>
    let es := evs.filter fun e => e.stream == s
    let q := running 0 (es.map fun e => (e.ts, e.delta))
    (s, (es.zip q).map fun (e, v) => (e.idx, e.ts, e.pid, e.tid, v))

/-! ### memory bandwidth -/

/-- A copy: `(start, end, bandwidth)` with `end = start + max dur 1`. Bandwidth is carried as
a scaled integer (the harness generates dyadic values so that float sums are exact). -/
structure Copy where
  ts : Int
  fin : Int
  bw : Int
  deriving Repr, BEq, DecidableEq

def copyMarkers : List Copy → List Marker
  | [] => []
  | c :: cs => (c.ts, c.bw) :: (c.fin, -c.bw) :: copyMarkers cs

def widen (dur : Int) : Int := if dur == 0 then 1 else dur

def memCopies (classify : String → KType) (rows : List Row) (bwOf : Int → Int) (ty : String) : List Copy :=
  ((devRows rows).filter fun r => classify r.name == .memory && memoryKernelType r.name == ty).map fun r =>
    Copy.mk r.ts (r.ts + widen r.dur) (bwOf r.idx)

/-- Sum of the bandwidths of the copies active at `t`. -/
def activeBw : List Copy → Int → Int
  | [], _ => 0
  | c :: cs, t => (if c.ts ≤ t ∧ t < c.fin then c.bw else 0) + activeBw cs t

/-- The bandwidth series of one copy type with one particular (stable) sort by time. -/
def bwSeries (cs : List Copy) : List (Int × Int) :=
  let ms := sortMarkers (copyMarkers cs)
  (ms.map (·.1)).zip (running 0 ms)

def memTypes (classify : String → KType) (rows : List Row) : List String :=
  ((devRows rows).filter fun r => classify r.name == .memory).foldl
    (fun acc r => if acc.contains (memoryKernelType r.name) then acc else acc ++ [memoryKernelType r.name]) []

/-! ### counter events -/

structure CounterEv where
  ts : Int
  pid : Int
  id : Int
  value : Int
  deriving Repr, BEq, DecidableEq

def counterEvents (minTs : Int) (series : List (Int × Int × Int × Int)) : List CounterEv :=
  series.map fun (ts, pid, id, v) => { ts := ts + minTs, pid, id, value := v }

end Hta.C14
