import HtaVerif.Model.Interval
import HtaVerif.Model.Row
/-
C06 — `BreakdownAnalysis.get_idle_time_breakdown` / `_analyze_idle_time_for_stream`.
-/
namespace Hta.C06

def kernelCats : List String :=
  ["kernel", "Kernel", "gpu_memset", "Memset", "gpu_memcpy", "Memcpy", "mtia_ccp_events"]

/-- A kernel of the analysed stream with the start of its launch call (`ts_runtime`),
when the join on the correlation link finds one. -/
structure K where
  ts : Int
  dur : Int
  launchTs : Option Int
  deriving Repr, BEq, DecidableEq

def K.fin (k : K) : Int := k.ts + k.dur

inductive Cat | hostWait | kernelWait | other
  deriving Repr, BEq, DecidableEq

/-- The three-way rule. `prevEnd` = end of the previous kernel of the stream. -/
def catOf (delay prevEnd : Int) (k : K) : Cat :=
  match k.launchTs with
  | some l => if l > prevEnd then .hostWait
              else if k.ts - prevEnd < delay then .kernelWait else .other
  | none => if k.ts - prevEnd < delay then .kernelWait else .other

/-- Gaps between consecutive kernels of a list already in stream order, with their class. -/
def gapsFrom (delay prevEnd : Int) : List K → List (Int × Cat)
  | [] => []
  | k :: ks => (k.ts - prevEnd, catOf delay prevEnd k) :: gapsFrom delay k.fin ks

def gaps (delay : Int) : List K → List (Int × Cat)
  | [] => []
  | k :: ks => gapsFrom delay k.fin ks

def sumCat (c : Cat) : List (Int × Cat) → Int
  | [] => 0
  | g :: gs => (if g.2 == c then g.1 else 0) + sumCat c gs

structure Out where
  hostWait : Int
  kernelWait : Int
  other : Int
  hostPresent : Bool
  kernelPresent : Bool
  deriving Repr, BEq, DecidableEq

def analyze (delay : Int) (sorted : List K) : Out :=
  let g := gaps delay sorted
  { hostWait := sumCat .hostWait g, kernelWait := sumCat .kernelWait g, other := sumCat .other g,
    hostPresent := g.any (·.2 == .hostWait), kernelPresent := g.any (·.2 == .kernelWait) }

/-- Stream order: `sort_values(by=["ts","dur"])`. -/
def kLe (a b : K) : Bool := decide (a.ts < b.ts) || (decide (a.ts = b.ts) && decide (a.dur ≤ b.dur))

/-- The launch start is looked up through the link, among rows that are linked themselves
(so the sentinel `0` never reaches event 0). -/
def launchOf (rows : List Row) (link : Int) : Option Int :=
  if link > 0 then ((rows.find? fun r => r.idx == link && decide (r.link > 0)).map (·.ts)) else none

def kernelsOf (rows : List Row) (stream : Int) : List K :=
  (rows.filter fun r => r.stream != -1 && kernelCats.contains r.cat && r.stream == stream).map fun r =>
    { ts := r.ts, dur := r.dur, launchTs := launchOf rows r.link }

def run (delay : Int) (rows : List Row) (stream : Int) : Out :=
  analyze delay ((kernelsOf rows stream).mergeSort kLe)

end Hta.C06
