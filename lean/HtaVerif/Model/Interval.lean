/-
Shared model vocabulary: integer half-open intervals, unit-cell measure, the
interval-merge routine (`hta/utils/utils.py: merge_kernel_intervals`) and the marker
sweep (`melt, signed value, sort_values(time), cumsum, shift(-1)`).

Core Lean only (no imports) so that the driver links as a `lean_exe`.
-/

namespace Hta

/-- An interval `[a, b)` with integer endpoints, as `(ts, end)`. -/
abbrev Iv := Int × Int

/-- `covers ivs t`: some interval of `ivs` contains the unit cell `[t, t+1)`. -/
def covers (ivs : List Iv) (t : Int) : Bool :=
  ivs.any fun x => decide (x.1 ≤ t) && decide (t < x.2)

/-- Number of unit cells `[lo+k, lo+k+1)`, `k < n`, on which `p` holds. This is the
specification-side notion of "time during which p". -/
def cells (lo : Int) : Nat → (Int → Bool) → Nat
  | 0, _ => 0
  | n + 1, p => (if p lo then 1 else 0) + cells (lo + 1) n p

/-- Sum of the lengths `b - a`. -/
def sumLen : List Iv → Int
  | [] => 0
  | x :: xs => (x.2 - x.1) + sumLen xs

/-- Sorted by start (what `sort_values(by="ts")` guarantees; ties in any order). -/
def SortedByStart (l : List Iv) : Prop := l.Pairwise fun x y => x.1 ≤ y.1

/-- The grouping loop of `merge_kernel_intervals` on a list already sorted by `ts`.
`cs`/`ce` are the running `min ts` / `max end` of the current group, `cm` is
`end.shift().cummax()` — the maximum of *all* earlier ends. A new group starts iff
`ts > cm`. -/
def mergeGo (cs ce cm : Int) : List Iv → List Iv
  | [] => [(cs, ce)]
  | x :: rest =>
    if x.1 > cm then (cs, ce) :: mergeGo x.1 x.2 (max cm x.2) rest
    else mergeGo (min cs x.1) (max ce x.2) (max cm x.2) rest

def mergeSorted : List Iv → List Iv
  | [] => []
  | x :: rest => mergeGo x.1 x.2 x.2 rest

/-- `merge_kernel_intervals` with one particular sort (merge sort by start). The
theorems are stated for *every* sorted permutation, so the choice is immaterial. -/
def mergeIntervals (l : List Iv) : List Iv :=
  mergeSorted (l.mergeSort fun x y => decide (x.1 ≤ y.1))

/-- A marker `(time, delta)`. -/
abbrev Marker := Int × Int

def SortedByTime (l : List Marker) : Prop := l.Pairwise fun x y => x.1 ≤ y.1

/-- The marker sweep: rows sorted by time, `running = cumsum(delta)`, each row weighs
`next_time - time`, summed over rows whose `running` satisfies `P`. The last row has no
successor; HTA drops it (its `running` is 0, which never satisfies the predicates used). -/
def sweepFrom (P : Int → Bool) (acc : Int) : List Marker → Int
  | [] => 0
  | [_] => 0
  | m :: m' :: rest =>
    (if P (acc + m.2) then m'.1 - m.1 else 0) + sweepFrom P (acc + m.2) (m' :: rest)

def sweep (P : Int → Bool) (ms : List Marker) : Int := sweepFrom P 0 ms

/-- Value of the step function at `t`: sum of the deltas of all markers with `time ≤ t`. -/
def stateAt : List Marker → Int → Int
  | [], _ => 0
  | m :: ms, t => (if m.1 ≤ t then m.2 else 0) + stateAt ms t

/-- Start/end markers `(+v at ts, -v at end)` of a list of intervals (`melt` + `replace`). -/
def markersOf (v : Int) : List Iv → List Marker
  | [] => []
  | x :: xs => (x.1, v) :: (x.2, -v) :: markersOf v xs

def sortMarkers (ms : List Marker) : List Marker :=
  ms.mergeSort fun x y => decide (x.1 ≤ y.1)

def minStart : List Iv → Int
  | [] => 0
  | [x] => x.1
  | x :: xs => min x.1 (minStart xs)

def maxEnd : List Iv → Int
  | [] => 0
  | [x] => x.2
  | x :: xs => max x.2 (maxEnd xs)

end Hta
