import HtaVerif.Model.C08
import HtaVerif.Model.C17
/-
C10 — `CPGraph.get_critical_path_breakdown`, `bound_by`, `CPGraph.summary` (the attribution
itself, `_attribute_edge`, is part of the C08 model).
-/
namespace Hta.C10
open Hta.C08

structure BRow where
  ev : Option Int        -- `event_idx` (attribution), `none` = NaN
  dur : Int
  ty : ETy
  boundBy : String
  deriving Repr, BEq, DecidableEq

/-- `bound_by(row)`; `none` = the assertion `name of edge is na` fails. -/
def boundBy (clipped : List Row) (ty : ETy) (ev : Option Int) : Option String :=
  match ty with
  | .kk => some "gpu_kernel_kernel_overhead"
  | .launch => some "gpu_kernel_launch_overhead"
  | .dep => some ""
  | .sync => some ""
  | .op =>
    match ev.bind (findRow clipped) with
    | none => none
    | some r =>
      if r.stream < 0 then some "cpu_bound"
      else if isCommKernel (C17.shortenName r.name) then some "gpu_communication_bound"
      else some "gpu_compute_bound"

def attrOf (g : G) (e : Edge) : Option Int :=
  (g.attr.find? fun x => decide (x.1 = e.src) && decide (x.2.1 = e.dst)).map (·.2.2)

/-- One row per critical edge; `none` when `bound_by` would raise. -/
def breakdown (clipped : List Row) (g : G) (crit : List Edge) : Option (List BRow) :=
  crit.mapM fun e =>
    (boundBy clipped e.ty (attrOf g e)).map fun b => { ev := attrOf g e, dur := e.weight, ty := e.ty, boundBy := b }

def totalDur : List BRow → Int
  | [] => 0
  | r :: rs => r.dur + totalDur rs

/-- per-class duration sums (`groupby("bound_by").duration.sum()`), classes in first-seen order -/
def classSums (rows : List BRow) : List (String × Int) :=
  (C05.distinct (rows.map (·.boundBy))).map fun k => (k, C05.sumL (C05.dursOf (rows.map fun r => (r.boundBy, r.dur)) k))

end Hta.C10
