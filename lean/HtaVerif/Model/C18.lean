import HtaVerif.Model.Row
/-
C18 — `hta/common/trace_filter.py`: every filter class as a function on a frame.
A frame is a list of rows plus which optional columns it carries. The rows carry both the
encoded name (as its string) and, for decoded frames, the `s_name` column (possibly
shortened, so it is a separate field).
-/
namespace Hta.C18

structure FRow where
  idx : Int
  ts : Int
  dur : Int
  stream : Int
  corr : Int
  iter : Int
  rank : Int
  name : String
  cat : String
  sname : String     -- `s_name` (decoded frames)
  deriving Repr, BEq, DecidableEq

structure Frame where
  rows : List FRow
  hasRank : Bool       -- the frame carries a `rank` column
  decoded : Bool       -- the frame carries string columns `s_name` / `s_cat`
  deriving Repr, BEq, DecidableEq

/-- Atomic filters. String patterns enter as the list of strings they match (computed with
Python's `re.match`, i.e. `Series.str.match`). -/
inductive Flt
  | iteration (its : List Int)
  | iterIndex (ixs : List Nat)
  | rank (rs : List Int)
  | timeRange (a b : Int)
  | name (hasTable : Bool) (matched : List String)
  | gpu (hasTable : Bool)
  | cpu (hasTable : Bool)
  | memcopy (ty : String) (tyInTable : Bool)
  deriving Repr, BEq

def devSide (hasTable : Bool) (r : FRow) : Bool :=
  (decide (r.stream ≥ 0) && decide (r.corr ≥ 0)) ||
    (hasTable && (r.name == "Event Sync" || r.name == "Context Sync"))

def insertSorted (x : Int) : List Int → List Int
  | [] => [x]
  | y :: ys => if x < y then x :: y :: ys else if x == y then y :: ys else y :: insertSorted x ys

/-- `sorted(df["iteration"].unique())` -/
def sortedUnique (l : List Int) : List Int := l.foldl (fun acc x => insertSorted x acc) []

/-- Iterations selected by position, after a leading -1 is dropped. -/
def selectedIters (ixs : List Nat) (rows : List FRow) : Option (List Int) :=
  let its := sortedUnique (rows.map (·.iter))
  if its == [-1] then none            -- "return df"
  else
    let its := match its with
      | (-1) :: rest => rest
      | l => l
    some ((List.range its.length).filterMap fun i => if ixs.contains i then its[i]? else none)

/-- Row predicate of the row-local filters (those whose decision depends on the row alone). -/
def rowPred (fr : Frame) : Flt → Option (FRow → Bool)
  | .iteration its => some fun r => its.contains r.iter
  | .iterIndex _ => none
  | .rank rs => if fr.hasRank then some fun r => rs.contains r.rank else some fun _ => true
  | .timeRange a b => some fun r => decide (r.ts ≥ a) && decide (r.ts + r.dur ≤ b)
  | .name hasTable matched =>
    if hasTable then some fun r => matched.contains r.name
    else if fr.decoded then some fun r => matched.contains r.sname
    else some fun _ => true
  | .gpu hasTable => some fun r => devSide hasTable r
  | .cpu hasTable => if hasTable then some fun r => !devSide true r else some fun r => r.stream == -1
  | .memcopy ty inTable => if inTable then some fun r => r.name == ty && r.cat == "gpu_memcpy" else some fun _ => false

def apply (f : Flt) (fr : Frame) : Frame :=
  match f with
  | .iterIndex ixs =>
    match selectedIters ixs fr.rows with
    | none => fr
    | some sel => { fr with rows := fr.rows.filter fun r => sel.contains r.iter }
  | .name _ _ => if fr.rows.isEmpty then fr else
    match rowPred fr f with
    | some p => { fr with rows := fr.rows.filter p }
    | none => fr
  | .memcopy _ _ => if fr.rows.isEmpty then fr else
    match rowPred fr f with
    | some p => { fr with rows := fr.rows.filter p }
    | none => fr
  | _ =>
    match rowPred fr f with
    | some p => { fr with rows := fr.rows.filter p }
    | none => fr

/-- `CompositeFilter`: the members applied in sequence. -/
def applyAll (fs : List Flt) (fr : Frame) : Frame := fs.foldl (fun acc f => apply f acc) fr

end Hta.C18
