import HtaVerif.Model.Row
/-
C02 — `transform_correlation_to_index` with `CPUOperatorFilter` / `GPUKernelFilter`
(`_filter_gpu_kernels_with_cuda_sync`).
-/
namespace Hta.C02

/-- Device side: `(stream >= 0 and correlation >= 0)` or an Event/Context Sync record. -/
def devSide (r : Row) : Bool :=
  (decide (r.stream ≥ 0) && decide (r.corr ≥ 0)) || r.name == "Event Sync" || r.name == "Context Sync"

def cand (rows : List Row) : List Row := rows.filter fun r => r.corr != -1

/-- `on_cpu.merge(on_gpu, on="correlation", how="inner")` as `(index_x, index_y)` pairs, in
merge order (left rows in frame order, their matches in frame order). -/
def merged (rows : List Row) : List (Int × Int) :=
  ((cand rows).filter fun r => !devSide r).flatMap fun x =>
    (((cand rows).filter devSide).filter fun y => y.corr == x.corr).map fun y => (x.idx, y.idx)

/-- The two scatter writes `df.loc[index_x] = index_y` then `df.loc[index_y] = index_x`
(later writes win), over the initial value `min(correlation, 0)`. -/
def linkOf (rows : List Row) (r : Row) : Int :=
  match (merged rows).reverse.find? (fun p => p.2 == r.idx) with
  | some p => p.1
  | none =>
    match (merged rows).reverse.find? (fun p => p.1 == r.idx) with
    | some p => p.2
    | none => min r.corr 0

def run (rows : List Row) : List (Int × Int) := rows.map fun r => (r.idx, linkOf rows r)

end Hta.C02
