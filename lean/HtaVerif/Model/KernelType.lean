/-
`hta/utils/utils.py`: `is_comm_kernel`, `is_memory_kernel`, `is_compute_kernel`,
`get_kernel_type`, `get_memory_kernel_type` — the three regular expressions
transliterated into prefix / infix tests on character lists.

  NCCL_KERNEL_RE         = ^nccl.*Kernel
  MEMORY_KERNEL_RE       = (^Memcpy)|(^Memset)|(^dma)
  NCCL_COMPUTE_KERNEL_RE = (^nccl.*Kernel)|(.*(Memcpy)|(Memset))|(.*Sync)     (used with re.match)

The third expression parses as  (^nccl.*Kernel) | ( .*(Memcpy) | (Memset) ) | (.*Sync), i.e.
"contains Memcpy anywhere", "*starts with* Memset", "contains Sync anywhere".
Names are assumed to contain no newline (`.` does not match one).
-/
namespace Hta

def containsSub : List Char → List Char → Bool
  | [], p => p.isEmpty
  | c :: cs, p => p.isPrefixOf (c :: cs) || containsSub cs p

inductive KType | communication | memory | computation | other
  deriving Repr, BEq, DecidableEq, Inhabited

def KType.toString : KType → String
  | .communication => "COMMUNICATION"
  | .memory => "MEMORY"
  | .computation => "COMPUTATION"
  | .other => "OTHER"

def isCommKernel (n : String) : Bool :=
  let cs := n.toList
  "nccl".toList.isPrefixOf cs && containsSub (cs.drop 4) "Kernel".toList

def isMemoryKernel (n : String) : Bool :=
  let cs := n.toList
  "Memcpy".toList.isPrefixOf cs || "Memset".toList.isPrefixOf cs || "dma".toList.isPrefixOf cs

def isComputeKernel (n : String) : Bool :=
  let cs := n.toList
  !(isCommKernel n || containsSub cs "Memcpy".toList || "Memset".toList.isPrefixOf cs
    || containsSub cs "Sync".toList)

def kernelType (n : String) : KType :=
  if isCommKernel n then .communication
  else if isMemoryKernel n then .memory
  else if isComputeKernel n then .computation
  else .other

/-- `get_memory_kernel_type` -/
def memoryKernelType (n : String) : String :=
  let cs := n.toList
  if cs.take 6 == "Memset".toList then "Memset"
  else if cs.take 6 != "Memcpy".toList then "Memcpy Unknown"
  else String.ofList (cs.take 11)

end Hta
