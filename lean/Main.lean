import Lean.Data.Json
import HtaVerif.Model.C04
import HtaVerif.Spec.C04
import HtaVerif.Spec.C07
import HtaVerif.Spec.C05
import HtaVerif.Spec.C15
import HtaVerif.Spec.C14
import HtaVerif.Spec.C06
import HtaVerif.Spec.C02
import HtaVerif.Model.C01
import HtaVerif.Model.C12
import HtaVerif.Model.C17
import HtaVerif.Model.C18
import HtaVerif.Model.C11
import HtaVerif.Model.C03
import HtaVerif.Model.C13
import HtaVerif.Model.C16
import HtaVerif.Model.C08
import HtaVerif.Spec.C08
import HtaVerif.Model.C09
import HtaVerif.Model.C10
import HtaVerif.Model.C19
import HtaVerif.Model.C20
/-!
`htadrv` — line protocol driver. One JSON request per input line, one JSON answer per
output line. Imports only `Model/*` and `Spec/*` (core Lean), never a proof file.
-/
open Lean Hta

namespace Drv

def err (msg : String) : Json := Json.mkObj [("error", Json.str msg)]

def getInt (j : Json) : Except String Int := j.getInt?
def getStr (j : Json) : Except String String := j.getStr?
def getArr (j : Json) : Except String (Array Json) := j.getArr?
def getBool (j : Json) : Except String Bool := j.getBool?

def field (j : Json) (k : String) : Except String Json := j.getObjVal? k

def intList (j : Json) : Except String (List Int) := do
  let a ← getArr j
  a.toList.mapM getInt

/-- `[idx, ts, dur, pid, tid, stream, corr, link, iter, name, cat]` -/
def row (j : Json) : Except String Row := do
  let a ← getArr j
  if a.size != 11 then throw "row: expected 11 fields"
  return { idx := ← getInt a[0]!, ts := ← getInt a[1]!, dur := ← getInt a[2]!,
           pid := ← getInt a[3]!, tid := ← getInt a[4]!, stream := ← getInt a[5]!,
           corr := ← getInt a[6]!, link := ← getInt a[7]!, iter := ← getInt a[8]!,
           name := ← getStr a[9]!, cat := ← getStr a[10]! }

def rows (j : Json) : Except String (List Row) := do
  let a ← getArr j
  a.toList.mapM row

def ivList (j : Json) : Except String (List Iv) := do
  let a ← getArr j
  a.toList.mapM fun p => do
    let q ← getArr p
    if q.size != 2 then throw "iv: expected 2 fields"
    return (← getInt q[0]!, ← getInt q[1]!)

def jInt (i : Int) : Json := Json.num (JsonNumber.fromInt i)

def c04Out (o : C04.Out) : Json :=
  Json.mkObj [("idle", jInt o.idle), ("compute", jInt o.compute),
    ("non_compute", jInt o.nonCompute), ("kernel_time", jInt o.kernelTime)]

def kernels (j : Json) : Except String (List (String × Int)) := do
  let a ← getArr j
  a.toList.mapM fun p => do
    let q ← getArr p
    if q.size != 2 then throw "kernel: expected [name, dur]"
    return (← getStr q[0]!, ← getInt q[1]!)

def stat (j : Json) : Except String C05.Stat := do
  let q ← getArr j
  if q.size != 5 then throw "stat: expected [name,sum,max,min,count]"
  return { name := ← getStr q[0]!, sum := ← getInt q[1]!, max := ← getInt q[2]!, min := ← getInt q[3]!,
           count := (← getInt q[4]!).toNat }

def aggrOut (o : C05.AggrOut) : Json :=
  Json.mkObj [("named", Json.arr (o.named.map fun s =>
      Json.arr #[Json.str s.name, jInt s.sum, jInt s.max, jInt s.min, jInt s.count]).toArray),
    ("others", match o.others with | none => Json.null | some v => jInt v)]

def optInt (j : Json) : Except String (Option Int) :=
  match j with
  | Json.null => pure none
  | v => do return some (← getInt v)

def optStr (j : Json) : Except String (Option String) :=
  match j with
  | Json.null => pure none
  | v => do return some (← getStr v)

/-- `[ts, dur|null, cat|null, name, pid, tid, stream|null, corr|null]` (times in 1/1000 us) -/
def rawEntry (j : Json) : Except String C01.RawEntry := do
  let a ← getArr j
  if a.size != 8 then throw "entry: expected 8 fields"
  return { ts := ← getInt a[0]!, dur := ← optInt a[1]!, cat := ← optStr a[2]!, name := ← getStr a[3]!,
           pid := ← getInt a[4]!, tid := ← getInt a[5]!, stream := ← optInt a[6]!, corr := ← optInt a[7]! }

def prow (r : C01.PRow) : Json :=
  Json.arr #[jInt r.idx, jInt r.ts, jInt r.dur, jInt r.fin, jInt r.pid, jInt r.tid, jInt r.stream, jInt r.corr,
    Json.str r.name, Json.str r.cat]

def frow (j : Json) : Except String C18.FRow := do
  let a ← getArr j
  if a.size != 10 then throw "frow: expected 10 fields"
  return { idx := ← getInt a[0]!, ts := ← getInt a[1]!, dur := ← getInt a[2]!, stream := ← getInt a[3]!,
           corr := ← getInt a[4]!, iter := ← getInt a[5]!, rank := ← getInt a[6]!, name := ← getStr a[7]!,
           cat := ← getStr a[8]!, sname := ← getStr a[9]! }

def flt (j : Json) : Except String C18.Flt := do
  let a ← getArr j
  let k ← getStr a[0]!
  match k with
  | "iteration" => return .iteration (← intList a[1]!)
  | "iterIndex" => return .iterIndex ((← intList a[1]!).map Int.toNat)
  | "rank" => return .rank (← intList a[1]!)
  | "timeRange" => return .timeRange (← getInt a[1]!) (← getInt a[2]!)
  | "name" => return .name (← getBool a[1]!) (← (← getArr a[2]!).toList.mapM getStr)
  | "gpu" => return .gpu (← getBool a[1]!)
  | "cpu" => return .cpu (← getBool a[1]!)
  | "memcopy" => return .memcopy (← getStr a[1]!) (← getBool a[2]!)
  | _ => throw s!"unknown filter {k}"

def etyStr : C08.ETy → String
  | .op => "op" | .dep => "dep" | .launch => "launch" | .kk => "kk" | .sync => "sync"

def c08Waits (j : Json) : Except String C08.Waits :=
  match j.getObjVal? "waits" with
  | .error _ => return []
  | .ok v => do
    (← getArr v).toList.mapM fun x => do
      let a ← getArr x
      return (← getInt a[0]!, ← getInt a[1]!, ← getInt a[2]!)

def c08Graph (rs : List Row) (ws : C08.Waits) (ann : String) (iS iE : Nat) (zl : Bool) : Json :=
  match C08.window rs ann iS iE with
  | none => Json.mkObj [("window", Json.null)]
  | some w =>
    let (clipped, g) := C08.build rs ws w zl
    let nodes := (C08.nodesOf clipped).map fun (n, ts) => Json.arr #[jInt n.ev, Json.bool n.isStart, jInt ts]
    let edges := g.edges.map fun e =>
      let a := (g.attr.find? fun x => x.1 == e.src && x.2.1 == e.dst).map (·.2.2)
      Json.arr #[jInt e.src.ev, Json.bool e.src.isStart, jInt e.dst.ev, Json.bool e.dst.isStart, jInt e.weight,
        Json.str (etyStr e.ty), match a with | some v => jInt v | none => Json.null]
    Json.mkObj [("window", Json.arr #[jInt w.1, jInt w.2]), ("clipped", Json.arr (clipped.map fun r => jInt r.idx).toArray),
      ("nodes", Json.arr nodes.toArray), ("edges", Json.arr edges.toArray)]

def c08Edge (j : Json) : Except String C08.Edge := do
  let a ← getArr j
  let ty ← getStr a[5]!
  let t := if ty == "op" then C08.ETy.op else if ty == "dep" then .dep else if ty == "launch" then .launch
    else if ty == "kk" then .kk else .sync
  return { src := ⟨← getInt a[0]!, ← getBool a[1]!⟩, dst := ⟨← getInt a[2]!, ← getBool a[3]!⟩,
           weight := ← getInt a[4]!, ty := t }

def handle (j : Json) : Except String Json := do
  let op ← getStr (← field j "op")
  match op with
  | "ping" => return Json.mkObj [("ok", Json.bool true)]
  | "ktype" =>
    let names ← getArr (← field j "names")
    let out ← names.toList.mapM fun n => do
      let s ← getStr n
      return Json.arr #[Json.str (kernelType s).toString, Json.str (memoryKernelType s)]
    return Json.mkObj [("types", Json.arr out.toArray)]
  | "c04" =>
    let rs ← rows (← field j "rows")
    match C04.run kernelType rs with
    | none => return Json.mkObj [("raises", Json.bool true)]
    | some o => return c04Out o
  | "c04.check" =>
    let rs ← rows (← field j "rows")
    let o ← field j "out"
    let out : C04.Out := { idle := ← getInt (← field o "idle"), compute := ← getInt (← field o "compute"),
                           nonCompute := ← getInt (← field o "non_compute"),
                           kernelTime := ← getInt (← field o "kernel_time") }
    let K := C04.deviceRows rs
    let C := K.filter fun r => kernelType r.name == .computation
    return Json.mkObj [("ok", Json.bool (C04.check (K.map Row.iv) (C.map Row.iv) out))]
  | "c07" =>
    let rs ← rows (← field j "rows")
    let o := C07.run kernelType rs
    return Json.mkObj [("num", jInt o.num), ("den", jInt o.den)]
  | "c07.exact" =>
    let rs ← rows (← field j "rows")
    let K := C04.deviceRows rs
    let comm := (K.filter fun r => kernelType r.name == .communication).map Row.iv
    let comp := (K.filter fun r => kernelType r.name == .computation).map Row.iv
    let o := C07.exact comm comp
    return Json.mkObj [("num", jInt o.num), ("den", jInt o.den)]
  | "c05.types" =>
    let rs ← rows (← field j "rows")
    let wm ← getBool (← field j "with_memory")
    let out := (C05.runTypeTimes kernelType wm rs).map fun (m, t) => Json.arr #[jInt m, jInt t]
    return Json.mkObj [("times", Json.arr out.toArray)]
  | "c05.types.exact" =>
    let rs ← rows (← field j "rows")
    let wm ← getBool (← field j "with_memory")
    let types := C05.perType kernelType wm rs
    let top : Nat := if wm then 7 else 3
    let out := (List.range top).map fun (i : Nat) =>
      Json.arr #[jInt (Int.ofNat i + 1), jInt (C05.exactTypeTime types (Int.ofNat i + 1))]
    return Json.mkObj [("times", Json.arr out.toArray)]
  | "c05.aggr" =>
    let ks ← kernels (← field j "kernels")
    let k ← getInt (← field j "num_kernels")
    let j0 ← getInt (← field j "j0")
    let o := C05.runAggr ks k.toNat j0.toNat
    return aggrOut o
  | "c05.aggr.check" =>
    let ks ← kernels (← field j "kernels")
    let k ← getInt (← field j "num_kernels")
    let o ← field j "out"
    let named ← (← getArr (← field o "named")).toList.mapM stat
    let others : Option Int := match (← field o "others") with
      | Json.null => none
      | v => v.getInt?.toOption
    return Json.mkObj [("ok", Json.bool (C05.checkAggr ks k.toNat { named, others }))]
  | "c15" =>
    let rs ← rows (← field j "rows")
    let wm ← getBool (← field j "with_memory")
    let out := (C15.run wm rs).map fun o => Json.arr #[jInt o.corr, jInt o.cpuDur, jInt o.gpuDur, jInt o.delay]
    return Json.mkObj [("rows", Json.arr out.toArray)]
  | "c14.queue" =>
    let rs ← rows (← field j "rows")
    let out := (C14.run rs).map fun (s, l) =>
      Json.arr #[jInt s, Json.arr (l.map fun (i, ts, pid, tid, v) =>
        Json.arr #[jInt i, jInt ts, jInt pid, jInt tid, jInt v]).toArray]
    return Json.mkObj [("streams", Json.arr out.toArray)]
  | "c14.bw" =>
    let rs ← rows (← field j "rows")
    let bws ← (← getArr (← field j "bw")).toList.mapM fun p => do
      let q ← getArr p
      return (← getInt q[0]!, ← getInt q[1]!)
    let bwOf := fun (i : Int) => ((bws.find? fun p => p.1 == i).map (·.2)).getD 0
    let out := (C14.memTypes kernelType rs).map fun ty =>
      let cs := C14.memCopies kernelType rs bwOf ty
      Json.arr #[Json.str ty, Json.arr ((C14.bwSeries cs).map fun (t, v) => Json.arr #[jInt t, jInt v]).toArray,
        Json.arr (cs.map fun c => Json.arr #[jInt c.ts, jInt c.fin, jInt c.bw]).toArray]
    return Json.mkObj [("types", Json.arr out.toArray)]
  | "c06" =>
    let rs ← rows (← field j "rows")
    let delay ← getInt (← field j "delay")
    let streams ← intList (← field j "streams")
    let out := streams.map fun s =>
      let o := C06.run delay rs s
      let n := (C06.kernelsOf rs s).length
      Json.arr #[jInt s, jInt o.hostWait, jInt o.kernelWait, jInt o.other, Json.bool o.hostPresent,
        Json.bool o.kernelPresent, jInt n]
    return Json.mkObj [("streams", Json.arr out.toArray)]
  | "c02" =>
    let rs ← rows (← field j "rows")
    let out := (C02.run rs).map fun (i, l) => Json.arr #[jInt i, jInt l]
    return Json.mkObj [("links", Json.arr out.toArray)]
  | "c01" =>
    let files ← (← getArr (← field j "files")).toList.mapM fun f => do
      (← getArr f).toList.mapM rawEntry
    let parsed := files.map C01.parseRank
    let (c, aligned) := C01.align parsed
    let enc := fun (rs : List (List C01.PRow)) => Json.arr (rs.map fun l => Json.arr (l.map prow).toArray).toArray
    return Json.mkObj [("min_ts", jInt c), ("parsed", enc parsed), ("aligned", enc aligned)]
  | "c12.iter" =>
    let rs ← rows (← field j "rows")
    match C12.runIter rs with
    | none => return Json.mkObj [("raises", Json.bool true)]
    | some l => return Json.mkObj [("iters", Json.arr (l.map fun (i, k) => Json.arr #[jInt i, jInt k]).toArray)]
  | "c12.load" =>
    let ranks ← (← getArr (← field j "ranks")).toList.mapM rows
    let il ← getBool (← field j "include_last")
    let n := C12.countStepSymbols ranks
    let out := (C12.load il n ranks).map fun l => Json.arr (l.map fun r => jInt r.idx).toArray
    return Json.mkObj [("n_step_symbols", jInt n), ("kept", Json.arr out.toArray)]
  | "shorten" =>
    let names ← (← getArr (← field j "names")).toList.mapM getStr
    return Json.mkObj [("short", Json.arr (names.map fun n => Json.str (C17.shortenName n)).toArray)]
  | "c17" =>
    let c ← rows (← field j "control")
    let t ← rows (← field j "test")
    let ci ← intList (← field j "control_iterations")
    let ti ← intList (← field j "test_iterations")
    let short ← getBool (← field j "short")
    let dev ← getStr (← field j "device")
    let d := if dev == "CPU" then C17.Device.cpu else if dev == "GPU" then C17.Device.gpu else C17.Device.all
    let out := (C17.run short d ci ti c t).map fun r =>
      Json.arr #[Json.str r.name, jInt r.controlCount, jInt r.testCount, jInt r.controlDur, jInt r.testDur,
        jInt r.diffCount, jInt r.diffDur,
        Json.str (if C17.isAdded r then "added" else if C17.isDeleted r then "deleted"
          else if C17.isIncreased r then "increased" else if C17.isDecreased r then "decreased"
          else if C17.isUnchanged r then "unchanged" else "none")]
    return Json.mkObj [("rows", Json.arr out.toArray)]
  | "c18" =>
    let rs ← (← getArr (← field j "rows")).toList.mapM frow
    let fs ← (← getArr (← field j "filters")).toList.mapM flt
    let fr : C18.Frame := { rows := rs, hasRank := ← getBool (← field j "has_rank"), decoded := ← getBool (← field j "decoded") }
    let out := C18.applyAll fs fr
    return Json.mkObj [("ids", Json.arr (out.rows.map fun r => Json.arr #[jInt r.rank, jInt r.idx]).toArray)]
  | "c11.ops" =>
    -- ops: ["add", [syms]] | ["encode", s] | ["decode", i] | ["table"]
    let ops ← getArr (← field j "ops")
    let mut t := C11.Tab.empty
    let mut outs : Array Json := #[]
    for o in ops do
      let a ← getArr o
      let k ← getStr a[0]!
      if k == "add" then
        let ss ← (← getArr a[1]!).toList.mapM getStr
        t := t.addAll ss
        outs := outs.push (jInt t.table.length)
      else if k == "encode" then
        outs := outs.push (match t.encode (← getStr a[1]!) with | some i => jInt i | none => Json.null)
      else if k == "decode" then
        outs := outs.push (match t.decode (← getInt a[1]!).toNat with | some s => Json.str s | none => Json.null)
      else
        outs := outs.push (Json.arr (t.table.map Json.str).toArray)
    return Json.mkObj [("outs", Json.arr outs)]
  | "c11.global" =>
    let locals ← (← getArr (← field j "locals")).toList.mapM fun l => do
      let ss ← (← getArr l).toList.mapM getStr
      return C11.Tab.empty.addAll ss
    let g := C11.globalOf locals
    let maps := locals.map fun l =>
      Json.arr ((List.range l.table.length).map fun i =>
        match C11.reencode l g i with | some k => jInt k | none => Json.null).toArray
    return Json.mkObj [("table", Json.arr (g.table.map Json.str).toArray), ("maps", Json.arr maps.toArray)]
  | "c03.run" =>
    let evs ← (← getArr (← field j "events")).toList.mapM fun e => do
      let a ← getArr e
      return ({ idx := ← getInt a[0]!, ts := ← getInt a[1]!, dur := ← getInt a[2]! } : C03.Ev)
    let out := (C03.run evs).map fun (i, p, d) => Json.arr #[jInt i, jInt p, jInt d]
    return Json.mkObj [("entries", Json.arr out.toArray)]
  | "c03.cmp" =>
    -- pairs of tokens [idx,dur,kind,time]; `po` = instants at which a positive event opens
    let po ← intList (← field j "po")
    let pof := fun (t : Int) => po.contains t
    let tok := fun (v : Json) => do
      let a ← getArr v
      return ({ idx := ← getInt a[0]!, dur := ← getInt a[1]!, kind := ← getInt a[2]!, time := ← getInt a[3]! } : C03.Tok)
    let out ← (← getArr (← field j "pairs")).toList.mapM fun p => do
      let a ← getArr p
      let x ← tok a[0]!
      let y ← tok a[1]!
      let n := match C03.lessThanNew pof x y with | some b => Json.bool b | none => Json.null
      let o := C03.cmpOld pof x y
      return Json.arr #[n, jInt (if o < 0 then -1 else if o > 0 then 1 else 0), Json.bool (decide (C03.tokLt pof x y))]
    return Json.mkObj [("results", Json.arr out.toArray)]
  | "c13" =>
    let rs ← rows (← field j "rows")
    let out := (C13.run rs).map fun (i, a) =>
      Json.arr #[jInt i, jInt a.parent, jInt a.depth, jInt a.height, jInt a.numKernels, jInt a.kernelDurSum,
        jInt a.kernelSpan, jInt a.firstKernelStart, jInt a.lastKernelEnd]
    return Json.mkObj [("attrs", Json.arr out.toArray)]
  | "c16" =>
    let rs ← rows (← field j "rows")
    let opn ← getStr (← field j "operator")
    let ml ← getInt (← field j "min_pattern_len")
    let out := (C16.run rs opn ml).map fun r =>
      Json.arr #[Json.arr (r.pattern.map Json.str).toArray, jInt r.count, jInt r.gpuDur, jInt r.cpuDur]
    return Json.mkObj [("table", Json.arr out.toArray)]
  | "c08" =>
    let rs ← rows (← field j "rows")
    let ann ← getStr (← field j "annotation")
    let iS ← getInt (← field j "i_start")
    let iE ← getInt (← field j "i_end")
    let zl ← getBool (← field j "zero_launch")
    return c08Graph rs (← c08Waits j) ann iS.toNat iE.toNat zl
  | "c08.check" =>
    -- the implementation's own graph: edges [srcEv,srcStart,dstEv,dstStart,weight,type] and a rank
    -- [[ev,isStart,rank]...] taken from a topological order
    let rs ← rows (← field j "rows")
    let es ← (← getArr (← field j "edges")).toList.mapM c08Edge
    let rk ← (← getArr (← field j "rank")).toList.mapM fun v => do
      let a ← getArr v
      return ((⟨← getInt a[0]!, ← getBool a[1]!⟩ : C08.NodeId), (← getInt a[2]!).toNat)
    let rank := fun (n : C08.NodeId) => ((rk.find? fun p => p.1 == n).map (·.2)).getD 0
    return Json.mkObj [("topo", Json.bool (C08.checkTopo es rank)), ("weights", Json.bool (C08.checkWeights rs es)),
      ("forward", Json.bool (C08.checkForward rs es)), ("types", Json.bool (C08.checkTypes rs es))]
  | "c09" =>
    let es ← (← getArr (← field j "edges")).toList.mapM fun v => do
      let a ← getArr v
      return ({ src := (← getInt a[0]!).toNat, dst := (← getInt a[1]!).toNat, w := ← getInt a[2]! } : C09.WEdge)
    let order := (← intList (← field j "order")).map Int.toNat
    let path := (← intList (← field j "path")).map Int.toNat
    let tsl ← (← getArr (← field j "ts")).toList.mapM fun v => do
      let a ← getArr v
      return ((← getInt a[0]!).toNat, ← getInt a[1]!)
    let ts := fun (n : Nat) => ((tsl.find? fun p => p.1 == n).map (·.2)).getD 0
    let d := C09.dp es order
    let D := C09.best d
    let pot := C09.checkPotential es (C09.distOf d) D order
    let w := C09.pathWeight es path
    let mk := match path with
      | [] => false
      | a :: rest => decide (w ≤ ts ((a :: rest).getLast (by simp)) - ts a)
    return Json.mkObj [("is_path", Json.bool (C09.isPath es path)), ("weight", jInt w), ("best", jInt D),
      ("potential_ok", Json.bool pot), ("within_makespan", Json.bool mk),
      ("n_path_edges", jInt (C09.pathEdges es path).length),
      ("span_bounded", Json.bool (es.all fun e => decide (e.w ≤ ts e.dst - ts e.src)))]
  | "c20.overlay" =>
    let raw ← (← getArr (← field j "raw")).toList.mapM fun v => do
      let a ← getArr v
      return ({ isX := ← getBool a[0]!, keepCat := ← getBool a[1]!, pid := ← getInt a[2]!, tid := ← getInt a[3]!,
                ts := ← getInt a[4]!, dur := ← getInt a[5]!, onDevice := ← getBool a[6]! } : C20.Src)
    let parseEdges (v : Json) : Except String (List C20.Edge) := do
      (← getArr v).toList.mapM fun x => do
        let a ← getArr x
        return ({ srcEv := (← getInt a[0]!).toNat, srcIsStart := ← getBool a[1]!, dstEv := (← getInt a[2]!).toNat,
                  dstIsStart := ← getBool a[3]!, weight := ← getInt a[4]!, type := ← getStr a[5]!, critical := ← getBool a[6]! } : C20.Edge)
    let all ← parseEdges (← field j "edges_all")
    let ce ← parseEdges (← field j "edges_crit")
    let crit := (← intList (← field j "crit")).filterMap fun i => if i < 0 then none else some i.toNat
    let oc ← getBool (← field j "only_critical")
    let sa ← getBool (← field j "show_all")
    let sz ← getBool (← field j "show_zero")
    let out := C20.overlay raw crit all ce oc sa sz
    let heads := out.filterMap fun o => match o with
      | .src i m => some (Json.arr #[jInt (i : Int), Json.bool m])
      | _ => none
    let flows := out.filterMap fun o => match o with
      | .flow id st p t ts c w cr => some (Json.arr #[Json.str (if st then "s" else "f"), jInt (id : Int), jInt p, jInt t, jInt ts,
          Json.str c, Json.str "critical_path", jInt w, Json.bool cr, (if st then Json.null else Json.str "e"), Json.arr #[], Json.arr #[]])
      | _ => none
    return Json.mkObj [("head", Json.arr heads.toArray), ("flows", Json.arr flows.toArray)]
  | "c20.append" =>
    let src := (← intList (← field j "src")).map Int.toNat
    let out := (← intList (← field j "out")).map Int.toNat
    let isC ← (← getArr (← field j "is_counter")).toList.mapM getBool
    return Json.mkObj [("append_only", Json.bool (C20.checkAppendOnly src out isC)),
      ("n_src", jInt (src.length : Int)), ("n_out", jInt (out.length : Int))]
  | "c20.rank" =>
    let parseDoc (v : Json) : Except String C20.Doc := do
      (← getArr v).toList.mapM fun x => do
        let a ← getArr x
        return (← getStr a[0]!, (← getInt a[1]!).toNat)
    let doc ← parseDoc (← field j "doc")
    let dij ← field j "di"
    let di ← (match dij with
      | Json.null => pure none
      | v => do pure (some (← parseDoc v)) : Except String (Option C20.Doc))
    let r := (← getInt (← field j "rank_id")).toNat
    let dumpDoc (d : C20.Doc) : Json := Json.arr (d.map fun p => Json.arr #[Json.str p.1, jInt (p.2 : Int)]).toArray
    -- top level: distributedInfo is added at the end when missing; other fields untouched (their ids are opaque here)
    let hasDi := doc.any fun p => p.1 == "distributedInfo"
    let keys := doc.map (·.1) ++ (if hasDi then [] else ["distributedInfo"])
    return Json.mkObj [("keys", Json.arr (keys.map Json.str).toArray), ("di", dumpDoc (C20.setRank di r)),
      ("other", dumpDoc (doc.filter fun p => p.1 != "distributedInfo"))]
  | "c19" =>
    let parseAdj (v : Json) : Except String (Nat × List (Nat × C19.Attr)) := do
      let a ← getArr v
      let outs ← (← getArr a[1]!).toList.mapM fun e => do
        let b ← getArr e
        return ((← getInt b[0]!).toNat, ((← getInt b[1]!, ← getStr b[2]!) : C19.Attr))
      return ((← getInt a[0]!).toNat, outs)
    let out ← (← getArr (← field j "adj")).toList.mapM parseAdj
    let n := (← getInt (← field j "cycles")).toNat
    let a0 : C19.Adj := { nodes := out.map (·.1), out := out }
    let dumpAdj (a : C19.Adj) : Json := Json.arr (a.nodes.map fun (u : Nat) =>
      Json.arr #[jInt (u : Int), Json.arr ((C19.outOf a u).map fun e => Json.arr #[jInt (e.1 : Int), jInt e.2.1, Json.str e.2.2]).toArray]).toArray
    let states := (List.range n).map fun i => dumpAdj (C19.roundtrip (i + 1) a0)
    return Json.mkObj [("states", Json.arr states.toArray), ("nodup", Json.bool (decide a0.nodes.Nodup))]
  | "c19.history" =>
    let parseAdj (v : Json) : Except String (Nat × List (Nat × C19.Attr)) := do
      let a ← getArr v
      let outs ← (← getArr a[1]!).toList.mapM fun e => do
        let b ← getArr e
        return ((← getInt b[0]!).toNat, ((← getInt b[1]!, ← getStr b[2]!) : C19.Attr))
      return ((← getInt a[0]!).toNat, outs)
    let dumpAdj (a : C19.Adj) : Json := Json.arr (a.nodes.map fun (u : Nat) =>
      Json.arr #[jInt (u : Int), Json.arr ((C19.outOf a u).map fun e => Json.arr #[jInt (e.1 : Int), jInt e.2.1, Json.str e.2.2]).toArray]).toArray
    let ops ← (← getArr (← field j "ops")).toList.mapM fun v => do
      let a ← getArr v
      let kind ← getStr a[0]!
      let dir ← getStr a[1]!
      if kind == "save" then
        let out ← (← getArr a[2]!).toList.mapM parseAdj
        return C19.Op.save dir { nodes := out.map (·.1), out := out }
      else
        return C19.Op.restore dir
    let (_, outs) := ops.foldl (fun (acc : C19.Store × List Json) op =>
      let (s', r) := C19.step acc.1 op
      match op, r with
      | .restore _, some a => (s', acc.2 ++ [dumpAdj a])
      | .restore _, none => (s', acc.2 ++ [Json.null])
      | _, _ => (s', acc.2)) (([] : C19.Store), ([] : List Json))
    return Json.mkObj [("restores", Json.arr outs.toArray)]
  | "c10" =>
    -- crit: the implementation's critical edges as [srcEv,srcStart,dstEv,dstStart]
    let rs ← rows (← field j "rows")
    let ann ← getStr (← field j "annotation")
    let iS ← getInt (← field j "i_start")
    let iE ← getInt (← field j "i_end")
    let zl ← getBool (← field j "zero_launch")
    let crit ← (← getArr (← field j "crit")).toList.mapM fun v => do
      let a ← getArr v
      return ((⟨← getInt a[0]!, ← getBool a[1]!⟩ : C08.NodeId), (⟨← getInt a[2]!, ← getBool a[3]!⟩ : C08.NodeId))
    match C08.window rs ann iS.toNat iE.toNat with
    | none => return Json.mkObj [("window", Json.null)]
    | some w =>
      let (clipped, g) := C08.build rs (← c08Waits j) w zl
      let edges := crit.filterMap fun (a, b) => g.edges.find? fun e => e.src == a && e.dst == b
      match C10.breakdown clipped g edges with
      | none => return Json.mkObj [("raises", Json.bool true), ("found", jInt edges.length)]
      | some out =>
        let rowsJ := out.map fun r => Json.arr #[match r.ev with | some v => jInt v | none => Json.null, jInt r.dur,
          Json.str (etyStr r.ty), Json.str r.boundBy]
        let cls := (C10.classSums out).map fun (k, v) => Json.arr #[Json.str k, jInt v]
        return Json.mkObj [("found", jInt edges.length), ("rows", Json.arr rowsJ.toArray), ("classes", Json.arr cls.toArray),
          ("total", jInt (C10.totalDur out))]
  | _ => throw s!"unknown op {op}"

partial def loop (hin hout : IO.FS.Stream) : IO Unit := do
  let line ← hin.getLine
  if line.isEmpty then return ()
  let ans := match Json.parse line with
    | .error e => err s!"parse: {e}"
    | .ok j => match handle j with
      | .error e => err e
      | .ok r => r
  hout.putStrLn ans.compress
  hout.flush
  loop hin hout

end Drv

def main : IO Unit := do
  Drv.loop (← IO.getStdin) (← IO.getStdout)
