"""Runs a battery of analyses on one case (read from a JSON file) and prints a digest per
analysis. Spawned by the C11 adapter under different PYTHONHASHSEED / multiprocessing settings:
identical output is required."""
from __future__ import annotations

import hashlib
import json
import sys


def _records(df):
    """A frame as order-free records without the columns that hold symbol ids (they legitimately vary with the seed)."""
    if df is None:
        return None
    df = df.reset_index()
    df.columns = [str(c) for c in df.columns]
    keep = [c for c in df.columns if c not in ("name", "cat", "user_annotation", "index", "level_0")]
    return sorted(map(str, df[keep].round(6).to_dict("records")))


def _anno(ta, r):
    df = ta.get_gpu_kernels_with_user_annotations(r)
    if df is None:
        return None
    return sorted(map(str, df[["ts", "dur", "stream", "s_name", "s_user_annotation"]].to_dict("records")))


def battery(case, mp: bool):
    from harness import htaio
    from harness.props import common as C
    files = htaio.write_case(case)
    out = {}
    try:
        ta = htaio.load(files, mp=mp)
        ranks = ta.t.get_ranks()

        def dig(x):
            return hashlib.sha256(json.dumps(x, sort_keys=True, default=str).encode()).hexdigest()[:12]
        tab = ta.t.symbol_table.get_sym_table()
        out["rows"] = dig({r: sorted(htaio.rows_of(ta.t, r)) for r in ranks})
        out["vocab"] = dig(sorted(tab))
        steps = [("temporal", lambda: ta.get_temporal_breakdown(visualize=False).round(6).to_dict("records")),
                 ("overlap", lambda: ta.get_comm_comp_overlap(visualize=False).round(6).to_dict("records")),
                 ("kernel_bd", lambda: [sorted(map(str, df.round(6).to_dict("records"))) for df in ta.get_gpu_kernel_breakdown(visualize=False, num_kernels=3)]),
                 ("idle", lambda: sorted(map(str, ta.get_idle_time_breakdown(ranks=ranks, visualize=False)[0].round(6).to_dict("records")))),
                 ("launch", lambda: {r: sorted(map(str, df.to_dict("records"))) for r, df in ta.get_cuda_kernel_launch_stats(ranks=ranks, visualize=False).items()}),
                 ("queue", lambda: {r: df.reset_index().to_dict("records") for r, df in ta.get_queue_length_time_series(ranks).items()}),
                 ("membw", lambda: {r: sorted(map(str, df.to_dict("records"))) for r, df in ta.get_memory_bw_time_series(ranks).items()}),
                 ("iterations", lambda: {r: ta.t.get_iterations(r) for r in ranks}),
                 ("profiler_steps", lambda: list(ta.get_profiler_steps())),
                 ("anno_kernels", lambda: {r: _anno(ta, r) for r in ranks}),
                 ("anno_bd", lambda: _records(ta.get_gpu_user_annotation_breakdown(visualize=False))),
                 ("queue_summary", lambda: _records(ta.get_queue_length_summary(ranks=ranks))),
                 ("membw_summary", lambda: _records(ta.get_memory_bw_summary(ranks=ranks))),
                 ("blocked", lambda: _records(ta.get_time_spent_blocked_on_full_queue(ta.get_queue_length_time_series(ranks), max_queue_length=2)))]
        for name, f in steps:
            try:
                out[name] = dig(f())
            except Exception as e:  # noqa: BLE001
                out[name] = "raises:" + type(e).__name__
    finally:
        htaio.remove_case_dir(files)
    return out


if __name__ == "__main__":
    case = json.load(open(sys.argv[1]))
    case["ranks"] = {int(k): v for k, v in case["ranks"].items()}
    print(json.dumps(battery(case, sys.argv[2] == "1")))
