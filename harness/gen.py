"""Trace simulator: a miniature CUDA execution recorded as Kineto/Chrome trace files.

Every random choice comes from one `random.Random` handed in by the caller (seeded from
VERIF_SEED and the case number), so a case replays exactly from (seed, case number) and
the replay files store the generated events themselves anyway.

Well-formedness holds *by construction* in the default stream:
  * events of one host thread are properly nested (a recursive operator tree),
  * a correlation id pairs at most one host call with at most one device activity,
  * device stream ids are positive, activities of one stream never overlap (FIFO),
  * a device activity starts no earlier than its launch call starts,
  * blocking synchronisation calls return no earlier than the work they wait for,
  * the first event of the file is a host operator without correlation id.
A coarse time grid makes equal starts, equal ends, touching, identical and zero-length
spans frequent instead of rare.
"""
from __future__ import annotations

import copy
import random
from typing import Any, Dict, List, Optional

HOST_OPS = [
    "aten::add", "aten::mm", "aten::copy_", "aten::empty", "aten::linear",
    "aten::to", "aten::_to_copy", "aten::relu", "c10d::allreduce_", "nccl:all_reduce",
    "aten::add aten::mm", "torch::autograd::AccumulateGrad",
]
BWD_OPS = [
    "autograd::engine::evaluate_function: AddBackward0",
    "autograd::engine::evaluate_function: MmBackward0",
    "AddBackward0", "MmBackward0",
]
ANNOTATIONS = ["## forward ##", "## backward ##", "Optimizer.step#SGD.step", "zero_grad"]
COMPUTE_KERNELS = [
    "void at::native::vectorized_elementwise_kernel<4, at::native::AddFunctor<float> >(int, float)",
    "sm80_xmma_gemm_f32f32_tf32f32_f32_nn_n_tilesize128x128x16",
    "ampere_sgemm_128x64_nn", "void cutlass::Kernel<cutlass_80_tensorop>(Params)",
    "nccl_foo", "xMemset", "triton_poi_fused_add_0", "dma_not_prefix_x",
]
COMM_KERNELS = [
    "ncclKernel_AllReduce_RING_LL_Sum_float(ncclWorkElem)",
    "ncclDevKernel_AllGather_RING_LL(ncclDevComm*)", "ncclKernel_x", "nccl:Kernel",
]
OTHER_KERNELS = ["xMemcpy", "fooSync", "kernel_Memcpy_like", "MySyncKernel"]
MEMCPY_NAMES = [
    "Memcpy DtoH (Device -> Pageable)", "Memcpy HtoD (Pageable -> Device)",
    "Memcpy DtoD (Device -> Device)", "Memcpy HtoD (Pinned -> Device)", "Memcpy",
]
MEMSET_NAMES = ["Memset (Device)", "Memset"]
KERNEL_LAUNCHES = [("cudaLaunchKernel", "cuda_runtime"), ("cudaLaunchKernelExC", "cuda_runtime"),
                   ("cuLaunchKernel", "cuda_driver")]


class Cfg:
    """Knobs of one generated case; all drawn from the case rng by `draw_cfg`."""

    def __init__(self, **kw: Any) -> None:
        self.nranks = 1
        self.grid = 1
        self.nsteps = 0
        self.step_base = 10
        self.zero_rate = 0.15
        self.missing_rate = 0.1
        self.shuffle = True
        self.offset = 0
        self.nstreams = 2
        self.two_threads = False
        self.top_ops = 3
        self.max_depth = 3
        self.launch_rate = 0.45
        self.sync_rate = 0.0
        self.event_rate = 0.0      # CUDA-event based synchronisation (record / stream-wait / event-synchronize / query)
        self.memcpy_rate = 0.2
        self.noise = True          # metadata / flow / instant entries, Trace span
        self.pre_post = True       # operators before the first / after the last step
        self.bwd = False           # a '## backward ##' annotation with autograd-thread ops
        self.device_only_extra = 0.0
        self.filler = 0            # extra small host operators early in file order: event ids beyond 127 / 255
        self.corr_start = None     # all ranks count correlation ids from the same number (ids collide across ranks)
        self.tid_base = 100        # host thread ids are tid_base + rank and 2 * tid_base + rank
        self.share_streams = 0.0   # probability that a launch of the second host thread goes to a stream of the first
        self.pyfunc = False        # Python frames (cat python_function, as written with with_stack=True) on a thread of their own
        self.rank_ids = "dense"    # rank numbering: 0..n-1, 1..n, with gaps, or large numbers
        self.pad_ids = 0           # that many metadata entries right after the first event: event ids beyond int16
        self.long_idle = False     # one early host operator, everything else more than 2^31 us later
        self.annotation_rate = 0.08   # how often an operator of the tree is a user annotation instead
        self.stream_zero = False   # one of the streams is stream 0 (the null stream, as ROCm / Triton traces report it)
        self.deep_queue = 0        # that many launches enqueued on one stream before its first kernel starts
        self.early_record = 0.15   # how often a CUDA event is recorded on a stream before anything was launched in the trace
        self.sync_ties = False     # the second thread enqueues work while the first is blocked; it starts when the call returns
        self.__dict__.update(kw)

    def to_json(self) -> Dict[str, Any]:
        return dict(self.__dict__)


def draw_cfg(rng: random.Random, **force: Any) -> Cfg:
    c = Cfg()
    c.nranks = rng.choice([1, 1, 1, 2, 2, 3])
    c.grid = rng.choice([1, 1, 2, 5])
    c.nsteps = rng.choice([0, 0, 1, 2, 3, 3, 4])
    c.step_base = rng.choice([0, 1, 8, 9, 10, 98, 550])
    c.zero_rate = rng.choice([0.0, 0.1, 0.2, 0.35])
    c.missing_rate = rng.choice([0.0, 0.0, 0.1, 0.25])
    c.shuffle = rng.random() < 0.6
    c.offset = rng.choice([0, 0, 7, 1000, 10**6, 1_700_000_000_000_000])
    c.nstreams = rng.choice([1, 2, 2, 3])
    c.two_threads = rng.random() < 0.3
    c.top_ops = rng.choice([1, 2, 3, 4])
    c.max_depth = rng.choice([1, 2, 3, 4])
    c.launch_rate = rng.choice([0.3, 0.45, 0.6])
    c.memcpy_rate = rng.choice([0.0, 0.2, 0.4])
    c.noise = rng.random() < 0.8
    c.pre_post = rng.random() < 0.7
    c.filler = rng.choice([130, 260, -90, -90]) if rng.random() < 0.1 else 0   # negative: that many ops with rank-specific unique names
    c.corr_start = rng.choice([None, None, None, 1, 100, -1])
    c.tid_base = rng.choice([100] * 12 + [3, 2, 1, 50000])
    c.share_streams = rng.choice([0.0, 0.0, 0.5])
    c.pyfunc = rng.random() < 0.15
    c.rank_ids = rng.choice(["dense"] * 7 + ["from1", "gaps", "big"])      # how the ranks of the job are numbered
    c.pad_ids = 33000 if rng.random() < 0.04 else 0
    c.long_idle = rng.random() < 0.04
    c.__dict__.update(force)
    return c


class RankSim:
    def __init__(self, rng: random.Random, cfg: Cfg, rank: int) -> None:
        self.rng = rng
        self.cfg = cfg
        self.rank = rank
        self.g = cfg.grid
        self.ev: List[Dict[str, Any]] = []
        self.corr = rng.choice([-1, 1, 5, 100, 278204204, 3000000000])    # -1: the first correlation id of the rank may be 0
        if cfg.corr_start is not None:
            self.corr = cfg.corr_start
        self.zero_pending = cfg.corr_start == -1     # one of the first launches of the rank carries correlation id 0
        self.zero_countdown = rng.choice([0, 0, 1, 2, 4, 7]) if self.zero_pending else 0
        if self.zero_pending:
            self.corr = 0                            # ... and nothing else does
        self.host_pid = 1000 + rank
        self.dev_pid = rank
        self.stream_ids = rng.sample([7, 13, 20, 24, 28, 32, 130], cfg.nstreams + (1 if cfg.two_threads else 0))
        if cfg.stream_zero:
            self.stream_ids[0] = 0
        self.last_end: Dict[int, int] = {s: 0 for s in self.stream_ids}
        # CUDA events recorded so far: {"corr", "stream", "done" (when the work before the record is finished), "t"}
        self.cuda_events: List[Dict[str, int]] = []
        # work enqueued on a stream after a cudaStreamWaitEvent starts no earlier than the awaited event completes
        self.wait_until: Dict[int, int] = {}
        # per stream: what the first host thread did to it, so that the second thread (simulated afterwards) can put
        # work on the same stream without breaking stream order or the meaning of recorded events
        self.tl_kernels: Dict[int, List[Any]] = {s: [] for s in self.stream_ids}   # (launch ts, start, end)
        self.tl_records: Dict[int, List[int]] = {s: [] for s in self.stream_ids}    # cudaEventRecord call times
        self.tl_waits: Dict[int, List[Any]] = {s: [] for s in self.stream_ids}      # (cudaStreamWaitEvent call time, done)
        self.tl_syncs: List[Any] = []      # (awaited stream or None for all, blocking call's start, its end)
        self.last_kernel_ev: Dict[int, Any] = {}     # stream -> the event of the activity simulated last on it
        self.second_thread = False
        self.main_streams: List[int] = []
        # per-rank vocabulary (ranks differ)
        self.vocab_host = rng.sample(HOST_OPS, rng.randint(3, len(HOST_OPS)))
        self.vocab_comp = rng.sample(COMPUTE_KERNELS, rng.randint(1, len(COMPUTE_KERNELS)))
        self.vocab_comm = rng.sample(COMM_KERNELS, rng.randint(1, len(COMM_KERNELS)))
        self.vocab_other = rng.sample(OTHER_KERNELS, rng.randint(0, 2))

    # -- small helpers -------------------------------------------------------------------
    def dur(self, big: bool = False) -> int:
        if self.rng.random() < self.cfg.zero_rate:
            return 0
        return self.g * self.rng.choice([1, 1, 2, 3, 5, 8] if not big else [1, 2, 3, 5, 8, 13, 21])

    def gap(self) -> int:
        return self.g * self.rng.choice([0, 0, 0, 1, 1, 2, 5])

    def x(self, cat: str, name: str, pid: int, tid: int, ts: int, dur: int,
          args: Optional[Dict[str, Any]] = None) -> Dict[str, Any]:
        e: Dict[str, Any] = {"ph": "X", "cat": cat, "name": name, "pid": pid, "tid": tid,
                             "ts": ts, "dur": dur}
        if args is not None:
            e["args"] = args
        self.ev.append(e)
        return e

    def next_corr(self) -> int:
        self.corr += self.rng.choice([1, 1, 2, 7])
        return self.corr

    # -- device side ---------------------------------------------------------------------
    def kernel_name(self) -> str:
        r = self.rng.random()
        if r < 0.55 or not self.vocab_comm:
            return self.rng.choice(self.vocab_comp)
        if r < 0.9 or not self.vocab_other:
            return self.rng.choice(self.vocab_comm)
        return self.rng.choice(self.vocab_other)

    def launch(self, t: int, tid: int, streams: List[int]) -> int:
        rng = self.rng
        d = self.dur()
        if d == 0 and self.cfg.event_rate:
            # with CUDA events in the trace two launch calls of one thread never start in the same microsecond: which of
            # them "precedes" a cudaEventRecord is decided by an unstable sort in the implementation (numpy's SIMD sort
            # does not keep the order of equal keys even for five elements) and by nothing in the trace
            d = self.g
        c = self.next_corr()
        if self.zero_pending:
            if self.zero_countdown <= 0:
                c, self.zero_pending = 0, False
            self.zero_countdown -= 1
        stream = rng.choice(streams)
        r = rng.random()
        if r < self.cfg.memcpy_rate * 0.6:
            hname, hcat, dcat, dname = "cudaMemcpyAsync", "cuda_runtime", "gpu_memcpy", rng.choice(MEMCPY_NAMES)
        elif r < self.cfg.memcpy_rate:
            hname, hcat, dcat, dname = "cudaMemsetAsync", "cuda_runtime", "gpu_memset", rng.choice(MEMSET_NAMES)
        else:
            hname, hcat = rng.choice(KERNEL_LAUNCHES)
            dcat, dname = "kernel", self.kernel_name()
        slot = None
        if self.second_thread and self.cfg.share_streams and rng.random() < self.cfg.share_streams:
            slot = self.shared_slot(t)
        if slot is not None:
            stream, kstart, hi = slot
            kdur = self.dur(big=True)
            # a tie the kernel loop has to order: work the other thread enqueues while this stream's owner is blocked in
            # a synchronisation call is not awaited by it and may start at the very instant the call returns, and be
            # shorter than the call was long
            ties = [(tc, te) for (ws, tc, te) in self.tl_syncs if (ws is None or ws == stream) and tc < t < te and kstart <= te
                    and (hi is None or te < hi) and te - tc >= 2]
            if ties and rng.random() < 0.7:
                tc, te = rng.choice(ties)
                kstart = te
                kdur = max(1, min(kdur, te - tc - 1))
            if hi is not None:
                kdur = min(kdur, hi - kstart)
            kstart, kdur = self.fit_around_syncs(stream, kstart, kdur, move=False)
            self.last_end[stream] = max(self.last_end[stream], kstart + kdur)
        else:
            kstart = max(t + self.g * rng.choice([0, 0, 1, 2, 5]),
                         self.last_end[stream] + self.g * rng.choice([0, 0, 1, 3, 10]),
                         self.wait_until.get(stream, 0))
            kdur = self.dur(big=True)
            if self.second_thread:
                kstart, kdur = self.fit_around_syncs(stream, kstart, kdur, move=True)
            self.last_end[stream] = kstart + kdur
        self.tl_kernels[stream].append((t, kstart, kstart + kdur))
        drop = rng.random()
        if not drop < self.cfg.missing_rate / 2:
            self.x(hcat, hname, self.host_pid, tid, t, d,
                   {"correlation": c, "External id": c + 1, "cbid": 211})
        if not (self.cfg.missing_rate / 2 <= drop < self.cfg.missing_rate):
            args: Dict[str, Any] = {"correlation": c, "stream": stream, "device": self.rank,
                                    "External id": c + 1}
            if dcat != "kernel":
                nbytes = rng.choice([0, 4, 1024, 1 << 20])
                args["bytes"] = nbytes
                args["memory bandwidth (GB/s)"] = rng.choice([0.5, 1.0, 2.25, 12.0, 0.125])
            else:
                args["grid"] = [1, 1, 1]
                args["registers per thread"] = 32
            self.last_kernel_ev[stream] = self.x(dcat, dname, self.dev_pid, stream, kstart, kdur, args)
        else:
            self.last_kernel_ev.pop(stream, None)
        return t + d

    def fit_around_syncs(self, stream: int, kstart: int, kdur: int, move: bool):
        """Work of the second host thread (simulated after the first) must not be running across the return of a
        blocking call of the first thread that awaits its stream: activities that start before the call returns are
        what the call waited for. The activity is cut short at the return, or (on the thread's own streams) moved
        behind it."""
        for _ in range(6):
            hit = [te for (ws, tc, te) in self.tl_syncs if (ws is None or ws == stream) and kstart < te < kstart + kdur]
            if not hit:
                break
            te = min(hit)
            if move and self.rng.random() < 0.5:
                kstart = te
            else:
                kdur = te - kstart
        return kstart, kdur

    def shared_slot(self, t: int):
        """A place for work the second host thread launches at time `t` on a stream of the first thread: after the
        kernels launched before `t`, before the first kernel launched after `t` (stream order), not before an event the
        stream was told to wait for, and not where it would become the work a recorded event stands for.
        Returns (stream, start, latest end or None) or None."""
        cand = list(self.main_streams)
        self.rng.shuffle(cand)
        for s in cand:
            ks = sorted(self.tl_kernels[s])
            if any(k[0] == t for k in ks) or any(r == t for r in self.tl_records[s]) or any(w[0] == t for w in self.tl_waits[s]):
                continue
            prev = [k for k in ks if k[0] < t]
            nxt = [k for k in ks if k[0] > t]
            nxt_launch = nxt[0][0] if nxt else None
            if any(t < r and (nxt_launch is None or r < nxt_launch) for r in self.tl_records[s]):
                continue
            lo = max([t] + [k[2] for k in prev] + [w[1] for w in self.tl_waits[s] if w[0] < t])
            hi = min(k[1] for k in nxt) if nxt else None
            if hi is not None and lo > hi:
                continue
            return s, lo, hi
        return None

    def sync(self, t: int, tid: int, streams: List[int]) -> int:
        """A blocking host call: returns once the awaited stream(s) are idle."""
        rng = self.rng
        c = self.next_corr()
        if rng.random() < 0.5:
            name, waits = "cudaStreamSynchronize", [rng.choice(streams)]
        else:
            name, waits = "cudaDeviceSynchronize", list(self.stream_ids)
        if len(waits) > 1 and not self.second_thread and not self.cfg.event_rate and rng.random() < 0.4:
            # an exact tie for the longest path: the activities still running on several streams when the device-wide
            # call is made all end in the same microsecond
            run = [s for s in waits if self.last_end[s] > t and s in self.last_kernel_ev
                   and self.last_kernel_ev[s]["ts"] + self.last_kernel_ev[s]["dur"] == self.last_end[s]]
            if len(run) >= 2:
                target = max(self.last_end[s] for s in run)
                for s in run:
                    e = self.last_kernel_ev[s]
                    self.tl_kernels[s] = [(a, b, target) if (b, c) == (e["ts"], e["ts"] + e["dur"]) else (a, b, c) for (a, b, c) in self.tl_kernels[s]]
                    e["dur"] = target - e["ts"]
                    self.last_end[s] = target
        busy_until = max([self.last_end[s] for s in waits] + [t])
        end = max(t + self.dur(), busy_until + self.g * rng.choice([0, 0, 1]))
        self.x("cuda_runtime", name, self.host_pid, tid, t, end - t,
               {"correlation": c, "External id": c + 1, "cbid": 131, "_stream": waits[0]})
        self.tl_syncs.append((waits[0] if len(waits) == 1 else None, t, end))
        return end

    def event_op(self, t: int, tid: int, streams: List[int], force: Optional[str] = None) -> int:
        """CUDA-event based synchronisation. Host calls here have positive duration and start one grid unit
        after `t`, so that launches, records and waits of one thread are strictly ordered in time."""
        rng, g = self.rng, self.g
        if not any(self.last_end[x] > 0 for x in streams) and rng.random() >= self.cfg.early_record:
            return self.launch(t, tid, streams)        # nothing to record yet: enqueue some work first
        t0 = t + g
        d = g * rng.choice([1, 1, 2, 3])
        c = self.next_corr()
        known = [e for e in self.cuda_events if e["t"] <= t0]
        kind = rng.choice(["record", "wait", "wait", "wait", "esync", "esync", "query"]) if known else "record"
        if force and known:
            kind = force
        early = not any(self.last_end[x] > 0 for x in streams)
        hargs = {"correlation": c, "External id": c + 1, "cbid": 135}
        if kind == "record":
            used = [x for x in streams if self.last_end[x] > 0]
            s = rng.choice(used if used and rng.random() < 0.8 else streams)
            self.x("cuda_runtime", "cudaEventRecord", self.host_pid, tid, t0, d, hargs)
            self.cuda_events.append({"corr": c, "stream": s, "done": max(self.last_end[s], self.wait_until.get(s, 0)), "t": t0})
            self.tl_records[s].append(t0)
            if early and not self.second_thread and rng.random() < 0.6:
                # an event recorded before anything was enqueued stands for no work at all: the trace's first launch
                # goes to the same stream and a wait for the event follows while that kernel is still running
                t1 = self.launch(t0 + d + g * rng.choice([0, 1]), tid, [s])
                return self.event_op(t1, tid, streams, force=rng.choice(["esync", "wait"]))
            return t0 + d
        if kind == "query":
            self.x("cuda_runtime", "cudaEventQuery", self.host_pid, tid, t0, d, hargs)
            self.x("cuda_sync", "Event Sync", self.dev_pid, -1, t0, d,
                   {"correlation": c, "stream": -1, "device": self.rank, "External id": c + 1, "cuda_sync_kind": "Event Sync",
                    "wait_on_stream": -1, "wait_on_cuda_event_record_corr_id": -1, "wait_on_cuda_event_id": 9})
            return t0 + d
        e = rng.choice(known[-3:])
        if kind == "wait":
            others = [x for x in streams if x != e["stream"]]
            b = rng.choice(others if others and rng.random() < 0.85 else streams)
            self.x("cuda_runtime", "cudaStreamWaitEvent", self.host_pid, tid, t0, d, hargs)
            lead = rng.choice([0, 0, g])
            rd = rng.choice([0, g]) if lead + g <= d else 0
            self.x("cuda_sync", "Stream Wait Event", self.dev_pid, b, t0 + lead, rd,
                   {"correlation": c, "stream": b, "device": self.rank, "External id": c + 1, "cuda_sync_kind": "Stream Wait Event",
                    "wait_on_stream": e["stream"], "wait_on_cuda_event_record_corr_id": e["corr"], "wait_on_cuda_event_id": 19})
            self.wait_until[b] = max(self.wait_until.get(b, 0), e["done"])
            self.tl_waits[b].append((t0, e["done"]))
            if rng.random() < (0.6 if not self.cfg.share_streams else 0.3):
                # the work that has to wait: the next launch of this thread on the waiting stream
                return self.launch(t0 + d + g * rng.choice([0, 0, 1]), tid, [b])
            return t0 + d
        # cudaEventSynchronize: returns once the event has completed
        end = max(t0 + d, e["done"] + g * rng.choice([0, 0, 1]))
        self.x("cuda_runtime", "cudaEventSynchronize", self.host_pid, tid, t0, end - t0, hargs)
        lead = min(end - t0, g * rng.choice([0, 0, 1]))
        self.x("cuda_sync", "Event Sync", self.dev_pid, -1, t0 + lead, end - t0 - lead,
               {"correlation": c, "stream": -1, "device": self.rank, "External id": c + 1, "cuda_sync_kind": "Event Sync",
                "wait_on_stream": e["stream"], "wait_on_cuda_event_record_corr_id": e["corr"], "wait_on_cuda_event_id": 8})
        return end

    # -- host side -----------------------------------------------------------------------
    def op(self, t: int, depth: int, tid: int, streams: List[int], vocab: List[str]) -> int:
        rng = self.rng
        r = rng.random()
        if depth > 0 and r < self.cfg.launch_rate:
            return self.launch(t, tid, streams)
        if depth > 0 and r < self.cfg.launch_rate + self.cfg.sync_rate:
            return self.sync(t, tid, streams)
        if depth > 0 and self.cfg.event_rate > 0 and r < self.cfg.launch_rate + self.cfg.sync_rate + self.cfg.event_rate:
            return self.event_op(t, tid, streams)
        name = rng.choice(vocab)
        cat = "cpu_op"
        if rng.random() < self.cfg.annotation_rate:
            name, cat = rng.choice(ANNOTATIONS[2:]), "user_annotation"
        e = self.x(cat, name, self.host_pid, tid, t, 0,
                   {"External id": self.next_corr(), "Sequence number": rng.randint(0, 50)}
                   if rng.random() < 0.8 else None)
        if depth >= self.cfg.max_depth or rng.random() < 0.3:
            e["dur"] = self.dur()
            return t + e["dur"]
        cur = t + self.g * rng.choice([0, 0, 1])
        n = rng.choice([1, 1, 2, 3])
        last_end = cur
        for _ in range(n):
            last_end = self.op(cur, depth + 1, tid, streams, vocab)
            cur = last_end + self.gap()
        end = last_end + self.g * rng.choice([0, 0, 1])
        e["dur"] = end - t
        return end

    def ops_seq(self, t: int, n: int, tid: int, streams: List[int], vocab: List[str]) -> int:
        cur = t
        last_end = t
        for _ in range(n):
            last_end = self.op(cur, 0, tid, streams, vocab)
            cur = last_end + self.gap()
        return last_end

    def run(self) -> List[Dict[str, Any]]:
        rng, cfg = self.rng, self.cfg
        main_tid = self.cfg.tid_base + self.rank
        bwd_tid = 2 * self.cfg.tid_base + self.rank
        main_streams = self.stream_ids[: cfg.nstreams]
        t = self.g * rng.choice([0, 0, 3])
        t_begin = t
        bwd_window = None
        if cfg.nsteps == 0:
            t = self.ops_seq(t, cfg.top_ops, main_tid, main_streams, self.vocab_host)
        else:
            if cfg.pre_post and rng.random() < 0.6:
                t = self.ops_seq(t, rng.randint(1, 2), main_tid, main_streams, self.vocab_host) + self.gap()
            for k in range(cfg.nsteps):
                s = t
                e = self.x("user_annotation", f"ProfilerStep#{cfg.step_base + k}", self.host_pid,
                           main_tid, s, 0)
                inner_end = s
                cur = s + self.g * rng.choice([0, 0, 1])
                if cfg.bwd and k == 0:
                    # forward part, then a backward annotation spanning autograd-thread work
                    inner_end = self.ops_seq(cur, max(1, cfg.top_ops - 1), main_tid, main_streams,
                                             self.vocab_host)
                    b0 = inner_end + self.gap()
                    be = self.x("user_annotation", "## backward ##", self.host_pid, main_tid, b0, 0)
                    b_inner = self.ops_seq(b0 + self.g * rng.choice([0, 1]), 1, main_tid,
                                           main_streams, self.vocab_host)
                    b_end = b_inner + self.g * rng.choice([3, 5, 8])
                    be["dur"] = b_end - b0
                    bwd_window = (b0, b_end)
                    inner_end = b_end
                else:
                    inner_end = self.ops_seq(cur, cfg.top_ops, main_tid, main_streams, self.vocab_host)
                end = max(inner_end + self.g * rng.choice([0, 0, 1]), s + self.g)
                e["dur"] = end - s
                t = end + self.g * rng.choice([0, 0, 1, 3])
            if cfg.pre_post and rng.random() < 0.6:
                t = self.ops_seq(t, rng.randint(1, 2), main_tid, main_streams, self.vocab_host)
        if cfg.two_threads:
            bstreams = self.stream_ids[cfg.nstreams:]
            self.second_thread = True
            self.main_streams = list(main_streams)
            if bwd_window is not None:
                # top-level autograd ops inside the backward window (and one possibly outside)
                cur = bwd_window[0] + self.g * rng.choice([0, 1])
                for _ in range(rng.randint(1, 3)):
                    save = self.cfg.max_depth
                    self.cfg.max_depth = min(save, 2)
                    e_end = self.op(cur, 0, bwd_tid, bstreams, BWD_OPS)
                    self.cfg.max_depth = save
                    cur = e_end + self.gap()
                    if cur >= bwd_window[1]:
                        break
            elif cfg.sync_ties and any(te - tc >= 2 for (_, tc, te) in self.tl_syncs):
                # the second thread only enqueues one short activity during each long enough blocking call of the first;
                # the call does not wait for it, the awaited stream is idle when the call returns, so it starts right then
                # (all of it inside one long operator of that thread which begins with the trace, so that the thread's
                # chain of nodes is as heavy as the first thread's when it reaches the launch)
                wrap = rng.random() < 0.7
                if wrap:
                    last = max(te for (_, tc, te) in self.tl_syncs)
                    self.x("cpu_op", "autograd::engine::evaluate_function", self.host_pid, bwd_tid, t_begin, last + 4 - t_begin, {"External id": self.next_corr()})
                for (ws, tc, te) in sorted(self.tl_syncs, key=lambda x: x[1]):
                    if te - tc < 2 or rng.random() < 0.25 or tc + 1 <= t_begin:
                        continue
                    stream = ws if ws is not None else rng.choice(main_streams)
                    nxt = [k[1] for k in self.tl_kernels[stream] if k[1] >= te]
                    busy = any(k[1] < te < k[2] for k in self.tl_kernels[stream])
                    room = (min(nxt) - te) if nxt else 10 ** 9
                    kdur = min(rng.randint(1, te - tc - 1), room)
                    kstart, kdur = self.fit_around_syncs(stream, te, kdur, move=False)
                    if busy or kdur < 1:
                        continue
                    c = self.next_corr()
                    self.x("cpu_op", rng.choice(BWD_OPS), self.host_pid, bwd_tid, tc + 1, 2, {"External id": c + 1})
                    self.x("cuda_runtime", "cudaLaunchKernel", self.host_pid, bwd_tid, tc + 1, 1, {"correlation": c, "External id": c + 1, "cbid": 211})
                    self.x("kernel", self.kernel_name(), self.dev_pid, stream, kstart, kdur,
                           {"correlation": c, "stream": stream, "device": self.rank, "External id": c + 1, "grid": [1, 1, 1], "registers per thread": 32})
                    self.tl_kernels[stream].append((tc + 1, kstart, kstart + kdur))
            else:
                start = t_begin + self.g * rng.choice([0, 1, 4, 9] if not cfg.share_streams else [0, 1, 4, 9, 15, 25, 40, 60])
                waits = [w[0] for s in main_streams for w in self.tl_waits[s]]
                blocked = [sy for sy in self.tl_syncs if sy[2] - sy[1] >= 2 * self.g]
                if cfg.share_streams and blocked and rng.random() < 0.5:
                    # ... or while the first one is blocked in a synchronisation call
                    sy = rng.choice(blocked)
                    start = max(t_begin, sy[1] - self.g * rng.choice([0, 1, 2]))
                elif cfg.share_streams and waits and rng.random() < 0.7:
                    # the second thread gets busy just after the first one told a stream to wait for an event
                    start = rng.choice(waits) - cfg.offset * 0 + self.g * rng.choice([0, 0, 1])
                self.ops_seq(start, rng.randint(1, 3) + (2 if cfg.share_streams else 0), bwd_tid, bstreams, BWD_OPS)
        if cfg.deep_queue:
            # a burst: many launches issued back to back on a stream of its own while a long kernel keeps it busy
            s_q = 99
            t0 = t + 10 * self.g
            self.x("cpu_op", "aten::burst", self.host_pid, main_tid, t0, 2 * cfg.deep_queue + 4, {"External id": self.next_corr()})
            k_start = t0 + 2 * cfg.deep_queue + 10
            for k in range(cfg.deep_queue):
                c = self.next_corr()
                self.x("cuda_runtime", "cudaLaunchKernel", self.host_pid, main_tid, t0 + 1 + 2 * k, 1, {"correlation": c, "External id": c + 1, "cbid": 211})
                self.x("kernel", self.rng.choice(self.vocab_comp), self.dev_pid, s_q, k_start + 3 * k, 2,
                       {"correlation": c, "stream": s_q, "device": self.rank, "External id": c + 1, "grid": [1, 1, 1], "registers per thread": 32})
        if cfg.pyfunc:
            # Python frames: complete events of category python_function, properly nested, on their own thread id
            t0 = t_begin
            names = ["torch/nn/modules/module.py(1501): _call_impl", "train.py(42): step", "<built-in method linear of type object at 0x7f>"]
            for k in range(rng.randint(1, 3)):
                outer = self.g * rng.choice([4, 8, 13])
                self.x("python_function", names[0], self.host_pid, main_tid + 7, t0, outer, {"Python id": 3 * k + 1, "Python parent id": None})
                inner = self.g * rng.choice([1, 2, 3])
                self.x("python_function", rng.choice(names[1:]), self.host_pid, main_tid + 7, t0 + self.g * rng.choice([0, 1]), inner,
                       {"Python id": 3 * k + 2, "Python parent id": 3 * k + 1})
                t0 += outer + self.g * rng.choice([0, 1, 5])
        return self.ev


def _noise(rng: random.Random, rank: int, lo: int, hi: int, host_pid: int, dev_pid: int) -> List[Dict[str, Any]]:
    out: List[Dict[str, Any]] = [
        {"ph": "M", "name": "process_name", "pid": host_pid, "tid": 0, "ts": 0,
         "args": {"name": "python"}},
        {"ph": "M", "name": "process_labels", "pid": dev_pid, "tid": 0, "ts": 0,
         "args": {"labels": f"GPU {rank}"}},
        {"ph": "M", "name": "thread_name", "pid": host_pid, "tid": 100 + rank, "ts": 0,
         "args": {"name": "thread main"}},
    ]
    if rng.random() < 0.7:
        out.append({"ph": "X", "cat": "Trace", "name": f"PyTorch Profiler ({rank})", "pid": "Spans",
                    "tid": "PyTorch Profiler", "ts": lo, "dur": max(hi - lo, 0)})
    if rng.random() < 0.5:
        out.append({"ph": "i", "s": "g", "name": "Iteration Start: PyTorch Profiler",
                    "pid": "Traces", "tid": "Trace PyTorch Profiler", "ts": lo})
    if rng.random() < 0.5:
        out.append({"ph": "s", "id": 7, "pid": host_pid, "tid": 100 + rank, "ts": lo, "cat": "ac2g",
                    "name": "ac2g"})
        out.append({"ph": "f", "id": 7, "pid": dev_pid, "tid": 7, "ts": lo + 1, "cat": "ac2g",
                    "name": "ac2g", "bp": "e"})
    if rng.random() < 0.3:
        out.append({"ph": "M", "name": "no_ts_metadata", "pid": host_pid, "tid": 0, "args": {}})
    return out


def simulate_rank(rng: random.Random, cfg: Cfg, rank: int) -> List[Dict[str, Any]]:
    sim = RankSim(rng, cfg, rank)
    ev = sim.run()
    for e in ev:
        e["ts"] += cfg.offset
    # file order
    if cfg.shuffle:
        rng.shuffle(ev)
    else:
        ev.sort(key=lambda e: (e["ts"], -e["dur"]))
    # the first event of the file is a host operator without a correlation id
    for i, e in enumerate(ev):
        if e["cat"] in ("cpu_op", "user_annotation") and "correlation" not in e.get("args", {}):
            ev.insert(0, ev.pop(i))
            break
    else:
        ev.insert(0, {"ph": "X", "cat": "cpu_op", "name": "aten::empty", "pid": sim.host_pid,
                      "tid": cfg.tid_base + rank, "ts": cfg.offset + (max([x["ts"] + x["dur"] for x in ev], default=0) - cfg.offset) + 5 * cfg.grid,
                      "dur": cfg.grid})
    if cfg.filler:
        # many small operators after everything else in time but early in the file: the ids of the interesting
        # events exceed the range of the narrow integer types the parser may pick for small values
        hi = max(e["ts"] + e["dur"] for e in ev) + 2 * cfg.grid
        if cfg.filler > 0:
            fill = [{"ph": "X", "cat": "cpu_op", "name": rng.choice(["aten::fill_", "aten::zero_", "aten::empty"]), "pid": sim.host_pid,
                     "tid": cfg.tid_base + rank, "ts": hi + 2 * k * cfg.grid, "dur": cfg.grid} for k in range(cfg.filler)]
        else:
            # a large rank-specific vocabulary: each rank's own symbol table stays below 128 entries, all ranks together exceed it
            fill = [{"ph": "X", "cat": "cpu_op", "name": f"aten::op_r{rank}_{k}", "pid": sim.host_pid,
                     "tid": cfg.tid_base + rank, "ts": hi + 2 * k * cfg.grid, "dur": cfg.grid} for k in range(-cfg.filler)]
        ev[1:1] = fill
    if cfg.long_idle:
        # the profile starts with one early operator; everything else happens more than 2^31 us (35.8 min) later
        for e in ev:
            e["ts"] += (1 << 31) + 1000
        ev.insert(1, {"ph": "X", "cat": "cpu_op", "name": "aten::empty", "pid": sim.host_pid, "tid": cfg.tid_base + rank,
                      "ts": cfg.offset, "dur": cfg.grid})
    if cfg.noise:
        lo = min(e["ts"] for e in ev)
        hi = max(e["ts"] + e["dur"] for e in ev)
        for n in _noise(rng, rank, lo, hi, sim.host_pid, sim.dev_pid):
            pos = rng.randint(1, len(ev))
            ev.insert(pos, n)
    if cfg.pad_ids:
        # metadata entries take positions in the file's event list but give no rows: the ids of the events that follow
        # exceed the range of a 16-bit integer while the trace stays small
        pad = [{"ph": "M", "name": "thread_sort_index", "pid": sim.host_pid, "tid": cfg.tid_base + rank, "args": {"sort_index": k}}
               for k in range(cfg.pad_ids)]
        ev[1:1] = pad
    return ev


def gen_case(rng: random.Random, **force: Any) -> Dict[str, Any]:
    cfg = draw_cfg(rng, **force)
    ranks = {}
    ids = {"dense": list(range(12)), "from1": list(range(1, 13)), "gaps": [0, 2, 5, 9, 10, 11, 14, 20, 21, 22, 30, 31],
           "big": [3, 64, 130, 1023, 1024, 1025, 2000, 2001, 2002, 2003, 2004, 2005]}[cfg.rank_ids]
    for r in range(cfg.nranks):
        ranks[ids[r]] = simulate_rank(rng, cfg, ids[r])
    return {"cfg": cfg.to_json(), "ranks": ranks}


# -- feature extraction (for the evidence histogram / non-triviality rule) ----------------
def features(case: Dict[str, Any]) -> Dict[str, int]:
    f = {"ties_start": 0, "ties_end": 0, "touching": 0, "identical": 0, "zero_len": 0,
         "missing_partner": 0, "multi_rank": 0, "multi_stream_overlap": 0, "steps": 0,
         "dev_events": 0, "host_events": 0}
    if len(case["ranks"]) > 1:
        f["multi_rank"] = 1
    for _, ev in case["ranks"].items():
        xs = [e for e in ev if e.get("ph") == "X" and "dur" in e and e.get("cat") != "Trace"]
        starts: Dict[Any, int] = {}
        ends: Dict[Any, int] = {}
        spans: Dict[Any, int] = {}
        corr_h: Dict[int, int] = {}
        corr_d: Dict[int, int] = {}
        for e in xs:
            a = e.get("args") or {}
            dev = "stream" in a
            f["dev_events" if dev else "host_events"] += 1
            if e["dur"] == 0:
                f["zero_len"] += 1
            if e["name"].startswith("ProfilerStep"):
                f["steps"] += 1
            key = "dev" if dev else (e["pid"], e["tid"])
            starts[(key, e["ts"])] = starts.get((key, e["ts"]), 0) + 1
            ends[(key, e["ts"] + e["dur"])] = ends.get((key, e["ts"] + e["dur"]), 0) + 1
            spans[(key, e["ts"], e["dur"])] = spans.get((key, e["ts"], e["dur"]), 0) + 1
            c = a.get("correlation", -1)
            if c >= 0:
                (corr_d if dev else corr_h)[c] = 1
        f["ties_start"] += sum(1 for v in starts.values() if v > 1)
        f["ties_end"] += sum(1 for v in ends.values() if v > 1)
        f["identical"] += sum(1 for v in spans.values() if v > 1)
        f["touching"] += sum(1 for (k, t) in ends if (k, t) in starts)
        f["missing_partner"] += len(set(corr_h) ^ set(corr_d))
        devs = sorted((e["ts"], e["ts"] + e["dur"], str((e.get("args") or {}).get("stream"))) for e in xs
                      if "stream" in (e.get("args") or {}))
        for i in range(len(devs) - 1):
            if devs[i + 1][0] < devs[i][1] and devs[i + 1][2] != devs[i][2]:
                f["multi_stream_overlap"] += 1
    return f


def nontrivial(f: Dict[str, int]) -> bool:
    return (f["ties_start"] + f["ties_end"] + f["touching"] + f["identical"] + f["zero_len"]
            + f["missing_partner"]) > 0


# -- critical-path traces: blocking syncs get their GPU-side cuda_sync records -----------------
def add_sync_records(rng: random.Random, case: Dict[str, Any]) -> None:
    """For every cudaStreamSynchronize / cudaDeviceSynchronize host call add the GPU-side record Kineto
    writes (cat cuda_sync; 'Stream Sync' on the awaited stream, 'Context Sync' on stream -1) with the
    same correlation id and a span that ends with the host call."""
    for r, ev in case["ranks"].items():
        extra = []
        for e in ev:
            if e.get("ph") != "X" or e.get("name") not in ("cudaStreamSynchronize", "cudaDeviceSynchronize"):
                continue
            a = e["args"]
            lead = min(e["dur"], case["cfg"]["grid"] * rng.choice([0, 0, 1]))
            if e["name"] == "cudaStreamSynchronize":
                s = a.get("_stream", 7)
                rec = {"ph": "X", "cat": "cuda_sync", "name": "Stream Sync", "pid": int(r), "tid": s, "ts": e["ts"] + lead,
                       "dur": e["dur"] - lead, "args": {"correlation": a["correlation"], "stream": s, "device": int(r),
                                                        "External id": a["External id"], "cuda_sync_kind": "Stream Sync"}}
            else:
                rec = {"ph": "X", "cat": "cuda_sync", "name": "Context Sync", "pid": int(r), "tid": -1, "ts": e["ts"] + lead,
                       "dur": e["dur"] - lead, "args": {"correlation": a["correlation"], "stream": -1, "device": int(r),
                                                        "External id": a["External id"], "cuda_sync_kind": "Context Sync"}}
            extra.append(rec)
        for x in extra:
            ev.insert(rng.randint(1, len(ev)), x)
        for e in ev:
            if isinstance(e.get("args"), dict):
                e["args"].pop("_stream", None)
