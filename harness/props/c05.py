"""C05 — kernel breakdown partitions busy time by type and conserves per-kernel time."""
from __future__ import annotations

import re
from typing import Any, Dict, List, Tuple

from harness import gen as G
from harness import htaio
from harness.props import common as C
from harness.props.c04 import _COMM, _MEM, is_computation

N_CASES = {"quick": 200, "thorough": 2000}
SHRINK = True
ASSUMPTIONS = [
    "integer timestamps after loading; non-negative durations; no kernel is literally named 'others'",
    "the quantile cut position j0 is recomputed by the harness with the same pandas call on the sorted per-name sums and handed to the model; the theorem C05_aggr quantifies over every j0 and every tie order",
    "mean is compared with sum/count within 1e-9 relative, percentages within 0.05 of the unrounded 100*sum/total (any tie rule accepted); stddev is not part of the property and not compared",
    "which of several equal-sum names becomes 'others' is the implementation's choice: the comparison accepts any choice consistent with descending order",
]
TYPE_ORDER = ["COMPUTATION", "COMMUNICATION", "MEMORY"]


def py_type(name: str) -> str:
    if _COMM.match(name):
        return "COMMUNICATION"
    if _MEM.match(name):
        return "MEMORY"
    if is_computation(name):
        return "COMPUTATION"
    return "OTHER"


def mask_label(m: int) -> str:
    return " overlapping ".join(t for i, t in enumerate(TYPE_ORDER) if m >> i & 1)


def gen(rng, tier, no, wide=False):
    force = {}
    if rng.random() < 0.5:
        force = {"nstreams": rng.choice([2, 3]), "launch_rate": 0.6, "memcpy_rate": rng.choice([0.2, 0.4])}
    if rng.random() < 0.15:
        force["stream_zero"] = True
    if rng.random() < 0.1:
        force.update({"nranks": rng.choice([2, 3]), "filler": -90})       # many rank-specific names: global symbol ids beyond 127
    case = C.gen_with(rng, C.every_rank_has_device, **force)
    if rng.random() < 0.03 and "filler" not in force:
        case = C.many_ranks(rng, case)
    if rng.random() < 0.1:
        # one file holding the activities of two devices of the process: the second device uses the same stream ids, each
        # stream is serial on its own device, the two devices overlap in time
        import copy
        g = case["cfg"]["grid"]
        for ev in case["ranks"].values():
            dev = [e for e in ev if e.get("ph") == "X" and "dur" in e and isinstance((e.get("args") or {}).get("stream"), int) and e["args"]["stream"] >= 0
                   and e.get("cat") in ("kernel", "gpu_memcpy", "gpu_memset")]
            for e in dev:
                d = copy.deepcopy(e)
                d["pid"] = (e["pid"] if isinstance(e["pid"], int) else 0) + 7
                d["ts"] = e["ts"] + g * rng.choice([1, 2, 3])
                d["args"]["device"] = d["pid"]
                if "correlation" in d["args"]:
                    d["args"]["correlation"] = d["args"]["correlation"] + 50000000
                d["args"].pop("External id", None)
                ev.append(d)
    case["params"] = {"num_kernels": rng.choice([1, 1, 2, 2, 3, 4, 5, 8, 12]),
                      "duration_ratio": rng.choice([0.01, 0.2, 0.5, 0.8, 0.8, 0.9, 0.99, 1.0]),
                      "include_memory": rng.random() < 0.5}
    return case


def wf(case) -> bool:
    return C.every_rank_has_device(case) and "params" in case


def in_domain(case, obs) -> bool:
    return all(C.dev_rows(rows) for rows in obs["rows"].values())


def observe(case):
    p = case["params"]
    ta, files = C.load_case(case)
    try:
        rows = {r: htaio.rows_of(ta.t, r) for r in ta.t.get_ranks()}
        try:
            kt, ak = ta.get_gpu_kernel_breakdown(visualize=False, duration_ratio=p["duration_ratio"],
                                                 num_kernels=p["num_kernels"],
                                                 include_memory_kernels=p["include_memory"])
            types = {str(rec.kernel_type): [C.num(rec.sum), C.num(rec.percentage)] for rec in kt.itertuples(index=False)}
            per: Dict[str, List[List[Any]]] = {}
            for rec in ak.to_dict("records"):
                key = f"{int(rec['rank'])}|{rec['kernel_type']}"
                per.setdefault(key, []).append([rec["name"], C.num(rec["sum (us)"]), C.num(rec["max (us)"]),
                                                C.num(rec["min (us)"]), C.num(rec["mean (us)"])])
            canon: Dict[str, Any] = {"types": types, "kernels": per}
        except Exception as e:  # noqa: BLE001
            canon = {"raises": C.exc_name(e)}
        return {"rows": rows, "canon": canon}
    finally:
        htaio.remove_case_dir(files)


def _kernels_of(rows, ty) -> List[List[Any]]:
    return [[x[9], x[2]] for x in C.dev_rows(rows) if py_type(x[9]) == ty]


def _j0(sums_desc: List[int], q: float) -> int:
    """First position whose cumulative sum exceeds Series.quantile(q) of the cumulative sums."""
    import pandas as pd
    cs = pd.Series(sums_desc).cumsum()
    thr = cs.quantile(q)
    for i, v in enumerate(cs):
        if v > thr:
            return i
    return len(sums_desc)


def model(drv, case, obs):
    p = case["params"]
    wm = p["include_memory"]
    tot: Dict[int, int] = {}
    for r, rows in obs["rows"].items():
        ans = drv.call({"op": "c05.types", "rows": rows, "with_memory": wm})
        for m, t in ans["times"]:
            tot[m] = tot.get(m, 0) + t
    aggr = {}
    for r, rows in obs["rows"].items():
        for ty in TYPE_ORDER[: 3 if wm else 2]:
            ks = _kernels_of(rows, ty)
            sums: Dict[str, int] = {}
            for n, d in ks:
                sums[n] = sums.get(n, 0) + d
            desc = sorted(sums.values(), reverse=True)
            j0 = _j0(desc, p["duration_ratio"]) if len(desc) > p["num_kernels"] else 0
            aggr[f"{r}|{ty}"] = {"out": drv.call({"op": "c05.aggr", "kernels": ks, "num_kernels": p["num_kernels"], "j0": j0}),
                                 "sums": sums, "desc": desc, "j0": j0, "ks": ks}
    return {"types": tot, "aggr": aggr}


def _split(rows_impl):
    named = [r for r in rows_impl if r[0] != "others"]
    others = [r for r in rows_impl if r[0] == "others"]
    return named, others


def compare(obs, mod) -> List[str]:
    c = obs["canon"]
    if "raises" in c:
        return [f"impl raises {c['raises']}"]
    out: List[str] = []
    # type table
    total = sum(mod["types"].values())
    exp = {mask_label(m): t for m, t in mod["types"].items()}
    for lab, t in exp.items():
        got = c["types"].get(lab, [0, 0.0])
        if got[0] != t:
            out.append(f"type row {lab!r}: impl sum={got[0]} model={t}")
        elif total > 0 and lab in c["types"]:
            e = 100 * (t / total)
            if got[1] == "nan" or abs(float(got[1]) - e) > 0.05 + 1e-9:
                out.append(f"type row {lab!r}: impl pct={got[1]} expected={e}")
    for lab in c["types"]:
        if lab not in exp:
            out.append(f"type row {lab!r} reported by impl is not a combination of analysed types")
    # per-kernel table: tie-insensitive
    for key, m in mod["aggr"].items():
        impl_rows = c["kernels"].get(key, [])
        named, others = _split(impl_rows)
        mo = m["out"]
        if "error" in mo:
            out.append(f"{key}: model {mo}")
            continue
        b = len(mo["named"])
        if len(named) != b:
            out.append(f"{key}: impl has {len(named)} named rows, model {b}")
            continue
        if (mo["others"] is None) != (len(others) == 0):
            out.append(f"{key}: 'others' row presence impl={len(others)} model={mo['others']}")
            continue
        sums = m["sums"]
        if b > 0:
            v = m["desc"][b - 1]
            must = {n for n, s in sums.items() if s > v}
            got_names = {r[0] for r in named}
            if not must <= got_names:
                out.append(f"{key}: names with sum above the cut missing from named rows: {sorted(must - got_names)}")
            for r in named:
                if r[0] not in sums:
                    out.append(f"{key}: unknown name {r[0]!r}")
                elif sums[r[0]] < v:
                    out.append(f"{key}: {r[0]!r} (sum {sums[r[0]]}) is named although below the cut value {v}")
        if others:
            exp_o = sum(sums.values()) - sum(sums.get(r[0], 0) for r in named)
            if others[0][1] != exp_o:
                out.append(f"{key}: others sum impl={others[0][1]} expected={exp_o}")
        # statistics of named rows (the model's own rows for those names)
        for r in named:
            ds = [d for n, d in m["ks"] if n == r[0]]
            if not ds:
                continue
            e = [sum(ds), max(ds), min(ds)]
            if [r[1], r[2], r[3]] != e:
                out.append(f"{key}: named row {r[0]!r} sum/max/min impl={r[1:4]} kernels={e}")
            mean = sum(ds) / len(ds)
            if r[4] == "nan" or abs(float(r[4]) - mean) > 1e-9 * max(1.0, abs(mean)):
                out.append(f"{key}: named row {r[0]!r} mean impl={r[4]} kernels={mean}")
    for key in c["kernels"]:
        if key not in mod["aggr"]:
            out.append(f"impl reports rows for {key}, which is not an analysed (rank, type)")
    return out


def spec_check(drv, case, obs) -> List[str]:
    c = obs["canon"]
    if "raises" in c:
        return [f"analysis raised {c['raises']}"]
    p = case["params"]
    wm = p["include_memory"]
    out: List[str] = []
    small = all(max(x[1] + x[2] for x in C.dev_rows(rows)) - min(x[1] for x in C.dev_rows(rows)) <= 20000
                for rows in obs["rows"].values())
    if small:
        tot: Dict[int, int] = {}
        for r, rows in obs["rows"].items():
            for m, t in drv.call({"op": "c05.types.exact", "rows": rows, "with_memory": wm})["times"]:
                tot[m] = tot.get(m, 0) + t
        for m, t in tot.items():
            got = c["types"].get(mask_label(m), [0])[0]
            if got != t:
                out.append(f"type row {mask_label(m)!r}: reported {got}, Spec.C05.exactTypeTime {t}")
    for r, rows in obs["rows"].items():
        for ty in TYPE_ORDER[: 3 if wm else 2]:
            key = f"{r}|{ty}"
            named, others = _split(c["kernels"].get(key, []))
            ks = _kernels_of(rows, ty)
            if any(not all(isinstance(v, int) for v in r_[1:4]) for r_ in named + others):
                out.append(f"{key}: non-integer statistics")
                continue
            o = {"named": [[r_[0], r_[1], r_[2], r_[3], sum(1 for n, _ in ks if n == r_[0])] for r_ in named],
                 "others": others[0][1] if others else None}
            ans = drv.call({"op": "c05.aggr.check", "kernels": ks, "num_kernels": p["num_kernels"], "out": o})
            if ans.get("ok") is not True:
                out.append(f"{key}: Spec.C05.checkAggr rejects the implementation's rows {named + others} for kernels {ks[:8]} (num_kernels={p['num_kernels']}) {ans if 'error' in ans else ''}")
    return out


def oracle(case, obs) -> List[str]:
    c = obs["canon"]
    if "raises" in c:
        return []
    p = case["params"]
    nt = 3 if p["include_memory"] else 2
    out: List[str] = []
    # type table by cell counting
    tot: Dict[str, int] = {}
    for r, rows in obs["rows"].items():
        dv = C.dev_rows(rows)
        sets = [C.covered_cells((x[1], x[1] + x[2]) for x in dv if py_type(x[9]) == TYPE_ORDER[i]) for i in range(nt)]
        allc = set().union(*sets)
        for t in allc:
            m = sum(1 << i for i in range(nt) if t in sets[i])
            tot[mask_label(m)] = tot.get(mask_label(m), 0) + 1
    for lab in set(tot) | set(c["types"]):
        if c["types"].get(lab, [0])[0] != tot.get(lab, 0):
            out.append(f"type row {lab!r}: reported {c['types'].get(lab, [0])[0]}, exact {tot.get(lab, 0)}")
    total = sum(tot.values())
    if total > 0:
        psum = sum(float(v[1]) for v in c["types"].values() if v[1] != "nan")
        if abs(psum - 100.0) > 0.05 * max(1, len(c["types"])) + 1e-9:
            out.append(f"type percentages add up to {psum}")
    # per-kernel table
    for r, rows in obs["rows"].items():
        for ty in TYPE_ORDER[:nt]:
            key = f"{r}|{ty}"
            impl_rows = c["kernels"].get(key, [])
            ks = _kernels_of(rows, ty)
            if sum(x[1] for x in impl_rows) != sum(d for _, d in ks):
                out.append(f"{key}: reported sums add up to {sum(x[1] for x in impl_rows)}, kernels total {sum(d for _, d in ks)}")
            named = [x for x in impl_rows if x[0] != "others"]
            if len(named) > p["num_kernels"]:
                out.append(f"{key}: {len(named)} named rows > num_kernels={p['num_kernels']}")
            for x in named:
                ds = [d for n, d in ks if n == x[0]]
                if not ds or [x[1], x[2], x[3]] != [sum(ds), max(ds), min(ds)] or abs(float(x[4]) - sum(ds) / len(ds)) > 1e-6:
                    out.append(f"{key}: named row {x} but kernels of that name have durations {ds}")
    return out


def features(case, obs):
    f = G.features(case)
    c = obs["canon"]
    if "raises" not in c:
        f["bucketing"] = int(any(any(x[0] == "others" for x in v) for v in c["kernels"].values()))
        f["overlap_rows"] = int(any(" overlapping " in k and v[0] > 0 for k, v in c["types"].items()))
        f["with_memory"] = int(case["params"]["include_memory"])
    return f


def nontrivial(case, obs, f) -> bool:
    return G.nontrivial(f) and f["dev_events"] >= 2


def sample(case, obs):
    return {"params": case["params"], "impl": obs["canon"] if "raises" in obs["canon"] else
            {"types": obs["canon"]["types"], "kernels_first": dict(list(obs["canon"]["kernels"].items())[:1])}}


def corpus_cases():
    return C.corpus_for("C05")
