"""C03 — call stack: parent is the innermost enclosing event on the thread."""
from __future__ import annotations

import itertools
from typing import Any, Dict, List, Tuple

from harness import gen as G
from harness import htaio
from harness.props import common as C

N_CASES = {"quick": 300, "thorough": 2400}
SHRINK = True
ASSUMPTIONS = [
    "events of one host thread are properly nested (any two positive-duration events are disjoint or one contains the other); durations are non-negative; event ids are unique",
    "Python's sorted() with a consistent comparator returns the list sorted by that order (the comparators are proved equal to a lexicographic key order; this equality is also tested exhaustively on a small token world in every run)",
    "both builders are driven at unit level on a frame with the columns they read, and the newer one additionally through CallGraph(trace) on generated trace files",
]


def _nested_family(rng, g: int, zero_rate: float) -> List[List[int]]:
    """Random properly nested spans [ts, dur] with many shared endpoints; zero-length events anywhere."""
    out: List[List[int]] = []

    def rec(lo: int, hi: int, depth: int):
        t = lo
        while t <= hi and len(out) < 40:
            r = rng.random()
            if r < zero_rate:
                out.append([t, 0])
                if rng.random() < 0.5:
                    continue
            if t >= hi or rng.random() < 0.25:
                break
            t += g * rng.choice([0, 0, 0, 1])
            if t >= hi:
                break
            end = min(hi, t + g * rng.choice([1, 1, 2, 3, 5, 8]))
            if rng.random() < 0.35:
                end = hi
            out.append([t, end - t])
            if depth < 4 and end - t >= g and rng.random() < 0.7:
                rec(t, end, depth + 1)
            if rng.random() < 0.2:      # identical span
                out.append([t, end - t])
            t = end + g * rng.choice([0, 0, 0, 1, 2])

    rec(0, g * rng.choice([4, 8, 16, 30]), 0)
    return out


def gen(rng, tier, no, wide=False):
    g = rng.choice([1, 1, 2, 5])
    spans = _nested_family(rng, g, rng.choice([0.0, 0.1, 0.25, 0.4]))
    if not spans:
        spans = [[0, 1]]
    ids = list(range(1, len(spans) + 1))
    if rng.random() < 0.7:
        rng.shuffle(ids)
    off = rng.choice([0, 5, 1000])
    if rng.random() < 0.06:
        ids = [i + 33000 for i in ids]       # event ids beyond the range of a 16-bit integer
    events = [[i, s[0] + off, s[1]] for i, s in zip(ids, spans)]
    rng.shuffle(events)      # row order of the frame
    case = {"cfg": {"grid": g}, "ranks": {}, "events": events, "params": {"via_trace": rng.random() < 0.3, "tid": rng.choice([1, 1, 2, 3, 7, 100, 31234, 40961, 3727853]), "two_ranks": rng.random() < 0.5, "frac": rng.random() < 0.15}}
    return case


def _nested_ok(events) -> bool:
    pos = [e for e in events if e[2] > 0]
    for a, b in itertools.combinations(pos, 2):
        a0, a1, b0, b1 = a[1], a[1] + a[2], b[1], b[1] + b[2]
        if not (a1 <= b0 or b1 <= a0 or (a0 <= b0 and b1 <= a1) or (b0 <= a0 and a1 <= b1)):
            return False
    return True


def wf(case) -> bool:
    ev = case.get("events") or []
    return len(ev) > 0 and len({e[0] for e in ev}) == len(ev) and all(e[2] >= 0 and e[0] > 0 for e in ev) and _nested_ok(ev)


def _frame(events, tid=1):
    import pandas as pd
    df = pd.DataFrame({"index": [e[0] for e in events], "ts": [e[1] for e in events], "dur": [e[2] for e in events],
                       "stream": -1, "index_correlation": -1, "pid": 1, "tid": tid, "name": 0, "cat": 0})
    return df.set_index("index", drop=False)


def _canon_nodes(nodes, root_ids) -> List[List[int]]:
    out = []
    for i, n in nodes.items():
        if i < 0:
            continue
        p = n.parent
        out.append([int(i), -1 if p < 0 else int(p), int(n.depth)])
    return sorted(out)


def _tokens(events):
    return [[e[0], e[2], -1, e[1]] for e in events] + [[e[0], e[2], 1, e[1] + e[2]] for e in events]


def observe(case):
    htaio.hta_setup()
    import pandas as pd
    from hta.common import call_stack as OLD
    from hta.common import trace_call_stack as NEW
    from hta.common.trace_symbol_table import TraceSymbolTable
    ev = case["events"]
    tid = case["params"].get("tid", 1)
    canon: Dict[str, Any] = {}
    try:
        df = _frame(ev, tid)
        old = OLD.CallStackGraph(df, OLD.CallStackIdentity(0, 1, tid))
        canon["old"] = _canon_nodes(old.get_nodes(), None)
    except Exception as e:  # noqa: BLE001
        canon["old"] = "raises " + C.exc_name(e) + ": " + str(e)[:80]
    try:
        df = _frame(ev, tid)
        st = TraceSymbolTable()
        st.add_symbols(["x"])
        new = NEW.CallStackGraph(df, NEW.CallStackIdentity(0, 1, tid), pd.DataFrame(columns=["cpu_index", "gpu_index"]), df, st)
        canon["new"] = _canon_nodes(new.get_nodes(), None)
    except Exception as e:  # noqa: BLE001
        canon["new"] = "raises " + C.exc_name(e) + ": " + str(e)[:80]
    if case["params"].get("frac"):
        # the same family at one eighth of the time scale (fractional microseconds, as with HTA_DISABLE_NS_ROUNDING=1):
        # nesting does not depend on the unit, so parents and depths must be the same
        try:
            df = _frame(ev, tid)
            df["ts"] = df["ts"] / 8.0
            df["dur"] = df["dur"] / 8.0
            st = TraceSymbolTable()
            st.add_symbols(["x"])
            newf = NEW.CallStackGraph(df, NEW.CallStackIdentity(0, 1, tid), pd.DataFrame(columns=["cpu_index", "gpu_index"]), df, st)
            canon["new_frac"] = _canon_nodes(newf.get_nodes(), None)
        except Exception as e:  # noqa: BLE001
            canon["new_frac"] = "raises " + C.exc_name(e) + ": " + str(e)[:80]
    # comparators on all token pairs of a sample of the family
    toks = _tokens(ev[:6])
    po = sorted({e[1] for e in ev if e[2] > 0})
    import numpy as np
    pairs, res = [], []
    for x, y in itertools.permutations(toks, 2):
        pairs.append([x, y])
        try:
            lt = bool(NEW._less_than(np.array(x), np.array(y), set(po))) if NEW._less_than.__code__.co_argcount >= 3 else bool(NEW._less_than(np.array(x), np.array(y)))
        except ValueError:
            lt = None
        ex = OLD.Event(x[0], x[3], x[1], 1 if x[2] == -1 else -1)
        ey = OLD.Event(y[0], y[3], y[1], 1 if y[2] == -1 else -1)
        c = OLD.compare_events(ex, ey, set(po)) if OLD.compare_events.__code__.co_argcount >= 3 else OLD.compare_events(ex, ey)
        res.append([lt, (c > 0) - (c < 0)])
    canon["cmp"] = res
    out = {"canon": canon, "pairs": pairs, "po": po}
    if case["params"]["via_trace"]:
        # the same family as the host thread of a one-rank trace, through the public CallGraph
        tev = [{"ph": "X", "cat": "cpu_op", "name": "aten::op", "pid": 1, "tid": 1, "ts": 0, "dur": 0}] * 0
        srt = sorted(ev, key=lambda e: e[0])
        maxid = max(e[0] for e in ev)
        by_id = {e[0]: e for e in ev}
        rows = []
        for i in range(maxid + 1):
            if i in by_id:
                rows.append({"ph": "X", "cat": "cpu_op", "name": "aten::op", "pid": 1, "tid": tid, "ts": by_id[i][1], "dur": by_id[i][2],
                             "args": {"External id": i}})
            else:
                rows.append({"ph": "M", "name": "filler", "pid": 1, "tid": 1, "ts": 0, "args": {}})
        # a second rank with another call tree: one CallGraph over both ranks, this family read back for rank 0 both
        # from the frame columns and from the node objects (get_nodes of the rank's call stack)
        other = [{"ph": "X", "cat": "cpu_op", "name": "aten::other", "pid": 1, "tid": tid, "ts": 0, "dur": 50},
                 {"ph": "X", "cat": "cpu_op", "name": "aten::other", "pid": 1, "tid": tid, "ts": 5, "dur": 10},
                 {"ph": "X", "cat": "cpu_op", "name": "aten::other", "pid": 1, "tid": tid, "ts": 6, "dur": 2},
                 {"ph": "X", "cat": "cpu_op", "name": "aten::other", "pid": 1, "tid": tid, "ts": 20, "dur": 30}]
        two = case["params"].get("two_ranks", False)
        files = htaio.write_case({"ranks": {0: rows, 1: other} if two else {0: rows}})
        try:
            ta = htaio.load(files)
            from hta.common.trace_call_graph import CallGraph
            cg = CallGraph(ta.t, ranks=[0, 1] if two else [0])
            d = cg.trace_data.get_trace(0)
            canon["callgraph"] = sorted([int(i), -1 if int(p) < 0 else int(p), int(dp)] for i, p, dp in zip(d["index"], d["parent"], d["depth"]))
            nodes = []
            for csg in cg.get_call_stacks(rank=0):
                for i, n in csg.get_nodes().items():
                    if i >= 0:
                        nodes.append([int(i), -1 if n.parent < 0 else int(n.parent), int(n.depth)])
            canon["callgraph_nodes"] = sorted(nodes)
        except Exception as e:  # noqa: BLE001
            canon["callgraph"] = "raises " + C.exc_name(e) + ": " + str(e)[:80]
        finally:
            htaio.remove_case_dir(files)
    return out


def model(drv, case, obs):
    m = {"entries": sorted(drv.call({"op": "c03.run", "events": case["events"]})["entries"])}
    m["cmp"] = drv.call({"op": "c03.cmp", "pairs": obs["pairs"], "po": obs["po"]})["results"]
    return m


def compare(obs, mod) -> List[str]:
    c = obs["canon"]
    out = []
    for k in ("old", "new", "callgraph", "callgraph_nodes"):
        if k in c and c[k] != mod["entries"]:
            if isinstance(c[k], str):
                out.append(f"{k} builder {c[k]}")
            else:
                d = [(a, b) for a, b in zip(c[k], mod["entries"]) if a != b][:4]
                out.append(f"{k} builder (id,parent,depth) vs model: {d} ({len(c[k])} vs {len(mod['entries'])} nodes)")
    for (p, (lt, co), (mlt, mco, mkey)) in zip(obs["pairs"], c["cmp"], mod["cmp"]):
        if lt != mlt or co != mco:
            out.append(f"comparators on {p}: impl new={lt} old={co}; model new={mlt} old={mco}")
            break
        if mlt is not None and (mlt != mkey or (mco < 0) != mkey):
            out.append(f"model comparators disagree with the key order on {p}: new={mlt} old={mco} key={mkey}")
            break
    return out


def _spec_violations(events, nodes, tag) -> List[str]:
    if isinstance(nodes, str):
        return [f"{tag} builder {nodes}"]
    out = []
    by = {e[0]: e for e in events}
    got = {n[0]: n for n in nodes}
    if sorted(got) != sorted(by) or len(nodes) != len(events):
        return [f"{tag}: events {sorted(set(by) ^ set(got))[:5]} do not appear exactly once"]

    def encl(a, b):  # a encloses positive b
        if a[0] == b[0] or a[2] <= 0:
            return False
        if not (a[1] <= b[1] and b[1] + b[2] <= a[1] + a[2]):
            return False
        return not (a[1] == b[1] and a[2] == b[2]) or a[0] < b[0]
    for b in events:
        p = got[b[0]][1]
        if b[2] > 0:
            es = [a for a in events if encl(a, b)]
            inner = [a for a in es if all(c is a or encl(c, a) for c in es)]
            exp = inner[0][0] if inner else -1
            if p != exp:
                out.append(f"{tag}: positive event {b} has parent {p}, innermost encloser is {exp}")
            if got[b[0]][2] != len(es):
                out.append(f"{tag}: positive event {b} has depth {got[b[0]][2]}, it has {len(es)} enclosing events")
        else:
            if p != -1:
                a = by[p]
                if not (a[1] <= b[1] <= a[1] + a[2]):
                    out.append(f"{tag}: zero-duration event {b} placed beneath {a}, whose closed span does not contain its instant")
        # depth = number of ancestors
        k, cur, seen = 0, p, set()
        while cur != -1 and cur not in seen:
            seen.add(cur)
            k += 1
            cur = got[cur][1]
        if got[b[0]][2] != k:
            out.append(f"{tag}: event {b} depth {got[b[0]][2]} but {k} ancestors")
    return out[:6]


def oracle(case, obs) -> List[str]:
    c = obs["canon"]
    out = []
    for k in ("old", "new", "callgraph", "callgraph_nodes"):
        if k in c:
            out += _spec_violations(case["events"], c[k], k)
    if "new_frac" in c and not isinstance(c.get("new"), str) and c["new_frac"] != c["new"]:
        d = c["new_frac"] if isinstance(c["new_frac"], str) else [(a, b) for a, b in zip(c["new_frac"], c["new"]) if a != b][:4]
        out.append(f"new builder at one eighth of the time scale (fractional times): [id, parent, depth] fractional vs integer {d}")
    return out


def features(case, obs):
    ev = case["events"]
    pos = [e for e in ev if e[2] > 0]
    f = {"n": len(ev), "zero": sum(1 for e in ev if e[2] == 0),
         "identical": len(pos) - len({(e[1], e[2]) for e in pos}),
         "shared_start": len(pos) - len({e[1] for e in pos}), "shared_end": len(pos) - len({e[1] + e[2] for e in pos}),
         "touching": sum(1 for a in pos for b in pos if a[1] + a[2] == b[1]),
         "zero_at_touch": sum(1 for z in ev if z[2] == 0 and any(a[1] + a[2] == z[1] for a in pos) and any(b[1] == z[1] for b in pos)),
         "via_trace": int(case["params"]["via_trace"])}
    return f


def nontrivial(case, obs, f) -> bool:
    return f["n"] >= 3 and (f["zero"] + f["identical"] + f["shared_start"] + f["shared_end"] + f["touching"]) > 0


def sample(case, obs):
    return {"events_id_ts_dur": case["events"][:12], "old": obs["canon"].get("old") if isinstance(obs["canon"].get("old"), str) else obs["canon"].get("old", [])[:12]}


def corpus_cases():
    out = []
    for c in C.corpus_for("C03"):
        out.append(c)
    return out
