"""C12 — iteration numbers follow profiler steps; loading trims only the trailing step."""
from __future__ import annotations

import os
import re
from typing import Any, Dict, List

from harness import gen as G
from harness import htaio
from harness.props import common as C
from harness.props.c02 import wf as wf_c02, _dev

N_CASES = {"quick": 220, "thorough": 2000}
SHRINK = True
ASSUMPTIONS = [
    "well-formed trace (nested host events, correlation pairs unique, positive device streams, event 0 a host operator); every rank carries the same ProfilerStep names (the code counts steps in the global symbol table)",
    "the parse-only frame is the model's input for the iteration numbers; the uniformly shifted parse-only frame (C01) is the input for the trimming",
    "Trace.get_iterations / get_profiler_steps are compared with the distinct non-negative iteration values of the kept rows",
]
STEP_RE = re.compile(r"ProfilerStep\s*#\s*(\d+)")


def gen(rng, tier, no, wide=False):
    force = {"nsteps": rng.choice([0, 1, 2, 2, 3, 3, 4])}
    case = G.gen_case(rng, **force)
    g = case["cfg"]["grid"]
    # boundary events: a host op starting exactly at a step boundary / at the last step's end
    for r, ev in case["ranks"].items():
        steps = sorted((e["ts"], e["ts"] + e["dur"]) for e in ev if str(e.get("name", "")).startswith("ProfilerStep"))
        if steps and rng.random() < 0.5:
            last = steps[-1]
            for t in {last[0], last[1], steps[0][0]}:
                if rng.random() < 0.6:
                    ev.insert(rng.randint(1, len(ev)), {"ph": "X", "cat": "cpu_op", "name": "aten::boundary", "pid": 1000 + r,
                                                         "tid": 300 + r, "ts": t, "dur": rng.choice([0, g])})
        # a device-side synchronisation record that carries no correlation id (stream -1, device side by its name): it
        # is launched by nothing, so trimming drops it; it must never be multiplied by the correlation join
        if rng.random() < 0.2:
            xs = [e for e in ev if e.get("ph") == "X" and e.get("cat") == "cpu_op"]
            if xs:
                h = rng.choice(xs)
                ev.insert(rng.randint(1, len(ev)), {"ph": "X", "cat": "cuda_sync", "name": rng.choice(["Context Sync", "Event Sync"]), "pid": r, "tid": 0,
                                                     "ts": h["ts"], "dur": h["dur"], "args": {"device": r}})
    case["params"] = {"include_last": rng.random() < 0.5}
    return case


def wf(case) -> bool:
    if "params" not in case or not wf_c02(case):
        return False
    names = [frozenset(e["name"] for e in ev if "ProfilerStep" in str(e.get("name", ""))) for ev in case["ranks"].values()]
    return len(set(names)) <= 1


def _frame(t, r):
    return htaio.rows_of(t, r)


def observe(case):
    files = htaio.write_case(case)
    try:
        htaio.hta_setup()
        from hta.common.trace import Trace
        canon: Dict[str, Any] = {}
        t = Trace(trace_files=dict(files), trace_dir=os.path.dirname(next(iter(files.values()))))
        t.parse_traces(use_multiprocessing=False)
        parsed = {r: _frame(t, r) for r in t.get_ranks()}
        canon["iteration"] = {r: sorted([x[0], x[8]] for x in rows) for r, rows in parsed.items()}
        try:
            ta = htaio.load(files, include_last=case["params"]["include_last"], ctor=case.get("ctor"))
            C.disturb(ta, case.get("pre"))
            canon["kept"] = {r: sorted(x[0] for x in _frame(ta.t, r)) for r in ta.t.get_ranks()}
            canon["n_rows"] = {r: len(ta.t.get_trace(r)) for r in ta.t.get_ranks()}
            canon["iterations"] = {r: [int(i) for i in ta.t.get_iterations(r)] for r in ta.t.get_ranks()}
            canon["kept_iter"] = {r: sorted({x[8] for x in _frame(ta.t, r) if x[8] >= 0}) for r in ta.t.get_ranks()}
            canon["profiler_steps"] = [int(x) for x in ta.get_profiler_steps()]
        except Exception as e:  # noqa: BLE001
            canon["raises"] = C.exc_name(e) + ": " + str(e)[:100]
        return {"rows": parsed, "canon": canon}
    finally:
        htaio.remove_case_dir(files)


def _aligned(obs):
    allts = [x[1] for rows in obs["rows"].values() for x in rows]
    m = min(allts) if allts else 0
    return [[[x[0], x[1] - m] + x[2:] for x in obs["rows"][r]] for r in sorted(obs["rows"])]


def model(drv, case, obs):
    it = {}
    for r, rows in obs["rows"].items():
        a = drv.call({"op": "c12.iter", "rows": rows})
        it[r] = "raises" if "raises" in a else sorted(a["iters"])
    ld = drv.call({"op": "c12.load", "ranks": _aligned(obs), "include_last": case["params"]["include_last"]})
    return {"iteration": it, "kept": {r: sorted(ld["kept"][i]) for i, r in enumerate(sorted(obs["rows"]))},
            "kept_raw": {r: ld["kept"][i] for i, r in enumerate(sorted(obs["rows"]))}, "n": ld["n_step_symbols"]}


def compare(obs, mod) -> List[str]:
    c = obs["canon"]
    out = []
    if "raises" in c:
        return [f"impl raises {c['raises']}"]
    for r, m in mod["iteration"].items():
        if c["iteration"].get(r) != m:
            d = [(a, b) for a, b in zip(c["iteration"].get(r, []), m if m != "raises" else []) if a != b][:5]
            out.append(f"rank {r}: (idx, iteration) impl vs model {d if d else m}")
    for r, m in mod["kept"].items():
        if c["kept"].get(r) != m:
            a = set(c["kept"].get(r, []))
            out.append(f"rank {r}: kept ids impl-only {sorted(a - set(m))[:6]} model-only {sorted(set(m) - a)[:6]}")
        if c["n_rows"].get(r) != len(mod["kept_raw"][r]):
            out.append(f"rank {r}: {c['n_rows'].get(r)} loaded rows vs {len(mod['kept_raw'][r])} in the model (duplicates?)")
    return out


def oracle(case, obs) -> List[str]:
    c = obs["canon"]
    if "raises" in c:
        return [f"loading raised {c['raises']}"]
    out = []
    il = case["params"]["include_last"]
    nsym = len({e["name"] for ev in case["ranks"].values() for e in ev if "dur" in e and e.get("cat") not in (None, "Trace") and "ProfilerStep" in str(e.get("name", ""))})
    allts = [x[1] for rows in obs["rows"].values() for x in rows]
    m0 = min(allts) if allts else 0
    for r, rows in obs["rows"].items():
        by_idx = {x[0]: x for x in rows}
        steps = [(x[1], x[1] + x[2], int(STEP_RE.match(x[9]).group(1))) for x in rows if x[9].startswith("ProfilerStep") and STEP_RE.match(x[9])]
        disjoint = all(a[1] <= b[0] or b[1] <= a[0] for i, a in enumerate(steps) for b in steps[i + 1:])
        got = dict(map(tuple, c["iteration"][r]))
        for x in rows:
            if x[5] < 0:
                cont = [s for s in steps if s[0] <= x[1] < s[1]]
                if disjoint and got[x[0]] != (cont[0][2] if cont else -1):
                    out.append(f"rank {r} host event {x[0]} ts={x[1]}: iteration {got[x[0]]}, containing step {cont}")
            elif x[5] > 0:
                # the launching host call, found by the correlation id itself (0 is an id like any other; -1 is "none"),
                # not through the implementation's link column
                hs = [y for y in rows if y[5] == -1 and y[6] == x[6] and x[6] >= 0 and y[9] not in ("Event Sync", "Context Sync")]
                h = hs[0] if len(hs) == 1 else (by_idx.get(x[7]) if x[7] > 0 else None)
                exp = got[h[0]] if h is not None else -1
                if got[x[0]] != exp:
                    out.append(f"rank {r} device event {x[0]}: iteration {got[x[0]]}, its launch call {x[7]} has {exp}")
        # trimming
        kept = set(c["kept"][r])
        if nsym < 2:
            if kept != set(by_idx):
                out.append(f"rank {r}: fewer than two profiler steps but events {sorted(set(by_idx) - kept)[:6]} were dropped")
            continue
        host = [x for x in rows if not _dev(x)]
        st = [x for x in host if "ProfilerStep" in x[9]]
        if not st:
            continue
        last_start = max(x[1] for x in st)
        last_end = max(x[1] + x[2] for x in st)
        kh = {x[0] for x in host if (x[1] <= last_end if il else x[1] < last_start)}
        kcorr = {by_idx[i][6] for i in kh} - {-1}       # "launched by": a correlation id, never the absence of one
        kd = {x[0] for x in rows if _dev(x) and x[6] in kcorr}
        if len(c["kept"][r]) != len(kept):
            out.append(f"rank {r}: the loaded frame holds an event more than once ({len(c['kept'][r])} rows for {len(kept)} events)")
        if kept != kh | kd:
            out.append(f"rank {r}: kept ids differ from the rule: unexpected {sorted(kept - (kh | kd))[:6]} missing {sorted((kh | kd) - kept)[:6]} (include_last={il}, last step [{last_start - m0},{last_end - m0}])")
        if c["n_rows"][r] != len(kept):
            out.append(f"rank {r}: {c['n_rows'][r]} rows for {len(kept)} distinct ids")
        if c["iterations"][r] != c["kept_iter"][r]:
            out.append(f"rank {r}: get_iterations {c['iterations'][r]} vs kept rows' iterations {c['kept_iter'][r]}")
    return out[:12]


def features(case, obs):
    f = G.features(case)
    c = obs["canon"]
    f["include_last"] = int(case["params"]["include_last"])
    if "raises" not in c:
        f["dropped"] = sum(len(obs["rows"][r]) - len(c["kept"][r]) for r in obs["rows"])
        f["iters_assigned"] = sum(1 for v in c["iteration"].values() for x in v if x[1] >= 0)
        f["boundary_events"] = sum(1 for rows in obs["rows"].values() for x in rows if x[9] == "aten::boundary")
    return f


def nontrivial(case, obs, f) -> bool:
    return f.get("iters_assigned", 0) >= 1


def sample(case, obs):
    r0 = sorted(obs["rows"])[0]
    c = obs["canon"]
    return {"params": case["params"], "steps": [[x[9], x[1], x[1] + x[2]] for x in obs["rows"][r0] if "ProfilerStep" in x[9]],
            "n_events": len(obs["rows"][r0]), "kept": len(c.get("kept", {}).get(r0, [])), "iterations": c.get("iterations")}


def corpus_cases():
    return C.corpus_for("C12")
