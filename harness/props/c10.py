"""C10 — critical-path breakdown conserves the path weight and attributes it correctly."""
from __future__ import annotations

import re
import os
from typing import Any, Dict, List

from harness import gen as G
from harness import htaio
from harness.props import common as C
from harness.props import cpcommon as CP

N_CASES = {"quick": 200, "thorough": 1800}
SHRINK = True
ASSUMPTIONS = [
    "successful critical-path analyses of causally consistent well-formed traces (C08); the reported path is the implementation's (C09 decides its optimality)",
    "summary percentages are compared with 100*class/total within 1e-6",
]
_COMM = re.compile(r"^nccl.*Kernel")


def gen(rng, tier, no, wide=False):
    # an operator that follows a sibling inside an annotation (which has no graph nodes) is what separates the tracked
    # parent from the entered event's parent in the end->start attribution case: annotations often, in a third of the cases
    case = CP.gen_cp_case(rng, **({"annotation_rate": 0.35} if rng.random() < 0.35 else {}))
    # sub-microsecond stream: HTA_DISABLE_NS_ROUNDING=1 with dyadic fractional times (multiples of 1/8 us). The graph
    # model is integer-time, so only the conservation clause (rows = critical edges, durations add up to the path's
    # weight) is decided there, directly on the implementation's numbers
    case["params"]["frac"] = rng.random() < 0.12
    case["params"]["overlay_first"] = rng.random() < 0.3
    return case


def wf(case) -> bool:
    return CP.wf_cp(case)


def _observe_frac(case):
    import copy
    c2 = copy.deepcopy(case)
    for ev in c2["ranks"].values():
        for e in ev:
            if "ts" in e:
                e["ts"] = e["ts"] / 8.0
            if "dur" in e:
                e["dur"] = e["dur"] / 8.0
    os.environ["HTA_DISABLE_NS_ROUNDING"] = "1"
    try:
        ta, files, g, ok = CP.run_cp(c2)
    except Exception as e:  # noqa: BLE001  (the integer-only helpers of the harness)
        return {"rows": [], "waits": [], "canon": {"ok": "frac: " + C.exc_name(e)}}
    finally:
        os.environ.pop("HTA_DISABLE_NS_ROUNDING", None)
    try:
        canon: Dict[str, Any] = {"ok": ok, "frac": None}
        if g is not None and ok is True:
            crit = list(zip(g.critical_path_nodes, g.critical_path_nodes[1:]))
            tolerated = any(g.edges[u, v]["object"].weight != g.edges[u, v]["weight"] for u, v in crit)
            try:
                bd = g.get_critical_path_breakdown()
                canon["frac"] = {"n_rows": int(len(bd)), "n_crit": len(crit), "sum_rows_x8": float(bd["duration"].sum()) * 8,
                                 "path_weight_x8": float(sum(g.edges[u, v]["weight"] for u, v in crit)) * 8, "tolerated_negative": bool(tolerated)}
            except Exception as e:  # noqa: BLE001
                canon["frac"] = {"raises": C.exc_name(e) + ": " + str(e)[:100]}
        return {"rows": [], "waits": [], "canon": canon}
    finally:
        htaio.remove_case_dir(files)


def observe(case):
    if case["params"].get("frac"):
        return _observe_frac(case)
    ta, files, g, ok = CP.run_cp(case)
    try:
        rows = htaio.rows_of(ta.t, case["params"]["rank"])
        waits = htaio.waits_of(ta.t, case["params"]["rank"])
        canon: Dict[str, Any] = {"ok": ok}
        import contextlib
        import io
        if g is not None and ok is True:
            d = CP.dump_graph(g)
            canon["edges"] = d["edges"]
            canon["nodes"] = d["nodes"]
            canon["path"] = [int(n) for n in g.critical_path_nodes]
            canon["crit_edges"] = sorted([int(e.begin), int(e.end)] for e in g.critical_path_edges_set)
            try:
                from hta.utils.utils import shorten_name
                if case["params"].get("overlay_first"):
                    # history at the level of the graph object: the overlay file is written first (both edge
                    # selections), the breakdown is asked for afterwards
                    odir = os.path.join(os.path.dirname(files[case["params"]["rank"]]), "overlay_first")
                    for oc, sa in ((False, False), (True, False)):
                        with contextlib.suppress(Exception), contextlib.redirect_stdout(io.StringIO()):
                            ta.overlay_critical_path_analysis(case["params"]["rank"], g, odir, only_show_critical_events=oc, show_all_edges=sa)
                bd = g.get_critical_path_breakdown()
                canon["breakdown"] = sorted([[None if C.isnan(r["event_idx"]) else int(r["event_idx"]), C.num(r["duration"]), CP.ETYPES[r["type"]],
                                              str(r["bound_by"]), None if C.isnan(r["stream"]) else int(r["stream"])] for r in bd.to_dict("records")], key=str)
                with contextlib.redirect_stdout(io.StringIO()):
                    sm = g.summary()
                canon["summary"] = {str(k): float(v) for k, v in sm.items()}
                canon["attr_all"] = sorted([[int(e.begin), int(e.end), g.get_event_attribution_for_edge(e)] for e in
                                            (g.edges[u, v]["object"] for u, v in g.edges)], key=str)
                canon["short"] = {x[9]: shorten_name(x[9]) for x in rows}
            except Exception as e:  # noqa: BLE001
                import traceback
                canon["breakdown_raises"] = C.exc_name(e) + ": " + str(e)[:100] + " @ " + traceback.format_exc().splitlines()[-3].strip()[:80]
        return {"rows": rows, "waits": waits, "canon": canon}
    finally:
        htaio.remove_case_dir(files)


def in_domain(case, obs) -> bool:
    return obs["canon"]["ok"] is True


def model(drv, case, obs):
    from harness.props.c08 import _inst
    c = obs["canon"]
    if "path" not in c:
        return {}
    p = case["params"]
    a, b = _inst(p)
    nid = {n[3]: n for n in c["nodes"]}
    crit = [[nid[u][0], nid[u][1], nid[v][0], nid[v][1]] for u, v in zip(c["path"], c["path"][1:])]
    return drv.call({"op": "c10", "rows": obs["rows"], "annotation": p["annotation"], "i_start": a, "i_end": b,
                     "zero_launch": p["zero_weight_launch"], "waits": obs.get("waits", []), "crit": crit})


def compare(obs, mod) -> List[str]:
    c = obs["canon"]
    if not mod or "breakdown" not in c:
        return [f"impl breakdown: {c.get('breakdown_raises')}"] if "breakdown_raises" in c else []
    if "error" in mod or mod.get("raises"):
        return [f"model {mod}"]
    out = []
    a = sorted([r[:4] for r in c["breakdown"]], key=str)
    b = sorted(mod["rows"], key=str)
    if a != b:
        out.append(f"breakdown rows [event,duration,type,bound_by] impl-only {[x for x in a if x not in b][:3]} model-only {[x for x in b if x not in a][:3]}")
    if mod["total"] != 0:
        exp = {k: 100.0 * v / mod["total"] for k, v in mod["classes"]}
        if set(exp) != set(c["summary"]) or any(abs(exp[k] - c["summary"][k]) > 1e-6 for k in exp):
            out.append(f"summary impl={c['summary']} model={exp}")
    return out


def oracle(case, obs) -> List[str]:
    c = obs["canon"]
    if case["params"].get("frac"):
        f = c.get("frac")
        if not f or "raises" in f or f["tolerated_negative"]:
            return []          # no breakdown, or negative weights the tool tolerates and zeroes: outside what is decided here
        out = []
        if f["n_rows"] != f["n_crit"]:
            out.append(f"sub-microsecond trace: {f['n_rows']} breakdown rows for {f['n_crit']} critical edges")
        if abs(f["sum_rows_x8"] - f["path_weight_x8"]) > 1e-6:
            out.append(f"sub-microsecond trace: breakdown durations add up to {f['sum_rows_x8'] / 8}, the path weighs {f['path_weight_x8'] / 8}")
        return out
    if "breakdown_raises" in c:
        return [f"breakdown raised {c['breakdown_raises']}"]
    out: List[str] = []
    by = {x[0]: x for x in obs["rows"]}
    nid = {n[3]: n for n in c["nodes"]}      # node id -> [ev, is_start, ts, id]
    emap = {(e[8], e[9]): e for e in c["edges"]}
    crit = [emap[(a, b)] for a, b in zip(c["path"], c["path"][1:])]
    bd = c["breakdown"]
    if len(bd) != len(crit):
        out.append(f"{len(bd)} breakdown rows for {len(crit)} critical edges")
    exp_rows = sorted([[e[6], e[4], e[5]] for e in crit], key=str)
    if sorted([r[:3] for r in bd], key=str) != exp_rows:
        out.append("breakdown rows (event, duration, type) are not those of the critical edges")
    pw = sum(e[7] for e in crit)
    if sum(r[1] for r in bd) != pw:
        out.append(f"breakdown durations add up to {sum(r[1] for r in bd)}, path weight is {pw}")
    for e in c["edges"]:
        se, ss, de, ds, w, ty, attr = e[:7]
        a, b = nid[e[8]][2], nid[e[9]][2]
        if ty == "op":
            x = by.get(attr)
            if attr is None or x is None:
                out.append(f"span edge {e[:6]} is attributed to {attr}, which is not an event of the trace")
                continue
            src = by[se]
            same = (x[3], x[4]) == (src[3], src[4]) if src[5] == -1 else x[5] == src[5]
            if not same or not (x[1] <= a and b <= x[1] + x[2]):
                out.append(f"span edge {e[:6]} [{a},{b}] attributed to event {attr} [{x[1]},{x[1] + x[2]}] (same thread/stream: {same})")
        elif ty == "kk":
            if attr != se:
                out.append(f"kernel-kernel edge {e[:6]} attributed to {attr}, the preceding kernel is {se}")
        elif attr is not None:
            out.append(f"{ty} edge {e[:6]} carries an attribution {attr}")
    for r in bd:
        ev, dur, ty, bb, stream = r
        if ty == "kk":
            exp = "gpu_kernel_kernel_overhead"
        elif ty == "launch":
            exp = "gpu_kernel_launch_overhead"
        elif ty in ("dep", "sync"):
            exp = ""
        else:
            x = by.get(ev)
            exp = None if x is None else ("cpu_bound" if x[5] < 0 else ("gpu_communication_bound" if _COMM.match(c["short"][x[9]]) else "gpu_compute_bound"))
        if exp is not None and bb != exp:
            out.append(f"breakdown row {r}: bound_by {bb!r}, expected {exp!r}")
    tot = sum(r[1] for r in bd)
    if tot > 0:
        cls: Dict[str, int] = {}
        for r in bd:
            cls[r[3]] = cls.get(r[3], 0) + r[1]
        for k, v in cls.items():
            if abs(c["summary"].get(k, 0.0) - 100.0 * v / tot) > 1e-6:
                out.append(f"summary[{k!r}] = {c['summary'].get(k)}, share is {100.0 * v / tot}")
        if abs(sum(c["summary"].values()) - 100.0) > 1e-6:
            out.append(f"summary percentages add up to {sum(c['summary'].values())}")
    return out[:10]


def features(case, obs):
    f = G.features(case)
    c = obs["canon"]
    if "breakdown" in c:
        for k in ("cpu_bound", "gpu_compute_bound", "gpu_communication_bound", "gpu_kernel_kernel_overhead", "gpu_kernel_launch_overhead"):
            f["bb_" + k] = int(any(r[3] == k for r in c["breakdown"]))
        f["rows"] = len(c["breakdown"])
    if c.get("frac") and "raises" not in c["frac"]:
        f["sub_microsecond_conservation_checked"] = int(not c["frac"]["tolerated_negative"])
        f["rows"] = c["frac"]["n_rows"]
    return f


def nontrivial(case, obs, f) -> bool:
    return f.get("rows", 0) >= 3


def sample(case, obs):
    c = obs["canon"]
    return {"params": case["params"], "breakdown_head": c.get("breakdown", [])[:5], "summary": c.get("summary")}


def corpus_cases():
    return C.corpus_for("C10")
