"""C04 — temporal breakdown is an exact partition of the GPU activity span."""
from __future__ import annotations

import re
from typing import Any, Dict, List

from harness import gen as G
from harness import htaio
from harness.props import common as C

N_CASES = {"quick": 240, "thorough": 2400}
SHRINK = True
ASSUMPTIONS = [
    "timestamps and durations are integers after loading (HTA_DISABLE_NS_ROUNDING unset)",
    "durations are non-negative; every rank has at least one device activity (the property's quantifier)",
    "pandas sort_values returns some permutation sorted by the key; groupby/cumsum/cummax/shift have their documented meaning on integer columns",
    "percentages must lie within half a unit in the last reported place of the unrounded exact ratio (any tie rule accepted; float rounding not modelled): |pct - 100*part/kernel_time| <= 0.005",
]
TRUSTED = ["get_kernel_type's three regular expressions are modelled by prefix/infix tests (Model/KernelType.lean) and compared with Python's re on every generated name"]


def gen(rng, tier, no, wide=False):
    force = {"stream_zero": True} if rng.random() < 0.15 else {}
    if rng.random() < 0.1:
        force.update({"nranks": rng.choice([2, 3]), "filler": -90})       # many rank-specific names: global symbol ids beyond 127
    case = C.gen_with(rng, C.every_rank_has_device, **force)
    if rng.random() < 0.04 and not force:
        case = C.many_ranks(rng, case)
    # a tenth of the cases is also analysed at one eighth of the time scale with HTA_DISABLE_NS_ROUNDING=1
    case["params"] = {"frac": rng.random() < 0.1}
    return case


def wf(case) -> bool:
    return C.every_rank_has_device(case)


def observe(case: Dict[str, Any]) -> Dict[str, Any]:
    ta, files = C.load_case(case)
    try:
        rows = {r: htaio.rows_of(ta.t, r) for r in ta.t.get_ranks()}
        try:
            df = ta.get_temporal_breakdown(visualize=False)
            canon = {}
            for rec in df.itertuples(index=False):
                canon[int(rec.rank)] = {
                    "idle": C.num(rec[1]), "compute": C.num(rec[2]), "non_compute": C.num(rec[3]),
                    "kernel_time": C.num(rec[4]), "idle_pct": C.num(rec[5]), "compute_pct": C.num(rec[6]),
                    "non_compute_pct": C.num(rec[7])}
        except Exception as e:  # noqa: BLE001
            canon = {"raises": C.exc_name(e)}
        twin = None
        if (case.get("params") or {}).get("frac") and "raises" not in canon:
            def _call(ta2):
                d2 = ta2.get_temporal_breakdown(visualize=False)
                return {int(rec.rank): [C.num(float(rec[1]) * 8), C.num(float(rec[2]) * 8), C.num(float(rec[3]) * 8), C.num(float(rec[4]) * 8),
                                        C.num(rec[5]), C.num(rec[6]), C.num(rec[7])] for rec in d2.itertuples(index=False)}
            twin = C.frac_twin(case, _call)
        return {"rows": rows, "canon": canon, "twin": twin}
    finally:
        htaio.remove_case_dir(files)


def in_domain(case, obs) -> bool:
    # the quantifier: each rank has at least one device activity (in the loaded frame)
    return all(C.dev_rows(rows) for rows in obs["rows"].values())


def model(drv, case, obs) -> Dict[str, Any]:
    out = {}
    for r, rows in obs["rows"].items():
        if not C.dev_rows(rows):
            return {"raises": True}
        out[r] = drv.call({"op": "c04", "rows": rows})
    return out


def _pct(part, total):
    return 100 * (part / total)      # unrounded; the report may round a tie either way


def compare(obs, mod) -> List[str]:
    c = obs["canon"]
    if "raises" in c or "raises" in mod:
        if ("raises" in c) != ("raises" in mod):
            return [f"impl={c} model={mod}"]
        return []
    diffs = []
    for r, m in mod.items():
        if "raises" in m or "error" in m:
            diffs.append(f"rank {r}: model {m}")
            continue
        i = c.get(r)
        if i is None:
            diffs.append(f"rank {r} missing in impl output")
            continue
        for k in ("idle", "compute", "non_compute", "kernel_time"):
            if i[k] != m[k]:
                diffs.append(f"rank {r} {k}: impl={i[k]} model={m[k]}")
        if m["kernel_time"] > 0:
            for k, pk in (("idle", "idle_pct"), ("compute", "compute_pct"), ("non_compute", "non_compute_pct")):
                exp = _pct(m[k], m["kernel_time"])
                if i[pk] == "nan" or abs(float(i[pk]) - exp) > 0.005 + 1e-9:
                    diffs.append(f"rank {r} {pk}: impl={i[pk]} expected={exp}")
    return diffs


def spec_check(drv, case, obs) -> List[str]:
    c = obs["canon"]
    if "raises" in c:
        return [f"analysis raised {c['raises']} on a trace where every rank has a device activity"]
    out = []
    for r, rows in obs["rows"].items():
        dv = C.dev_rows(rows)
        lo = min(x[1] for x in dv)
        hi = max(x[1] + x[2] for x in dv)
        if hi - lo > 20000:
            continue
        i = c[r]
        if any(not isinstance(i[k], int) for k in ("idle", "compute", "non_compute", "kernel_time")):
            out.append(f"rank {r}: non-integer output {i}")
            continue
        ans = drv.call({"op": "c04.check", "rows": rows, "out": {k: i[k] for k in ("idle", "compute", "non_compute", "kernel_time")}})
        if ans.get("ok") is not True:
            out.append(f"rank {r}: Spec.C04.check rejects the implementation's numbers {i} ({ans})")
    return out


_COMM = re.compile(r"^nccl.*Kernel")
_MEM = re.compile(r"(^Memcpy)|(^Memset)|(^dma)")
_NOTCOMP = re.compile(r"(^nccl.*Kernel)|(.*(Memcpy)|(Memset))|(.*Sync)")


def is_computation(name: str) -> bool:
    return not _COMM.match(name) and not _MEM.match(name) and not _NOTCOMP.match(name)


def oracle(case, obs) -> List[str]:
    """Independent statement of C04 by counting covered unit cells."""
    c = obs["canon"]
    if "raises" in c:
        return []  # reported by spec_check
    out = []
    tw = obs.get("twin")
    if tw is not None:
        # the same trace at one eighth of the time scale: times scale, percentages stay (to the reported two decimals)
        if "raises" in tw:
            out.append(f"{tw['raises']}")
        else:
            for r, v in c.items():
                exp = [v["idle"], v["compute"], v["non_compute"], v["kernel_time"]]
                got = tw.get(r)
                if got is None or got[:4] != exp or any(a != "nan" and b != "nan" and abs(float(a) - float(b)) > 0.011
                                                        for a, b in zip(got[4:], [v["idle_pct"], v["compute_pct"], v["non_compute_pct"]])):
                    out.append(f"rank {r}: at one eighth of the time scale (HTA_DISABLE_NS_ROUNDING=1) the breakdown times 8 is {got}, the integer trace gives {exp + [v['idle_pct'], v['compute_pct'], v['non_compute_pct']]}")
    for r, rows in obs["rows"].items():
        dv = C.dev_rows(rows)
        lo = min(x[1] for x in dv)
        hi = max(x[1] + x[2] for x in dv)
        if hi - lo > 200000:
            continue
        allc = C.covered_cells((x[1], x[1] + x[2]) for x in dv)
        comp = C.covered_cells((x[1], x[1] + x[2]) for x in dv if is_computation(x[9]))
        exp = {"kernel_time": hi - lo, "idle": (hi - lo) - len(allc), "compute": len(comp),
               "non_compute": len(allc - comp)}
        i = c[r]
        for k, v in exp.items():
            if i[k] != v:
                out.append(f"rank {r} {k}: reported {i[k]}, exact {v}")
        if min(i[k] if isinstance(i[k], (int, float)) else 0 for k in ("idle", "compute", "non_compute")) < 0:
            out.append(f"rank {r}: negative part {i}")
        if exp["kernel_time"] > 0:
            for k, pk in (("idle", "idle_pct"), ("compute", "compute_pct"), ("non_compute", "non_compute_pct")):
                e = 100.0 * exp[k] / exp["kernel_time"]
                if i[pk] == "nan" or abs(float(i[pk]) - e) > 0.0051:
                    out.append(f"rank {r} {pk}: reported {i[pk]}, exact {e:.4f}")
    return out


def features(case, obs) -> Dict[str, int]:
    return G.features(case)


def nontrivial(case, obs, f) -> bool:
    return G.nontrivial(f) and f["dev_events"] >= 2


def sample(case, obs):
    r0 = sorted(obs["rows"])[0]
    return {"rank0_device_intervals": [(x[1], x[1] + x[2], x[9][:24]) for x in C.dev_rows(obs["rows"][r0])][:12],
            "impl_output": obs["canon"] if "raises" in obs["canon"] else obs["canon"].get(r0)}


def corpus_cases():
    return C.corpus_for("C04")
