"""Helpers shared by the property adapters."""
from __future__ import annotations

import math
from typing import Any, Dict, List

from harness import gen as G
from harness import htaio


def dev_rows(rows: List[List[Any]]) -> List[List[Any]]:
    return [r for r in rows if r[5] != -1]


def every_rank_has_device(case: Dict[str, Any]) -> bool:
    for ev in case["ranks"].values():
        if not any(e.get("ph") == "X" and "stream" in (e.get("args") or {}) for e in ev):
            return False
    return True


def gen_with(rng, pred, **force) -> Dict[str, Any]:
    for _ in range(50):
        c = G.gen_case(rng, **force)
        if pred(c):
            return c
    raise RuntimeError("generator could not satisfy the predicate")


def many_ranks(rng, case: Dict[str, Any]) -> Dict[str, Any]:
    """Grow a case to nine to eleven ranks (beyond eight the loader sizes its process pool by a profiling parse of the
    first file) and send it through the real constructor with the directory only. The added ranks are copies of the
    generated ones with a rank-specific tail (a host operator, a launch and a kernel after everything else), so that
    no two ranks have the same content."""
    import copy
    base = sorted(case["ranks"])
    want = rng.choice([9, 10, 11])
    k = 0
    while len(case["ranks"]) < want:
        src = base[k % len(base)]
        new = max(case["ranks"]) + 1
        ev = copy.deepcopy(case["ranks"][src])
        xs = [e for e in ev if isinstance(e, dict) and e.get("ph") == "X" and "dur" in e]
        host = next((e for e in xs if e.get("cat") == "cpu_op"), None)
        dev = next((e for e in xs if e.get("cat") == "kernel" and isinstance((e.get("args") or {}).get("stream"), int)), None)
        if host is not None:
            t = max(e["ts"] + e["dur"] for e in xs) + 5
            ev.append({"ph": "X", "cat": "cpu_op", "name": f"aten::tail_r{new}", "pid": host["pid"], "tid": host["tid"], "ts": t, "dur": 10 + new})
            if dev is not None:
                corr = 7000000 + new
                ev.append({"ph": "X", "cat": "cuda_runtime", "name": "cudaLaunchKernel", "pid": host["pid"], "tid": host["tid"], "ts": t + 1, "dur": 2, "args": {"correlation": corr}})
                ev.append({"ph": "X", "cat": "kernel", "name": f"tail_kernel_r{new}", "pid": dev["pid"], "tid": dev["tid"], "ts": t + 4, "dur": 3 + new,
                           "args": {"correlation": corr, "stream": dev["args"]["stream"]}})
        case["ranks"][new] = ev
        k += 1
    case["ctor"] = "dir"
    return case


PRE_CALLS = ["temporal_breakdown", "kernel_breakdown", "idle_time", "comm_comp_overlap", "queue_length_series", "queue_length_summary",
             "memory_bw_series", "memory_bw_summary", "launch_stats", "launch_stats_mem", "call_graph", "user_annotation_breakdown",
             "critical_path_window", "critical_path_whole", "annotated_kernels", "blocked_on_queue", "profiler_steps"]


def disturb(ta, pre) -> None:
    """Run other public analyses on the same TraceAnalysis object first (the case's `pre` list). Their results and
    their failures are ignored: the point is only that they ran, on the same loaded frames and symbol table."""
    import contextlib
    import io
    if pre:
        # what the trace is, is what was loaded: the adapters (model input, oracle) keep reading these rows even if an
        # analysis below changes the object's frames in place; the observed call runs on the object as it is afterwards
        ta.t._verif_rows_snapshot = {r: htaio.rows_of(ta.t, r) for r in ta.t.get_ranks()}
    for name in pre or []:
        try:
            with contextlib.redirect_stdout(io.StringIO()):
                if name == "temporal_breakdown":
                    ta.get_temporal_breakdown(visualize=False)
                elif name == "kernel_breakdown":
                    ta.get_gpu_kernel_breakdown(visualize=False, num_kernels=3)
                elif name == "idle_time":
                    ta.get_idle_time_breakdown(visualize=False, ranks=ta.t.get_ranks()[:1])
                elif name == "comm_comp_overlap":
                    ta.get_comm_comp_overlap(visualize=False)
                elif name == "queue_length_series":
                    ta.get_queue_length_time_series()
                elif name == "queue_length_summary":
                    ta.get_queue_length_summary()
                elif name == "memory_bw_series":
                    ta.get_memory_bw_time_series()
                elif name == "memory_bw_summary":
                    ta.get_memory_bw_summary()
                elif name == "launch_stats":
                    ta.get_cuda_kernel_launch_stats(visualize=False)
                elif name == "launch_stats_mem":
                    ta.get_cuda_kernel_launch_stats(visualize=False, include_memory_events=True)
                elif name == "call_graph":
                    from hta.common.trace_call_graph import CallGraph
                    CallGraph(ta.t, ranks=ta.t.get_ranks()[:1])
                elif name == "user_annotation_breakdown":
                    ta.get_gpu_user_annotation_breakdown(visualize=False)
                elif name == "critical_path_window":
                    ta.critical_path_analysis(rank=ta.t.get_ranks()[0], annotation="ProfilerStep", instance_id=0)
                elif name == "critical_path_whole":
                    ta.critical_path_analysis(rank=ta.t.get_ranks()[0], annotation="", instance_id=None)
                elif name == "annotated_kernels":
                    ta.get_gpu_kernels_with_user_annotations(ta.t.get_ranks()[0])
                elif name == "blocked_on_queue":
                    ta.get_time_spent_blocked_on_full_queue(ta.get_queue_length_time_series(), max_queue_length=2)
                elif name == "profiler_steps":
                    ta.get_profiler_steps()
        except Exception:  # noqa: BLE001
            pass


_SYNC_NAMES = {"Event Sync", "Context Sync"}


def relink(rows):
    """Rows with the link column recomputed from the correlation ids themselves (C02's rule): the id of the unique
    event on the opposite side (host call versus device activity; a synchronisation record is device side) carrying
    the same correlation id, 0 when there is none, -1 without a correlation id. Oracles of properties that are stated
    in terms of "the launch call of a device activity" use this instead of the implementation's column, so that a
    broken link shows in them too."""
    def dev(x):
        return x[5] >= 0 or x[9] in _SYNC_NAMES
    by_corr: Dict[Any, List[Any]] = {}
    for x in rows:
        if x[6] != -1:
            by_corr.setdefault(x[6], []).append(x)
    out = []
    for x in rows:
        y = list(x)
        if x[6] == -1:
            y[7] = -1
        else:
            ps = [p for p in by_corr[x[6]] if dev(p) != dev(x)]
            y[7] = ps[0][0] if len(ps) == 1 else (0 if not ps else x[7])
        out.append(y)
    return out


def frac_twin(case: Dict[str, Any], call, **kw):
    """The same trace with every time divided by 8 (dyadic fractions of a microsecond), loaded with the documented
    option HTA_DISABLE_NS_ROUNDING=1, handed to `call(ta)`. Whatever `call` returns is the result; an exception is
    returned as {"raises": ...}. Used for metamorphic comparisons: durations scale by 1/8, ratios do not change."""
    import copy
    import os
    c2 = copy.deepcopy({"ranks": case["ranks"]})
    for ev in c2["ranks"].values():
        for e in ev:
            if isinstance(e, dict):
                if "ts" in e:
                    e["ts"] = e["ts"] / 8.0
                if "dur" in e:
                    e["dur"] = e["dur"] / 8.0
    os.environ["HTA_DISABLE_NS_ROUNDING"] = "1"
    files = None
    try:
        files = htaio.write_case(c2)
        ta = htaio.load(files, ctor=case.get("ctor"), **kw)
        return call(ta)
    except Exception as e:  # noqa: BLE001
        return {"raises": "sub-microsecond twin: " + exc_name(e) + ": " + str(e)[:80]}
    finally:
        os.environ.pop("HTA_DISABLE_NS_ROUNDING", None)
        if files:
            htaio.remove_case_dir(files)


def load_case(case: Dict[str, Any], **kw):
    files = htaio.write_case(case, gz=kw.pop("gz", False))
    try:
        ta = htaio.load(files, ctor=case.get("ctor"), **kw)
    finally:
        pass
    ta.t._verif_file_names = {int(r): {i: (str(e.get("name", "")), str(e.get("cat"))) for i, e in enumerate(ev)
                                       if isinstance(e, dict) and "dur" in e and e.get("cat") is not None}
                              for r, ev in case["ranks"].items()}
    htaio.check_frames_match_files(ta.t, case["ranks"])
    disturb(ta, case.get("pre"))
    return ta, files


def isnan(x: Any) -> bool:
    try:
        return math.isnan(float(x))
    except Exception:
        return False


def num(x: Any):
    """Canonical number: int when integral, 'nan' for NaN, else float."""
    if isnan(x):
        return "nan"
    f = float(x)
    return int(f) if f == int(f) else f


def covered_cells(ivs) -> set:
    s = set()
    for a, b in ivs:
        s.update(range(a, b))
    return s


def exc_name(e: BaseException) -> str:
    return type(e).__name__


def corpus_for(prop: str):
    """Minimised past failures, replayed first on every run."""
    import glob
    import json
    import os
    root = os.path.dirname(os.path.dirname(os.path.dirname(os.path.abspath(__file__))))
    out = []
    for p in sorted(glob.glob(os.path.join(root, "corpus", f"{prop}-*.json"))):
        c = json.load(open(p))
        c["ranks"] = {int(k): v for k, v in c["ranks"].items()}
        if "test_ranks" in c:
            c["test_ranks"] = {int(k): v for k, v in c["test_ranks"].items()}
        out.append(c)
    return out


def first_is_host_op(case) -> bool:
    """The first event of every file is a host operator without a correlation id."""
    for ev in case["ranks"].values():
        if not ev:
            return False
        e = ev[0]
        a = e.get("args") or {}
        if e.get("ph") != "X" or "dur" not in e or "stream" in a or a.get("correlation", -1) != -1 or e.get("cat") == "Trace":
            return False
    return True
