"""C01 — loaded events are a faithful, uniformly time-shifted image of the trace file."""
from __future__ import annotations

import os
from fractions import Fraction
from typing import Any, Dict, List

from harness import gen as G
from harness import htaio
from harness.props import common as C

N_CASES = {"quick": 130, "thorough": 2000}
SHRINK = True
WORKERS = {"quick": 6, "thorough": 16}
ASSUMPTIONS = [
    "fractional timestamps in the main stream are dyadic (multiples of 1/8 us, magnitude < 2^40) so that the double addition ts+dur is exact; the 3-decimal stream tolerates end' one below the exact floor when the exact sum is an integer (IEEE addition not modelled: partial for the rounding clause)",
    "HTA_DISABLE_NS_ROUNDING is unset",
    "pid/tid that are not numbers are mapped to a stable code on both sides",
    "with >= 2 profiler steps the loaded frame is compared as a subset of the model's aligned rows (which subset is C12's business)",
]


def _frac_mode(rng, case, mode):
    """Turn integer timestamps into fractional ones that keep nesting intact: scale by s and
    add sub-unit offsets so starts move up and ends move down only inside their unit cell."""
    for ev in case["ranks"].values():
        for e in ev:
            if e.get("ph") != "X" or "dur" not in e:
                continue
            if mode == "dyadic":
                a, b = rng.choice([0, 0, 1, 2, 5, 7]), rng.choice([0, 0, 1, 3, 6])
                e["ts"] = e["ts"] + a / 8.0
                e["dur"] = max(0.0, e["dur"] - a / 8.0 - b / 8.0) if e["dur"] >= 2 else float(e["dur"])
            else:
                a, b = rng.choice([0, 0, 1, 250, 333, 700, 999]), rng.choice([0, 0, 1, 300, 667, 999])
                ts = Fraction(e["ts"]) + Fraction(a, 1000)
                du = max(Fraction(0), Fraction(e["dur"]) - Fraction(a, 1000) - Fraction(b, 1000)) if e["dur"] >= 2 else Fraction(e["dur"])
                e["ts"] = float(ts) if a else e["ts"]
                e["dur"] = float(du) if (a or b) and e["dur"] >= 2 else e["dur"]
                e["_exact"] = [int(ts * 1000), int(du * 1000)]


def gen(rng, tier, no, wide=False):
    mode = rng.choice(["int", "int", "dyadic", "dyadic", "dec3"])
    force = {}
    if mode != "int":
        force["offset"] = rng.choice([0, 7, 1000, 10**6])
    if rng.random() < 0.05:
        # a job with more ranks than the parser's memory-profiling threshold (8), small traces
        force.update({"nranks": rng.choice([9, 10]), "top_ops": 1, "max_depth": 2, "nsteps": rng.choice([0, 1])})
    case = G.gen_case(rng, **force)
    if mode != "int":
        _frac_mode(rng, case, mode)
    # glue cases: events without args, string pid on a complete event, stream given as a string
    for ev in case["ranks"].values():
        for e in ev:
            if e.get("ph") == "X" and e.get("cat") == "cpu_op" and rng.random() < 0.05:
                e.pop("args", None)
            if e.get("ph") == "X" and "stream" in (e.get("args") or {}) and rng.random() < 0.05:
                e["args"]["stream"] = str(e["args"]["stream"])
    case["params"] = {"mode": mode, "gz": rng.random() < 0.4, "mp": rng.random() < 0.25, "compact": rng.random() < 0.3, "frac": rng.random() < 0.35}
    return case


def wf(case) -> bool:
    return "params" in case and all(any(e.get("ph") == "X" and "dur" in e and e.get("cat") != "Trace" and "args" in e for e in ev) for ev in case["ranks"].values())


def _ns(v) -> int:
    f = Fraction(v) * 1000  # exact value of the double / int in the file
    return f


def _entries(ev) -> List[List[Any]]:
    out = []
    for e in ev:
        a = e.get("args") if isinstance(e.get("args"), dict) else {}
        if "_exact" in e:
            ts, dur = e["_exact"]
        else:
            ts = Fraction(e.get("ts", 0)) * 1000
            dur = Fraction(e["dur"]) * 1000 if "dur" in e else None
            if ts.denominator != 1 or (dur is not None and dur.denominator != 1):
                # not representable in 1/1000 us: keep exact by scaling everything? generated data never does this
                raise ValueError("timestamp finer than 1/1000 us")
            ts, dur = int(ts), (int(dur) if dur is not None else None)
        st = a.get("stream")
        if st is not None:
            try:
                st = int(st)
            except ValueError:
                st = -1
        out.append([ts, dur, e.get("cat"), str(e.get("name", "")), htaio._pid(e.get("pid", 0)), htaio._pid(e.get("tid", 0)),
                    st, a.get("correlation")])
    return out


def _frame(t, r) -> List[List[Any]]:
    df = t.get_trace(r)
    tab = t.symbol_table.get_sym_table()
    out = []
    for rec in df.itertuples(index=False):
        out.append([htaio._i(rec.index), htaio._i(rec.ts), htaio._i(rec.dur), htaio._i(rec.end), htaio._pid(rec.pid),
                    htaio._pid(rec.tid), htaio._i(rec.stream), htaio._i(rec.correlation), tab[int(rec.name)], tab[int(rec.cat)]])
    return sorted(out)


def observe(case):
    p = case["params"]
    clean = {"cfg": case.get("cfg"), "ranks": {r: [{k: v for k, v in e.items() if k != "_exact"} for e in ev] for r, ev in case["ranks"].items()}}
    files = htaio.write_case(clean, gz=p["gz"], compact=p["compact"])
    try:
        htaio.hta_setup()
        from hta.common.trace import Trace
        canon: Dict[str, Any] = {}
        try:
            t = Trace(trace_files=dict(files), trace_dir=os.path.dirname(next(iter(files.values()))))
            t.parse_traces(use_multiprocessing=p["mp"])
            canon["parsed"] = {r: _frame(t, r) for r in t.get_ranks()}
            ta = htaio.load(files, mp=p["mp"], ctor=case.get("ctor"))
            canon["loaded"] = {r: _frame(ta.t, r) for r in ta.t.get_ranks()}
            canon["min_ts"] = C.num(ta.t.min_ts)
            canon["index_is_id"] = all(list(ta.t.get_trace(r).index) == list(ta.t.get_trace(r)["index"]) for r in ta.t.get_ranks())
        except Exception as e:  # noqa: BLE001
            canon = {"raises": C.exc_name(e) + ": " + str(e)[:100]}
        ints = all(isinstance(e.get(k, 0), int) and abs(e.get(k, 0)) < 2 ** 50 for ev in clean["ranks"].values() for e in ev if isinstance(e, dict) for k in ("ts", "dur"))
        if p.get("frac") and ints and "raises" not in canon:
            # the first two clauses without rounding: the same files at one eighth of the time scale, HTA_DISABLE_NS_ROUNDING=1
            def _call(ta2):
                o = {}
                for r in ta2.t.get_ranks():
                    d2 = ta2.t.get_trace(r)
                    o[r] = sorted([int(i), C.num(float(a) * 8), C.num(float(b) * 8)] for i, a, b in zip(d2["index"], d2["ts"], d2["dur"]))
                return o
            canon["twin"] = C.frac_twin(clean, _call)
        nsteps = len({e["name"] for ev in case["ranks"].values() for e in ev if "ProfilerStep" in str(e.get("name", "")) or "ProfilerStep" in str(e.get("cat", ""))})
        return {"canon": canon, "nsteps": nsteps}
    finally:
        htaio.remove_case_dir(files)


def model(drv, case, obs):
    files = [_entries(case["ranks"][r]) for r in sorted(case["ranks"])]
    ans = drv.call({"op": "c01", "files": files})
    ranks = sorted(case["ranks"])
    return {"min_ts": ans["min_ts"], "parsed": {r: sorted(ans["parsed"][i]) for i, r in enumerate(ranks)},
            "aligned": {r: sorted(ans["aligned"][i]) for i, r in enumerate(ranks)}}


def _float_sensitive(case) -> Dict[int, set]:
    """ids whose exact ts+dur is an integer although the summands are not (dec3 stream)."""
    out: Dict[int, set] = {}
    for r, ev in case["ranks"].items():
        s = set()
        for i, e in enumerate(ev):
            if "_exact" in e:
                ts, dur = e["_exact"]
                if (ts + dur) % 1000 == 0 and ts % 1000 != 0:
                    s.add(i)
        out[r] = s
    return out


def _eq_rows(a, b, sens) -> bool:
    if a == b:
        return True
    if a[0] in sens and a[:2] == b[:2] and a[4:] == b[4:] and b[3] - a[3] in (0, 1) and a[2] - a[1] == a[3] - a[1]:
        return True
    return False


def compare(obs, mod) -> List[str]:
    c = obs["canon"]
    if "raises" in c:
        return [f"impl raises {c['raises']}"]
    out = []
    for r, m in mod["parsed"].items():
        i = c["parsed"].get(r)
        if i is None or len(i) != len(m) or any(not _eq_rows(a, b, obs.get("sens", {}).get(r, set())) for a, b in zip(i, m)):
            d = [(a, b) for a, b in zip(i or [], m) if a != b][:3]
            out.append(f"parsed rank {r}: {len(i or [])} impl rows vs {len(m)} model rows; first differences {d}")
    if c["min_ts"] != mod["min_ts"]:
        out.append(f"min_ts impl={c['min_ts']} model={mod['min_ts']}")
    for r, m in mod["aligned"].items():
        i = c["loaded"].get(r, [])
        mm = {x[0]: x for x in m}
        bad = [a for a in i if not (a[0] in mm and _eq_rows(a, mm[a[0]], obs.get("sens", {}).get(r, set())))]
        if bad:
            out.append(f"loaded rank {r}: rows not matching the model's aligned rows: {[(a, mm.get(a[0])) for a in bad[:3]]}")
        if obs["nsteps"] < 2 and len(i) != len(m):
            out.append(f"loaded rank {r}: {len(i)} rows, model {len(m)} (fewer than two profiler steps: nothing may be dropped)")
    return out


def oracle(case, obs) -> List[str]:
    c = obs["canon"]
    if "raises" in c:
        return [f"loading raised {c['raises']}"]
    out = []
    import math
    tw = c.get("twin")
    if tw is not None:
        if "raises" in tw:
            out.append(tw["raises"])
        else:
            exp = {r: sorted([x[0], x[1], x[2]] for x in rows) for r, rows in c["loaded"].items()}
            if tw != exp:
                bad = [(r, a, b) for r in exp for a, b in zip(tw.get(r, []), exp[r]) if a != b][:3]
                out.append(f"at one eighth of the time scale (HTA_DISABLE_NS_ROUNDING=1) aligned start and duration times 8 differ from the integer trace: (rank, twin, integer) {bad}")
    shifts = set()
    for r, ev in case["ranks"].items():
        complete = {i: e for i, e in enumerate(ev) if "dur" in e and e.get("cat") is not None and e.get("cat") != "Trace"}
        got = {x[0]: x for x in c["parsed"].get(r, [])}
        if set(got) != set(complete):
            out.append(f"rank {r}: rows for ids {sorted(set(got) ^ set(complete))[:6]} do not correspond one-to-one to complete events")
            continue
        for i, e in complete.items():
            x = got[i]
            a = e.get("args") if isinstance(e.get("args"), dict) else {}
            ts, dur = Fraction(e["ts"]), Fraction(e["dur"])
            if "_exact" in e:
                ts, dur = Fraction(e["_exact"][0], 1000), Fraction(e["_exact"][1], 1000)
            if [x[8], x[9]] != [e["name"], e["cat"]] or x[7] != a.get("correlation", -1):
                out.append(f"rank {r} id {i}: name/cat/correlation {x[7:]} vs file {e['name'], e['cat'], a.get('correlation', -1)}")
            if x[1] < ts or x[3] > ts + dur or x[1] - ts >= 1 or (ts + dur) - x[3] >= 1 + (1 if "_exact" in e else 0):
                out.append(f"rank {r} id {i}: rounded span [{x[1]},{x[3]}] vs original [{float(ts)},{float(ts + dur)}] is not the inward rounding")
            if x[3] != x[1] + x[2]:
                out.append(f"rank {r} id {i}: parsed end {x[3]} != ts {x[1]} + dur {x[2]}")
        lg = {x[0]: x for x in c["loaded"].get(r, [])}
        for i, x in lg.items():
            if i not in got:
                out.append(f"rank {r}: loaded row id {i} has no parsed counterpart")
                continue
            shifts.add(got[i][1] - x[1])
            if x[3] != x[1] + x[2]:
                out.append(f"rank {r} id {i}: loaded end {x[3]} != ts {x[1]} + dur {x[2]}")
            if x[2] != got[i][2] or x[4:] != got[i][4:]:
                out.append(f"rank {r} id {i}: loading changed fields other than the times")
    if len(shifts) > 1:
        out.append(f"start times are not shifted by one constant shared by all ranks: {sorted(shifts)[:4]}")
    allp = [x[1] for rows in c["parsed"].values() for x in rows]
    if allp and shifts and (shifts != {min(allp)} or c["min_ts"] != min(allp)):
        out.append(f"shift constant {sorted(shifts)} / min_ts {c['min_ts']} is not the earliest start {min(allp)}")
    if not c.get("index_is_id", True):
        out.append("the loaded frame is not indexed by event id")
    return out[:12]


def features(case, obs):
    f = G.features(case)
    f["mode_" + case["params"]["mode"]] = 1
    f["gz"] = int(case["params"]["gz"])
    f["mp"] = int(case["params"]["mp"])
    f["dropped_entries"] = sum(1 for ev in case["ranks"].values() for e in ev if "dur" not in e or e.get("cat") in (None, "Trace"))
    return f


def nontrivial(case, obs, f) -> bool:
    return f["dropped_entries"] >= 1 or f["multi_rank"] >= 1


def sample(case, obs):
    r0 = sorted(case["ranks"])[0]
    return {"params": case["params"], "file_head": [{k: v for k, v in e.items() if k in ("ph", "cat", "name", "ts", "dur")} for e in case["ranks"][r0][:5]],
            "loaded_head": (obs["canon"].get("loaded", {}).get(r0, [])[:3] if "raises" not in obs["canon"] else obs["canon"])}


def corpus_cases():
    return C.corpus_for("C01")
