"""C07 — communication/computation overlap is the exact time ratio."""
from __future__ import annotations

from typing import Any, Dict, List

from harness import gen as G
from harness import htaio
from harness.props import common as C
from harness.props.c04 import _COMM, is_computation

N_CASES = {"quick": 240, "thorough": 2400}
SHRINK = True
ASSUMPTIONS = [
    "integer timestamps after loading; non-negative durations; each rank has at least one communication kernel (quantifier)",
    "the reported percentage must lie within 0.005 of the unrounded 100*num/den (any tie rule accepted); num and den themselves are not exposed by the API",
    "pandas sort_values returns some time-sorted permutation (no stability assumed: the theorem quantifies over all of them)",
]


def _has_comm(case) -> bool:
    for ev in case["ranks"].values():
        if not any(e.get("ph") == "X" and "stream" in (e.get("args") or {}) and _COMM.match(e["name"]) for e in ev):
            return False
    return True


def gen(rng, tier, no, wide=False):
    case = C.gen_with(rng, _has_comm, **({"stream_zero": True} if rng.random() < 0.15 else {}))
    if rng.random() < 0.03:
        case = C.many_ranks(rng, case)
    # sub-microsecond stream: the same trace with every time divided by 8 (dyadic fractions of a microsecond), analysed
    # with HTA_DISABLE_NS_ROUNDING=1; the percentage is invariant under that scaling, so the model and the oracle keep
    # working on the integer trace
    case["params"] = {"frac": rng.random() < 0.1}
    return case


def wf(case) -> bool:
    return _has_comm(case)


def in_domain(case, obs) -> bool:
    return all(any(_COMM.match(x[9]) for x in C.dev_rows(rows)) for rows in obs["rows"].values())


def _observe_frac(case):
    import copy
    import os
    c2 = copy.deepcopy(case)
    c2.pop("pre", None)
    for ev in c2["ranks"].values():
        for e in ev:
            if isinstance(e, dict):
                if "ts" in e:
                    e["ts"] = e["ts"] / 8.0
                if "dur" in e:
                    e["dur"] = e["dur"] / 8.0
    os.environ["HTA_DISABLE_NS_ROUNDING"] = "1"
    files = None
    try:
        files = htaio.write_case(c2)
        ta = htaio.load(files, ctor=case.get("ctor"))
        df = ta.get_comm_comp_overlap(visualize=False)
        return {int(rec.rank): C.num(rec.comp_comm_overlap_pctg) for rec in df.itertuples(index=False)}
    except Exception as e:  # noqa: BLE001
        return {"raises": "sub-microsecond run: " + C.exc_name(e)}
    finally:
        os.environ.pop("HTA_DISABLE_NS_ROUNDING", None)
        if files:
            htaio.remove_case_dir(files)


def observe(case):
    ta, files = C.load_case(case)
    try:
        rows = {r: htaio.rows_of(ta.t, r) for r in ta.t.get_ranks()}
        try:
            df = ta.get_comm_comp_overlap(visualize=False)
            canon = {int(rec.rank): C.num(rec.comp_comm_overlap_pctg) for rec in df.itertuples(index=False)}
        except Exception as e:  # noqa: BLE001
            canon = {"raises": C.exc_name(e)}
        if (case.get("params") or {}).get("frac") and "raises" not in canon:
            canon = _observe_frac(case)
        return {"rows": rows, "canon": canon}
    finally:
        htaio.remove_case_dir(files)


def model(drv, case, obs):
    return {r: drv.call({"op": "c07", "rows": rows}) for r, rows in obs["rows"].items()}


def _expect(num, den):
    return "nan" if den == 0 else 100 * (num / den)     # unrounded; the report may round a tie either way


def _cmp(tag, r, got, num, den) -> List[str]:
    exp = _expect(num, den)
    if exp == "nan" or got == "nan":
        return [] if exp == got else [f"rank {r}: impl pct={got}, {tag} num/den={num}/{den}"]
    if abs(float(got) - exp) > 0.005 + 1e-9:
        return [f"rank {r}: impl pct={got}, {tag} gives {exp} ({num}/{den})"]
    return []


def compare(obs, mod) -> List[str]:
    c = obs["canon"]
    if "raises" in c:
        return [f"impl raises {c['raises']}"]
    out = []
    for r, m in mod.items():
        if "error" in m:
            out.append(f"rank {r}: model {m}")
        else:
            out += _cmp("model", r, c.get(r), m["num"], m["den"])
    return out


def spec_check(drv, case, obs) -> List[str]:
    c = obs["canon"]
    if "raises" in c:
        return [f"analysis raised {c['raises']} on a trace with a communication kernel on every rank"]
    out = []
    for r, rows in obs["rows"].items():
        dv = C.dev_rows(rows)
        if max(x[1] + x[2] for x in dv) - min(x[1] for x in dv) > 20000:
            continue
        e = drv.call({"op": "c07.exact", "rows": rows})
        if e["den"] == 0:
            continue  # 0/0: the statement is undefined (only zero-length communication kernels)
        out += _cmp("Spec.C07.exact", r, c.get(r), e["num"], e["den"])
        if c.get(r) != "nan" and not (-1e-9 <= float(c.get(r)) <= 100 + 1e-9):
            out.append(f"rank {r}: percentage {c.get(r)} outside [0,100]")
    return out


def oracle(case, obs) -> List[str]:
    c = obs["canon"]
    if "raises" in c:
        return []
    out = []
    for r, rows in obs["rows"].items():
        dv = C.dev_rows(rows)
        comm = C.covered_cells((x[1], x[1] + x[2]) for x in dv if _COMM.match(x[9]))
        comp = C.covered_cells((x[1], x[1] + x[2]) for x in dv if is_computation(x[9]))
        if not comm:
            continue
        exact = 100.0 * len(comm & comp) / len(comm)
        got = c.get(r)
        if got == "nan" or abs(float(got) - exact) > 0.0051:
            out.append(f"rank {r}: reported {got}, exact {exact:.4f} ({len(comm & comp)}/{len(comm)})")
    return out


def features(case, obs):
    f = G.features(case)
    f["overlap_nonzero"] = int(any(v not in (0, "nan") for v in obs["canon"].values())) if "raises" not in obs["canon"] else 0
    f["sub_microsecond"] = int(bool((case.get("params") or {}).get("frac")))
    return f


def nontrivial(case, obs, f) -> bool:
    return G.nontrivial(f) and f["dev_events"] >= 2


def sample(case, obs):
    r0 = sorted(obs["rows"])[0]
    return {"rank0_device_intervals": [(x[1], x[1] + x[2], x[9][:20]) for x in C.dev_rows(obs["rows"][r0])][:12],
            "impl_pct": obs["canon"]}


def corpus_cases():
    return C.corpus_for("C07")
