"""C15 — launch statistics list every launch/activity pair with exact durations and delay."""
from __future__ import annotations

from typing import Any, Dict, List

from harness import gen as G
from harness import htaio
from harness.props import common as C

N_CASES = {"quick": 240, "thorough": 2400}
SHRINK = True
KERNEL_LAUNCH = {"cudaLaunchKernel", "cudaLaunchKernelExC", "runFunction - job_prep_and_submit_for_execution"}
MEM_LAUNCH = {"cudaMemsetAsync", "cudaMemcpyAsync"}
ASSUMPTIONS = [
    "well-formed trace: a correlation id pairs at most one host call with at most one device activity; launch names occur on host rows only",
    "rows are compared as a multiset (row order is not part of the property)",
]


def gen(rng, tier, no, wide=False):
    force = {"memcpy_rate": rng.choice([0.2, 0.4, 0.5])}
    if rng.random() < 0.5:
        force.update({"nranks": rng.choice([2, 3]), "corr_start": rng.choice([1, 100])})   # ids collide across ranks
    if rng.random() < 0.1:
        force.update({"nranks": rng.choice([2, 3]), "filler": -90})        # many rank-specific names: global symbol ids beyond 127
    case = G.gen_case(rng, **force)
    # the ranks in the order the caller lists them (not necessarily ascending)
    case["params"] = {"include_memory": rng.random() < 0.5,
                      "ranks": rng.sample(sorted(case["ranks"]), rng.randint(1, len(case["ranks"])))}
    return case


def wf(case) -> bool:
    return "params" in case and all(r in case["ranks"] or str(r) in case["ranks"] for r in case["params"]["ranks"])


def observe(case):
    p = case["params"]
    ta, files = C.load_case(case)
    try:
        rows = {r: htaio.rows_of(ta.t, r) for r in p["ranks"]}
        try:
            res = ta.get_cuda_kernel_launch_stats(ranks=list(p["ranks"]), include_memory_events=p["include_memory"],
                                                  visualize=False)
            canon = {int(r): sorted([C.num(a), C.num(b), C.num(c), C.num(d)] for a, b, c, d in
                                    df[["correlation", "cpu_duration", "gpu_duration", "launch_delay"]].itertuples(index=False))
                     for r, df in res.items()}
        except Exception as e:  # noqa: BLE001
            canon = {"raises": C.exc_name(e)}
        return {"rows": rows, "canon": canon}
    finally:
        htaio.remove_case_dir(files)


def model(drv, case, obs):
    return {r: sorted(drv.call({"op": "c15", "rows": rows, "with_memory": case["params"]["include_memory"]})["rows"])
            for r, rows in obs["rows"].items()}


def compare(obs, mod) -> List[str]:
    c = obs["canon"]
    if "raises" in c:
        return [f"impl raises {c['raises']}"]
    out = []
    for r, m in mod.items():
        if c.get(r) != m:
            a, b = c.get(r) or [], m
            out.append(f"rank {r}: impl-only rows {[x for x in a if x not in b][:4]} model-only rows {[x for x in b if x not in a][:4]}")
    if set(c) != set(mod):
        out.append(f"ranks impl={sorted(c)} model={sorted(mod)}")
    return out


def oracle(case, obs) -> List[str]:
    """Independent statement: one row per linked pair (index_correlation), exact durations, delay."""
    c = obs["canon"]
    if "raises" in c:
        return [f"analysis raised {c['raises']}"]
    names = KERNEL_LAUNCH | (MEM_LAUNCH if case["params"]["include_memory"] else set())
    out = []
    for r, rows in obs["rows"].items():
        rows = C.relink(rows)      # links by correlation id, not the implementation's column
        by_idx = {x[0]: x for x in rows}
        exp = []
        for h in rows:
            # linked pair: host launch call of a selected kind whose link points at a device activity
            if h[5] == -1 and h[9] in names and h[7] > 0 and h[7] in by_idx:
                d = by_idx[h[7]]
                if d[5] != -1 and d[7] == h[0]:
                    exp.append([h[6], h[2], d[2], max(0, d[1] - (h[1] + h[2]))])
        if sorted(exp) != c.get(r):
            got = c.get(r) or []
            out.append(f"rank {r}: missing {[x for x in exp if x not in got][:4]} unexpected {[x for x in got if x not in exp][:4]}")
    return out


def features(case, obs):
    f = G.features(case)
    c = obs["canon"]
    if "raises" not in c:
        f["pairs"] = sum(len(v) for v in c.values())
        f["clipped_delay"] = int(any(x[3] == 0 for v in c.values() for x in v))
        f["positive_delay"] = int(any(x[3] > 0 for v in c.values() for x in v))
    return f


def nontrivial(case, obs, f) -> bool:
    return f.get("pairs", 0) >= 1


def sample(case, obs):
    return {"params": case["params"], "impl_rows_first": {k: v[:5] for k, v in list(obs["canon"].items())[:1]} if "raises" not in obs["canon"] else obs["canon"]}


def corpus_cases():
    return C.corpus_for("C15")
