"""C08 — critical-path graph is a forward-in-time DAG with typed, non-negative edges."""
from __future__ import annotations

from typing import Any, Dict, List

from harness import gen as G
from harness import htaio
from harness.props import common as C
from harness.props import cpcommon as CP

N_CASES = {"quick": 260, "thorough": 2000}
SHRINK = True
ASSUMPTIONS = [
    "causally consistent well-formed trace from the simulator: device work starts no earlier than its launch call starts, blocking synchronisation calls return no earlier than the work they wait for, streams are FIFO",
    "the loaded frame (links, iteration) and the queue-length series (C14) are inputs of the model",
    "node ids are not compared: nodes are identified by (event, start/end)",
    "the analysed rank has, after loading, at least one launch call linked to a device activity; without one the analysis has no queue-length input and stops with a TypeError (counted as outside the quantifier)",
]


def gen(rng, tier, no, wide=False):
    return CP.gen_cp_case(rng)


def wf(case) -> bool:
    return CP.wf_cp(case)


def observe(case):
    ta, files, g, ok = CP.run_cp(case)
    try:
        rows = htaio.rows_of(ta.t, case["params"]["rank"])
        waits = htaio.waits_of(ta.t, case["params"]["rank"])
        canon: Dict[str, Any] = {"ok": ok}
        if g is not None:
            canon.update(CP.dump_graph(g))
            canon["clipped"] = sorted(int(i) for i in g.trace_df["index"])
        return {"rows": rows, "waits": waits, "canon": canon}
    finally:
        htaio.remove_case_dir(files)


def in_domain(case, obs) -> bool:
    # the window must contain at least one analysed event (otherwise there is no path to speak of)
    c = obs["canon"]
    if c.get("nodes"):
        return True
    if isinstance(c["ok"], str) and c["ok"].startswith("degenerate"):
        return False
    return not (isinstance(c["ok"], str) and "AssertionError" in c["ok"] and "critical_path" in c["ok"])


def _inst(p):
    i = p["instance"]
    if i is None:
        return 0, 0
    if isinstance(i, (list, tuple)):
        return i[0], i[1]
    return i, i


def model(drv, case, obs):
    p = case["params"]
    a, b = _inst(p)
    return drv.call({"op": "c08", "rows": obs["rows"], "annotation": p["annotation"], "i_start": a, "i_end": b,
                     "zero_launch": p["zero_weight_launch"], "waits": obs.get("waits", [])})


def compare(obs, mod) -> List[str]:
    c = obs["canon"]
    if "error" in mod:
        return [f"model {mod}"]
    if mod.get("window") is None:
        return [] if not c.get("nodes") else ["model finds no window but the implementation built a graph"]
    if not c.get("nodes") and not mod["nodes"]:
        return []
    if "nodes" not in c:
        return [f"impl {c['ok']}; model built {len(mod['nodes'])} nodes"]
    out = []
    if c["clipped"] != sorted(mod["clipped"]):
        out.append(f"clipped events impl-only {sorted(set(c['clipped']) - set(mod['clipped']))[:5]} model-only {sorted(set(mod['clipped']) - set(c['clipped']))[:5]}")
    a = sorted(x[:3] for x in c["nodes"])
    b = sorted(mod["nodes"])
    if a != b:
        out.append(f"nodes differ: impl-only {[x for x in a if x not in b][:4]} model-only {[x for x in b if x not in a][:4]}")
    ea = sorted((e[:7] for e in c["edges"]), key=str)
    eb = sorted(mod["edges"], key=str)
    if ea != eb:
        out.append(f"edges differ: impl-only {[x for x in ea if x not in eb][:4]} model-only {[x for x in eb if x not in ea][:4]}")
    return out


def spec_check(drv, case, obs) -> List[str]:
    """The proved checkers (Spec/C08.lean), evaluated in Lean on the implementation's own graph."""
    c = obs["canon"]
    if not c.get("edges"):
        return []
    if c.get("rank") is None:
        return ["networkx finds no topological order for the implementation's graph (it has a cycle)"]
    ans = drv.call({"op": "c08.check", "rows": obs["rows"], "edges": [e[:6] for e in c["edges"]], "rank": c["rank"]})
    return [f"Spec.C08.{k} rejects the implementation's graph" for k in ("topo", "weights", "forward", "types") if ans.get(k) is not True]


def _event_src_candidates(obs, by, rec_corr, wstream, dev_pid):
    """Kernels that may stand for 'the work the event recorded by call `rec_corr` waits for': the activity of the last
    linked launch call that started no later than the cudaEventRecord call and put work on that stream of that device
    (at equal start times either order is accepted)."""
    recs = [x for x in obs["rows"] if x[9] == "cudaEventRecord" and x[6] == rec_corr]
    if len(recs) != 1:
        return set()
    rec = recs[0]
    ls = [x for x in obs["rows"] if x[9] in LAUNCHES and x[7] > 0 and x[7] in by and by[x[7]][5] == wstream and by[x[7]][3] == dev_pid and by[x[7]][7] > 0 and x[1] <= rec[1]]
    if not ls:
        return set()
    last = max(x[1] for x in ls)
    return {x[7] for x in ls if x[1] == last}


def _sync_justified(obs, by, se, de, dst_is_start):
    """A synchronisation edge must be justified by a synchronisation record of the trace: Stream Sync / Context Sync
    (a kernel of the awaited stream -> the end of the blocking call), Event Sync (the kernel the recorded event waits
    for -> the end of cudaEventSynchronize), Stream Wait Event (that kernel -> the start of the next kernel the calling
    thread puts on the waiting stream). Returns a reason when no record justifies the edge."""
    waits = {w[0]: (w[1], w[2]) for w in obs.get("waits", [])}
    src, dst = by[se], by[de]
    if not dst_is_start:
        # records linked to the host call that waited
        recs = [x for x in obs["rows"] if x[10] == "cuda_sync" and x[7] == de]
        for r in recs:
            if r[9] == "Context Sync":
                return None
            if r[9] == "Stream Sync" and r[5] == src[5]:
                return None
            if r[9] == "Event Sync":
                ws, wc = waits.get(r[0], (-1, -1))
                if ws > -1 and se in _event_src_candidates(obs, by, wc, ws, r[3]):
                    return None
        return f"no synchronisation record of host call {de} waits for kernel {se} (stream {src[5]})"
    for r in obs["rows"]:
        if r[9] != "Stream Wait Event" or r[5] != dst[5] or r[7] <= 0 or r[7] not in by:
            continue
        ws, wc = waits.get(r[0], (-1, -1))
        if ws <= -1 or se not in _event_src_candidates(obs, by, wc, ws, r[3]):
            continue
        call = by[r[7]]
        nxt = [x for x in obs["rows"] if x[9] in LAUNCHES and x[7] > 0 and x[7] in by and by[x[7]][5] == r[5] and by[x[7]][7] > 0
               and x[3] == call[3] and x[4] == call[4] and x[1] >= call[1] and x[0] != call[0]]
        if nxt:
            first = min(x[1] for x in nxt)
            if de in {x[7] for x in nxt if x[1] == first}:
                return None
    return f"no Stream Wait Event record makes kernel {de} wait for kernel {se}"


NODE_CATS = {"cpu_op", "cuda_runtime", "cuda_driver"}
LAUNCHES = {"cudaMemsetAsync", "cudaMemcpyAsync", "cudaLaunchKernel", "cudaLaunchKernelExC", "cuLaunchKernel"}


def oracle(case, obs) -> List[str]:
    c = obs["canon"]
    if c["ok"] is not True:
        return [f"critical-path analysis did not succeed: {c['ok']}"]
    by = {x[0]: x for x in obs["rows"]}
    out: List[str] = []
    # one start and one end node per analysed event, carrying its times
    seen: Dict[Any, int] = {}
    for ev, st, ts, _ in c["nodes"]:
        seen[(ev, st)] = seen.get((ev, st), 0) + 1
        x = by.get(ev)
        if x is None or ts != (x[1] if st else x[1] + x[2]):
            out.append(f"node ({ev},{'start' if st else 'end'}) has ts {ts}, event has [{x[1] if x else '?'},{x[1] + x[2] if x else '?'}]")
    evs = {ev for ev, _, _, _ in c["nodes"]}
    for ev in evs:
        if seen.get((ev, True), 0) != 1 or seen.get((ev, False), 0) != 1:
            out.append(f"event {ev} has {seen.get((ev, True), 0)} start and {seen.get((ev, False), 0)} end nodes")
    analysed = {i for i in c["clipped"] if by[i][10] in NODE_CATS or (by[i][5] != -1 and by[i][7] >= 0)}
    if analysed != evs:
        out.append(f"analysed events without nodes {sorted(analysed - evs)[:5]}, nodes of other events {sorted(evs - analysed)[:5]}")
    tsof = {(ev, st): ts for ev, st, ts, _ in c["nodes"]}
    adj: Dict[Any, List[Any]] = {}
    for e in c["edges"]:
        se, ss, de, ds, w, ty, attr, nxw = e[:8]
        a, b = tsof[(se, ss)], tsof[(de, ds)]
        adj.setdefault((se, ss), []).append((de, ds))
        if b < a:
            out.append(f"edge {e[:6]} points backward in time ({a} -> {b})")
        if ty in ("dep", "sync"):
            if w != 0:
                out.append(f"edge {e[:6]}: dependency/sync edge with weight {w}")
        elif w not in (b - a, 0):
            out.append(f"edge {e[:6]}: weight {w} is neither {b - a} nor 0")
        elif w == 0 and b - a != 0:
            ok0 = (ty == "launch" and case["params"]["zero_weight_launch"]) or (ty == "op" and not ds and by[de][9] in ("cudaDeviceSynchronize", "cudaStreamSynchronize", "cudaEventQuery", "cudaEventSynchronize", "cudaMemcpy", "cudaMemcpyAsync"))
            if not ok0:
                out.append(f"edge {e[:6]}: weight 0 on a span of {b - a} that is neither a blocking call nor a zero-weight launch edge")
        if w < 0 or (nxw != "nan" and nxw < 0):
            out.append(f"edge {e[:6]}: negative weight")
        xs, xd = by[se], by[de]
        if ty == "launch":
            if not (xs[5] == -1 and ss and ds and xd[5] != -1 and xd[7] == se and xs[7] == de):
                out.append(f"launch-delay edge {e[:6]} does not run from a launch call's start to the start of the kernel it launched")
        if ty == "kk":
            if not (not ss and ds and xs[5] == xd[5] and xs[5] != -1):
                out.append(f"kernel-kernel edge {e[:6]} does not join the end of a kernel to the start of a kernel of the same stream")
            else:
                between = [k for k in obs["rows"] if k[5] == xs[5] and k[0] in evs and k[10] != "cuda_sync" and (xs[1], xs[0]) < (k[1], k[0]) < (xd[1], xd[0]) and k[0] not in (se, de) and k[1] >= xs[1] + xs[2] and k[1] + k[2] <= xd[1] and k[2] > 0]
                if between:
                    out.append(f"kernel-kernel edge {e[:6]} skips kernel {between[0][0]} of the same stream")
        if ty == "sync":
            if not (not ss and xs[5] != -1 and ((not ds and xd[5] == -1) or (ds and xd[5] != -1))):
                out.append(f"sync edge {e[:6]} does not run from a kernel's end to a host call's end or a kernel's start")
            else:
                why = _sync_justified(obs, by, se, de, ds)
                if why:
                    out.append(f"sync edge {e[:6]}: {why}")
    # acyclic
    color: Dict[Any, int] = {}

    def cyc(n):
        stack = [(n, iter(adj.get(n, [])))]
        color[n] = 1
        while stack:
            node, it = stack[-1]
            for m in it:
                if color.get(m, 0) == 1:
                    return True
                if color.get(m, 0) == 0:
                    color[m] = 1
                    stack.append((m, iter(adj.get(m, []))))
                    break
            else:
                color[node] = 2
                stack.pop()
        return False
    for n in list(tsof):
        if color.get(n, 0) == 0 and cyc(n):
            out.append("the graph has a cycle")
            break
    return out[:10]


def features(case, obs):
    f = G.features(case)
    c = obs["canon"]
    if c.get("edges"):
        for ty in ("op", "dep", "launch", "kk", "sync"):
            f["edge_" + ty] = int(any(e[5] == ty for e in c["edges"]))
        by = {x[0]: x for x in obs["rows"]}
        f["edge_sync_gpu_to_gpu"] = int(any(e[5] == "sync" and e[3] for e in c["edges"]))
        f["edge_sync_event_synchronize"] = int(any(e[5] == "sync" and not e[3] and by[e[2]][9] == "cudaEventSynchronize" for e in c["edges"]))
        f["event_records"] = int(any(x[9] == "cudaEventRecord" for x in obs["rows"]))
        f["stream_wait_records"] = int(any(x[9] == "Stream Wait Event" for x in obs["rows"]))
        f["nodes"] = len(c["nodes"])
        f["zero_weight_launch"] = int(case["params"]["zero_weight_launch"])
        f["window"] = int(case["params"]["annotation"] != "")
    return f


def nontrivial(case, obs, f) -> bool:
    return f.get("nodes", 0) >= 6


def sample(case, obs):
    c = obs["canon"]
    return {"params": case["params"], "ok": c["ok"], "nodes": len(c.get("nodes", [])), "edges_head": [e[:7] for e in c.get("edges", [])[:6]]}


def corpus_cases():
    return C.corpus_for("C08")
