"""C16 — frequent kernel sequences count exactly the kernels launched under each operator."""
from __future__ import annotations

import os
from typing import Any, Dict, List

from harness import gen as G
from harness import htaio
from harness.props import common as C
from harness.props.c02 import wf as wf_c02

N_CASES = {"quick": 220, "thorough": 3000}
SHRINK = True
ASSUMPTIONS = [
    "well-formed trace; the operator name is one that occurs on host events of the analysed rank",
    "kernels of one operator instance that start at the same microsecond may be listed in either order ('start-time order' does not constrain them): such patterns are compared with the tied kernel names sorted",
    "rows with equal count are ordered by the pattern string (Python string order, applied by the harness); top_k only affects the overlay file, which belongs to C20",
    "depends on the call graph (C03, C13) and the links (C02)",
]


BIG_NO = 5      # the case number that carries the size case


def big_case(rng):
    """One host thread, three top-level instances of one operator: two launch three kernels each, one launches more than
    2^15 (sometimes more than 2^16) kernels. Counts, positions and ids beyond the narrow integer types the call graph
    uses for its stack columns. The model driver is quadratic in the number of rows, so this case is decided by the
    independent oracle alone (a test, not a theorem: see DESIGN 0.6, C16-agent8); top_k=1 keeps the overlay small."""
    n = rng.choice([32800, 33000, 40000, 66000])
    op = rng.choice(["model::forward", "Optimizer.step#SGD.step"])
    hp, ht, gp, st = 4242, 4243, 0, rng.choice([7, 20])
    ev: List[Dict[str, Any]] = []
    corr = rng.choice([0, 1000])

    def host(name, ts, dur, cat="cpu_op", args=None):
        e = {"ph": "X", "cat": cat, "name": name, "pid": hp, "tid": ht, "ts": ts, "dur": dur}
        if args:
            e["args"] = args
        ev.append(e)

    def launch(ts, kname, kts, kdur):
        nonlocal corr
        corr += 1
        host("cudaLaunchKernel", ts, 2, "cuda_runtime", {"correlation": corr})
        ev.append({"ph": "X", "cat": "kernel", "name": kname, "pid": gp, "tid": st, "ts": kts, "dur": kdur,
                   "args": {"stream": st, "correlation": corr}})

    t = 1000
    where = rng.choice([0, 1, 2])          # the long instance first, in the middle or last
    for inst in range(3):
        if inst == where:
            host(op, t, 4 * n + 20, "user_annotation" if op.startswith("Profiler") else "cpu_op")
            for i in range(n):
                launch(t + 5 + 4 * i, "elementwise_k", t + 9 + 4 * i, 3)
            t += 4 * n + 100
        else:
            host(op, t, 100, "user_annotation" if op.startswith("Profiler") else "cpu_op")
            host("aten::mm", t + 5, 60)
            for j, k in enumerate(["gemm_a", "gemm_b", "reduce_c"]):
                launch(t + 10 + 10 * j, k, t + 40 + 12 * j, 7)
            t += 200
    case = G.gen_case(rng)
    case["ranks"] = {0: ev}
    case["big"] = n
    case["pre"] = []
    case["ctor"] = None
    case["params"] = {"operator": op, "min_pattern_len": rng.choice([1, 3]), "rank": 0, "top_k": 1, "include_last": True}
    return case


def gen(rng, tier, no, wide=False):
    if no == BIG_NO and not wide:
        return big_case(rng)
    case = C.gen_with(rng, C.every_rank_has_device, launch_rate=rng.choice([0.45, 0.6]), nsteps=rng.choice([0, 1, 2]),
                      max_depth=rng.choice([2, 3, 4]), top_ops=rng.choice([2, 3, 4]),
                      **({"nranks": rng.choice([2, 3]), "filler": -90} if rng.random() < 0.1 else {}))
    if rng.random() < 0.65:
        # small vocabulary so that patterns repeat
        kn = rng.sample(["k_a", "k_b", "ncclKernel_x"], rng.choice([1, 2]))
        on = rng.sample(["aten::mm", "aten::add", "aten::linear"], rng.choice([1, 2, 3]))
        for ev in case["ranks"].values():
            for e in ev:
                if e.get("ph") != "X":
                    continue
                if e.get("cat") == "kernel":
                    e["name"] = rng.choice(kn)
                elif e.get("cat") == "cpu_op":
                    e["name"] = rng.choice(on)
    rank = rng.choice(sorted(case["ranks"]))
    names = sorted({e["name"] for e in case["ranks"][rank] if e.get("ph") == "X" and e.get("cat") in ("cpu_op", "user_annotation")})
    op = rng.choice(names)
    if rng.random() < 0.3:
        op = op[: rng.randint(3, len(op))]          # a substring that may match several names
    case["params"] = {"operator": op, "min_pattern_len": rng.choice([0, 1, 1, 2, 3, 4, 6]), "rank": rank,
                      "top_k": rng.choice([1, 2, 5, 100]), "include_last": rng.random() < 0.7}
    return case


def wf(case) -> bool:
    return "params" in case and wf_c02(case) and case["params"]["rank"] in case["ranks"]


def observe(case):
    p = case["params"]
    ta, files = C.load_case(case, include_last=p["include_last"])
    try:
        rows = htaio.rows_of(ta.t, p["rank"])
        outdir = os.path.join(os.path.dirname(files[p["rank"]]), "out")
        os.makedirs(outdir, exist_ok=True)
        try:
            df = ta.get_frequent_cuda_kernel_sequences(p["operator"], outdir, min_pattern_len=p["min_pattern_len"], rank=p["rank"],
                                                       top_k=p["top_k"], visualize=False)
            canon: Any = [[str(rec[0]), C.num(rec[1]), C.num(rec[2]), C.num(rec[3])] for rec in df.itertuples(index=False)] if len(df) else []
        except Exception as e:  # noqa: BLE001
            import traceback
            canon = {"raises": C.exc_name(e) + ": " + str(e)[:100] + " @ " + traceback.format_exc().splitlines()[-3].strip()[:90]}
        return {"rows": rows, "canon": canon}
    finally:
        htaio.remove_case_dir(files)


def model(drv, case, obs):
    p = case["params"]
    if case.get("big") and len(obs["rows"]) > 20000:
        return {"skipped": "size case: decided by the independent oracle only"}
    return drv.call({"op": "c16", "rows": obs["rows"], "operator": p["operator"], "min_pattern_len": p["min_pattern_len"]})


def _has_ties(rows) -> bool:
    dev = [(x[7], x[1]) for x in rows if x[5] != -1]
    ts = [x[1] for x in rows if x[5] != -1]
    return len(ts) != len(set(ts))


def _canon_table(tab, ties: bool):
    out = []
    for pat, cnt, g, c in tab:
        parts = pat.split("|") if isinstance(pat, str) else list(pat)
        if ties:
            parts = [parts[0]] + sorted(parts[1:])
        out.append(["|".join(parts), cnt, g, c])
    # merge rows that became equal under the tie canonicalisation
    merged: Dict[str, List[int]] = {}
    for pat, cnt, g, c in out:
        m = merged.setdefault(pat, [0, 0, 0])
        m[0] += cnt
        m[1] += g
        m[2] += c
    return sorted(([k] + v for k, v in merged.items()), key=lambda r: (-r[1], r[0]))


def compare(obs, mod) -> List[str]:
    c = obs["canon"]
    if isinstance(c, dict):
        return [f"impl raises {c['raises']}"]
    if "skipped" in mod:
        return []
    if "table" not in mod:
        return [f"model {mod}"]
    ties = _has_ties(obs["rows"])
    a = _canon_table(c, ties)
    b = _canon_table(mod["table"], ties)
    out = []
    if a != b:
        out.append(f"tables differ (ties={ties}): impl-only {[x for x in a if x not in b][:3]} model-only {[x for x in b if x not in a][:3]}")
    if not ties:
        if [x[1] for x in c] != sorted([x[1] for x in c], reverse=True):
            out.append("impl rows are not ordered by descending count")
    return out


def oracle(case, obs) -> List[str]:
    c = obs["canon"]
    if isinstance(c, dict):
        return [f"analysis raised {c['raises']}"]
    rows = C.relink(obs["rows"])      # links by correlation id, not the implementation's column
    p = case["params"]
    by = {x[0]: x for x in rows}
    # tree by time containment per host thread + links, independent of the implementation's stack columns
    host = [x for x in rows if x[5] == -1]

    def encl(a, b):
        if a[0] == b[0] or a[2] <= 0 or (a[3], a[4]) != (b[3], b[4]):
            return False
        if b[2] > 0:
            return a[1] <= b[1] and b[1] + b[2] <= a[1] + a[2] and (not (a[1] == b[1] and a[2] == b[2]) or a[0] < b[0])
        return None
    cands = [x for x in rows if p["operator"] in x[9]]
    if not cands or any(x[5] != -1 or x[2] == 0 for x in cands):
        return []     # the independent oracle only handles positive-duration host operators
    if any(x[2] == 0 for x in host):
        return []     # zero-duration host events: placement is not unique, leave to the model comparison
    if len({(x[3], x[4]) for x in host}) > 1:
        # with a second host thread the call graph attaches that thread's top-level nodes beneath the step /
        # backward annotation (C13), which changes what lies "under" an operator: the per-thread containment
        # oracle does not apply; the model (which implements the attachment) decides these cases
        return []
    depth = {x[0]: sum(1 for a in host if encl(a, x)) for x in cands}
    dmin = min(depth.values())
    exp: Dict[str, List[int]] = {}
    ties = _has_ties(rows)
    for x in cands:
        if depth[x[0]] != dmin:
            continue
        under = [h for h in host if h[0] == x[0] or encl(x, h)]
        ks = [by[h[7]] for h in under if h[7] > 0 and h[7] in by and by[h[7]][5] > 0 and by[h[7]][7] == h[0]]
        if len(ks) < p["min_pattern_len"]:
            continue
        ks.sort(key=lambda k: k[1])
        names = [k[9] for k in ks]
        if ties:
            names = sorted(names)
        pat = "|".join([x[9]] + names)
        e = exp.setdefault(pat, [0, 0, 0])
        e[0] += 1
        e[1] += sum(k[2] for k in ks)
        e[2] += x[2]
    want = sorted(([k] + v for k, v in exp.items()), key=lambda r: (-r[1], r[0]))
    got = _canon_table(c, ties)
    if want != got:
        return [f"expected {want[:3]} got {got[:3]} (operator {p['operator']!r}, min_pattern_len {p['min_pattern_len']}, ties={ties})"]
    return []


def features(case, obs):
    f = G.features(case)
    c = obs["canon"]
    if not isinstance(c, dict):
        f["patterns"] = len(c)
        f["repeated_pattern"] = int(any(x[1] > 1 for x in c))
        f["kernels_in_pattern"] = int(any("|" in x[0] for x in c))
        f["ties"] = int(_has_ties(obs["rows"]))
        f["size_case_over_int16_kernels"] = int(bool(case.get("big")))
    return f


def nontrivial(case, obs, f) -> bool:
    return f.get("kernels_in_pattern", 0) == 1


def sample(case, obs):
    return {"params": case["params"], "table": obs["canon"] if isinstance(obs["canon"], dict) else obs["canon"][:4]}


def corpus_cases():
    return C.corpus_for("C16")
