"""C17 — trace diff counts and durations are exact; change classes partition the names."""
from __future__ import annotations

import copy
import os
from typing import Any, Dict, List

from harness import gen as G
from harness import htaio
from harness.props import common as C

N_CASES = {"quick": 160, "thorough": 1500}
SHRINK = False
ASSUMPTIONS = [
    "traces are handed over as LabeledTrace objects (parse-only frames, as the class does); iteration selections are taken from the ProfilerStep#k names present; rank selections are subsets of the ranks present",
    "the iteration column of the parse-only frame is the model's input (C12 decides it); row order of the table is not compared",
    "shorten_name is modelled in Lean (C17.shortenName) and compared with the Python function on every generated name",
]


def _edit(rng, case):
    t = copy.deepcopy(case)
    for ev in t["ranks"].values():
        i = 0
        while i < len(ev):
            e = ev[i]
            if e.get("ph") == "X" and "dur" in e and not str(e["name"]).startswith("ProfilerStep"):
                r = rng.random()
                if r < 0.1:
                    del ev[i]
                    continue
                if r < 0.2:
                    ev.insert(i + 1, copy.deepcopy(e))
                    i += 1
                elif r < 0.3:
                    e["name"] = rng.choice(["aten::new_op", "void new_kernel<int>(float)", e["name"] + "_v2"])
                elif r < 0.45:
                    e["dur"] = e["dur"] + rng.choice([1, 2, 5])
            i += 1
    return t


def gen(rng, tier, no, wide=False):
    base = G.gen_case(rng, nsteps=rng.choice([1, 2, 3, 3, 4, 5]), nranks=rng.choice([1, 2, 3]))
    same = rng.random() < 0.15
    test = copy.deepcopy(base) if same else _edit(rng, base)
    ranks = sorted(base["ranks"])
    steps = sorted({int(e["name"].split("#")[1]) for ev in base["ranks"].values() for e in ev if str(e.get("name", "")).startswith("ProfilerStep#")})

    def sel(xs):
        r = rng.random()
        if r < 0.3:
            return None
        if r < 0.6:
            return rng.choice(xs)
        return sorted(rng.sample(xs, rng.randint(1, len(xs))))
    case = {"cfg": base["cfg"], "ranks": base["ranks"], "test_ranks": test["ranks"],
            "params": {"control_rank": sel(ranks), "test_rank": sel(ranks), "control_iteration": sel(steps),
                       "test_iteration": sel(steps), "device": rng.choice(["ALL", "CPU", "GPU"]),
                       "short": rng.random() < 0.4, "same_object": same and rng.random() < 0.5, "same": same,
                       "labels": rng.choice([["control", "test"], ["control", "test"], ["run", "run"], ["t1", "t1"], ["a b", "a"]])}}
    # the three documented ways of handing a trace over: a LabeledTrace, a Trace object, a trace directory
    case["params"]["arg_form"] = rng.choice(["labeled", "labeled", "labeled", "trace", "dir"])
    case["params"]["frac"] = rng.random() < 0.1
    case["params"]["rewrite"] = rng.random() < 0.6
    return case


def _norm(sel, all_):
    if sel is None:
        return all_[:1]
    return [sel] if isinstance(sel, int) else list(sel)


def _twin_table(case, p):
    """compare_traces on the same two traces at one eighth of the time scale with HTA_DISABLE_NS_ROUNDING=1:
    name -> [control count, test count, control duration * 8, test duration * 8]."""
    import copy

    def scaled(ranks):
        c2 = copy.deepcopy(ranks)
        for ev in c2.values():
            for e in ev:
                if isinstance(e, dict):
                    if "ts" in e:
                        e["ts"] = e["ts"] / 8.0
                    if "dur" in e:
                        e["dur"] = e["dur"] / 8.0
        return c2
    os.environ["HTA_DISABLE_NS_ROUNDING"] = "1"
    g1 = g2 = None
    try:
        g1 = htaio.write_case({"ranks": scaled(case["ranks"])})
        g2 = htaio.write_case({"ranks": scaled({int(k): v for k, v in case["test_ranks"].items()})})
        from hta.common.trace import Trace
        from hta.trace_diff import DeviceType, LabeledTrace, TraceDiff
        lc = LabeledTrace(label="control", t=Trace(trace_files=dict(g1), trace_dir=os.path.dirname(next(iter(g1.values())))))
        lt = LabeledTrace(label="test", t=Trace(trace_files=dict(g2), trace_dir=os.path.dirname(next(iter(g2.values())))))
        df = TraceDiff.compare_traces(lc, lt, p["control_rank"], p["test_rank"], p["control_iteration"], p["test_iteration"], DeviceType[p["device"]], p["short"])
        return {str(n): [C.num(rec.iloc[0]), C.num(rec.iloc[2]), C.num(float(rec.iloc[1]) * 8), C.num(float(rec.iloc[3]) * 8)] for n, rec in df.iterrows()}
    except Exception as e:  # noqa: BLE001
        return {"raises": "sub-microsecond twin: " + C.exc_name(e) + ": " + str(e)[:100]}
    finally:
        os.environ.pop("HTA_DISABLE_NS_ROUNDING", None)
        for g in (g1, g2):
            if g:
                htaio.remove_case_dir(g)


def observe(case):
    p = case["params"]
    f1 = htaio.write_case({"ranks": case["ranks"]})
    f2 = htaio.write_case({"ranks": {int(k): v for k, v in case["test_ranks"].items()}})
    try:
        htaio.hta_setup()
        from hta.common.trace import Trace
        from hta.trace_diff import DeviceType, LabeledTrace, TraceDiff
        from hta.utils.utils import shorten_name
        lab_c, lab_t = p.get("labels") or ["control", "test"]
        lc = LabeledTrace(label=lab_c, t=Trace(trace_files=dict(f1), trace_dir=os.path.dirname(next(iter(f1.values())))))
        lt = lc if p["same_object"] else LabeledTrace(label=lab_t, t=Trace(trace_files=dict(f2), trace_dir=os.path.dirname(next(iter(f2.values())))))
        crow = {r: htaio.rows_of(lc.t, r) for r in lc.ranks()}
        trow = {r: htaio.rows_of(lt.t, r) for r in lt.ranks()}
        names = sorted({x[9] for rows in list(crow.values()) + list(trow.values()) for x in rows})
        short = {n: shorten_name(n) for n in names}
        canon: Dict[str, Any] = {}
        ac, at = lc, lt
        form = p.get("arg_form", "labeled")
        if form == "trace" and not p["same_object"]:
            ac = Trace(trace_files=dict(f1), trace_dir=os.path.dirname(next(iter(f1.values()))))
            at = Trace(trace_files=dict(f2), trace_dir=os.path.dirname(next(iter(f2.values()))))
        elif form == "dir" and not p["same_object"]:
            ac, at = os.path.dirname(next(iter(f1.values()))), os.path.dirname(next(iter(f2.values())))
        try:
            df = TraceDiff.compare_traces(ac, at, p["control_rank"], p["test_rank"], p["control_iteration"],
                                          p["test_iteration"], DeviceType[p["device"]], p["short"])
            cols = list(df.columns)  # [<control>_counts, <control>_total_duration, <test>_counts, <test>_total_duration, diff_counts, diff_duration, ...]
            canon["table"] = {str(n): [C.num(rec.iloc[0]), C.num(rec.iloc[2]), C.num(rec.iloc[1]), C.num(rec.iloc[3]),
                                        C.num(rec["diff_counts"]), C.num(rec["diff_duration"]),
                                        rec["counts_change_categories"]] for n, rec in df.iterrows()}
            canon["columns_ok"] = (len(cols) == 7 and cols[0].endswith("_counts") and cols[2].endswith("_counts")
                                   and cols[1].endswith("_total_duration") and cols[3].endswith("_total_duration") and cols[0] != cols[2])
            canon["n_rows"] = len(df)
            od = TraceDiff.ops_diff(ac, at, p["control_rank"], p["test_rank"], p["control_iteration"], p["test_iteration"],
                                    DeviceType[p["device"]])
            canon["ops_diff"] = {k: sorted(map(str, v)) for k, v in od.items()}
            if form == "dir" and not p["same_object"] and p.get("rewrite"):
                # the same directory name again after its trace files were overwritten in place with the control's: what is
                # compared is what the directory holds now, so this is a comparison of a trace with itself
                import shutil
                for r, src in f1.items():
                    if r in f2:
                        shutil.copyfile(src, f2[r])
                if set(f1) == set(f2):
                    d3 = TraceDiff.compare_traces(ac, at, p["control_rank"], p["control_rank"], p["control_iteration"], p["control_iteration"], DeviceType[p["device"]], p["short"])
                    canon["rewritten_self"] = [int((d3["diff_counts"] != 0).sum()), int((d3["diff_duration"] != 0).sum()),
                                               sorted(set(map(str, d3["counts_change_categories"])))]
        except Exception as e:  # noqa: BLE001
            canon = {"raises": C.exc_name(e) + ": " + str(e)[:160]}
        if p.get("frac") and "raises" not in canon:
            canon["twin"] = _twin_table(case, p)
        # the iterations of a trace: the numbers of its ProfilerStep#k annotations in ascending order, read off the rows
        # (not taken from the implementation: the default selection "first iteration" depends on that order)
        def its(rows_by_rank):
            return sorted({int(x[9].split("#")[1]) for rows in rows_by_rank.values() for x in rows
                           if x[9].startswith("ProfilerStep#") and x[9].split("#")[1].isdigit()})
        return {"control": crow, "test": trow, "short": short, "canon": canon,
                "iters_c": its(crow), "iters_t": its(trow), "impl_iters": [list(lc.iterations()), list(lt.iterations())]}
    finally:
        htaio.remove_case_dir(f1)
        htaio.remove_case_dir(f2)


def _select(rows_by_rank, sel):
    out = []
    for r in _norm(sel, sorted(rows_by_rank)):
        out += rows_by_rank[r]
    return out


def model(drv, case, obs):
    p = case["params"]
    ans = drv.call({"op": "c17", "control": _select(obs["control"], p["control_rank"]), "test": _select(obs["test"], p["test_rank"]),
                    "control_iterations": _norm(p["control_iteration"], obs["iters_c"]),
                    "test_iterations": _norm(p["test_iteration"], obs["iters_t"]), "short": p["short"], "device": p["device"]})
    ans2 = drv.call({"op": "c17", "control": _select(obs["control"], p["control_rank"]), "test": _select(obs["test"], p["test_rank"]),
                     "control_iterations": _norm(p["control_iteration"], obs["iters_c"]),
                     "test_iterations": _norm(p["test_iteration"], obs["iters_t"]), "short": False, "device": p["device"]})
    sh = drv.call({"op": "shorten", "names": list(obs["short"])})["short"]
    return {"table": {r[0]: r[1:] for r in ans["rows"]}, "classes": {r[0]: r[7] for r in ans2["rows"]},
            "short": dict(zip(obs["short"], sh))}


def compare(obs, mod) -> List[str]:
    c = obs["canon"]
    out = []
    for n, s in obs["short"].items():
        if mod["short"][n] != s:
            out.append(f"shorten_name({n!r}) impl={s!r} model={mod['short'][n]!r}")
    if "raises" in c:
        return out + [f"impl raises {c['raises']}"]
    if set(c["table"]) != set(mod["table"]):
        out.append(f"names impl-only {sorted(set(c['table']) - set(mod['table']))[:4]} model-only {sorted(set(mod['table']) - set(c['table']))[:4]}")
    for n, m in mod["table"].items():
        i = c["table"].get(n)
        if i is not None and i[:6] != m[:6]:
            out.append(f"{n!r}: impl={i[:6]} model={m[:6]}")
    if c["n_rows"] != len(mod["table"]):
        out.append(f"{c['n_rows']} rows vs {len(mod['table'])} names")
    exp: Dict[str, List[str]] = {k: [] for k in ("added", "deleted", "increased", "decreased", "unchanged")}
    for n, k in mod["classes"].items():
        exp.setdefault(k, []).append(n)
    for k in exp:
        if sorted(exp[k]) != c["ops_diff"].get(k):
            out.append(f"ops_diff[{k}] impl={c['ops_diff'].get(k)[:5]} model={sorted(exp[k])[:5]}")
    return out


def oracle(case, obs) -> List[str]:
    c = obs["canon"]
    p = case["params"]
    if "raises" in c:
        return [f"comparison raised {c['raises']}"]
    out = []
    rs = c.get("rewritten_self")
    if rs is not None and (rs[0] or rs[1] or any(x != "=" for x in rs[2])):
        out.append(f"after the test directory's files were overwritten in place with the control's, comparing the two directories still reports differences: {rs}")
    tw = c.get("twin")
    if tw is not None:
        if "raises" in tw:
            out.append(tw["raises"])
        else:
            exp = {n: [v[0], v[1], v[2], v[3]] for n, v in c["table"].items()}
            if tw != exp:
                bad = sorted(n for n in set(tw) | set(exp) if tw.get(n) != exp.get(n))[:3]
                out.append(f"at one eighth of the time scale (HTA_DISABLE_NS_ROUNDING=1) counts and durations times 8 differ for {[(n, tw.get(n), exp.get(n)) for n in bad]}")

    def summ(rows_by_rank, rsel, isel, iters):
        its = set(_norm(isel, iters))
        d: Dict[str, List[int]] = {}
        for x in _select(rows_by_rank, rsel):
            if x[8] in its and (p["device"] == "ALL" or (p["device"] == "CPU") == (x[5] == -1)):
                k = obs["short"][x[9]] if p["short"] else x[9]
                e = d.setdefault(k, [0, 0])
                e[0] += 1
                e[1] += x[2]
        return d
    cs = summ(obs["control"], p["control_rank"], p["control_iteration"], obs["iters_c"])
    ts = summ(obs["test"], p["test_rank"], p["test_iteration"], obs["iters_t"])
    for n in set(cs) | set(ts) | set(c["table"]):
        a, b = cs.get(n, [0, 0]), ts.get(n, [0, 0])
        got = c["table"].get(n)
        exp = [a[0], b[0], a[1], b[1], b[0] - a[0], b[1] - a[1]]
        if got is None or got[:6] != exp:
            out.append(f"{n!r}: reported {got}, exact {exp}")
    if not c.get("columns_ok", True):
        out.append("comparison table does not have distinct control/test count and duration columns")
    od = c["ops_diff"]
    allnames = [n for v in od.values() for n in v]
    if len(allnames) != len(set(allnames)):
        out.append("change classes overlap")
    if not p["short"] and set(allnames) != set(c["table"]):
        out.append(f"change classes do not cover the names: {sorted(set(c['table']) ^ set(allnames))[:5]}")
    if p["same"] and p["control_rank"] == p["test_rank"] and p["control_iteration"] == p["test_iteration"]:
        if any(od[k] for k in ("added", "deleted", "increased", "decreased")) or any(v[4] != 0 or v[5] != 0 for v in c["table"].values()):
            out.append("self comparison reports changes")
    return out[:10]


def features(case, obs):
    f = {"same": int(case["params"]["same"]), "same_object": int(case["params"]["same_object"]),
         "short": int(case["params"]["short"]), "multi_rank_sel": int(isinstance(case["params"]["control_rank"], list) and len(case["params"]["control_rank"]) > 1),
         "dev_" + case["params"]["device"]: 1, "arg_" + case["params"].get("arg_form", "labeled"): 1}
    c = obs["canon"]
    if "raises" not in c:
        for k, v in c["ops_diff"].items():
            f["class_" + k] = int(len(v) > 0)
        f["rows"] = c["n_rows"]
    return f


def nontrivial(case, obs, f) -> bool:
    return f.get("rows", 0) >= 2


def sample(case, obs):
    c = obs["canon"]
    return {"params": case["params"], "table_head": dict(list(c["table"].items())[:4]) if "raises" not in c else c}


def corpus_cases():
    return C.corpus_for("C17")
