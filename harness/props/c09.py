"""C09 — the reported critical path is a maximum-weight path of the graph."""
from __future__ import annotations

import os
from typing import Any, Dict, List

from harness import gen as G
from harness import htaio
from harness.props import common as C
from harness.props import cpcommon as CP

N_CASES = {"quick": 240, "thorough": 1800}
SHRINK = True
ASSUMPTIONS = [
    "graphs come from successful analyses of causally consistent well-formed traces (C08) and from re-weighted copies of them (1-5 edges given new non-negative weights through cp_graph.edges[u,v]['weight'], then critical_path() again)",
    "networkx.dag_longest_path is not modelled: its answer is validated per run by the proved checker (potential certificate computed by the Lean DP over networkx's topological order)",
    "the makespan clause is checked on the unmodified graph only (re-weighting may exceed it by design)",
    "a re-weighting that leaves no positive-weight edge is outside the quantifier: every path (also a single node) then weighs 0 and the tool's own assertion 'at least two path nodes' fires",
]


def gen(rng, tier, no, wide=False):
    case = CP.gen_cp_case(rng)
    case["params"]["reweight"] = [[rng.random(), rng.choice([0, 1, 5, 50, 500])] for _ in range(rng.choice([0, 1, 2, 3, 5]))]
    case["params"]["copy"] = rng.random() < 0.5
    return case


def wf(case) -> bool:
    return CP.wf_cp(case) and "reweight" in case["params"]


def _snap(g, weights=None) -> Dict[str, Any]:
    """`weights`: the weights the what-if step assigned (the graph the user asked about); the graph's own attributes
    after `critical_path()` are reported separately, so that a recomputation that silently restores old weights shows."""
    import networkx as nx
    edges = [[int(u), int(v), C.num(g.edges[u, v]["weight"] if weights is None else weights[(u, v)])] for u, v in g.edges]
    order = [int(n) for n in nx.topological_sort(g)]
    path = [int(n) for n in g.critical_path_nodes]
    es = sorted([int(e.begin), int(e.end)] for e in g.critical_path_edges_set)
    evs = sorted(int(x) for x in g.critical_path_events_set)
    ts = [[int(n.idx), int(n.ts)] for n in g.node_list]
    evof = {int(n.idx): int(n.ev_idx) for n in g.node_list}
    return {"edges": edges, "order": order, "path": path, "edge_set": es, "event_set": evs, "ts": ts,
            "expected_edge_set": sorted([a, b] for a, b in zip(path, path[1:])), "expected_event_set": sorted({evof[n] for n in path})}


def observe(case):
    ta, files, g, ok = CP.run_cp(case)
    try:
        canon: Dict[str, Any] = {"ok": ok, "rounds": []}
        if g is not None and ok is True:
            canon["rounds"].append(_snap(g))
            el = sorted(g.edges)
            for frac, w in case["params"]["reweight"]:
                if not el:
                    break
                u, v = el[int(frac * len(el)) % len(el)]
                g.edges[u, v]["weight"] = w
            if case["params"]["reweight"]:
                intended = {(u, v): g.edges[u, v]["weight"] for u, v in g.edges}
                try:
                    ok2 = g.critical_path()
                    s = _snap(g, intended)
                    s["ok"] = bool(ok2)
                    s["weights_changed_by_recompute"] = [[int(u), int(v), C.num(intended[(u, v)]), C.num(g.edges[u, v]["weight"])]
                                                         for u, v in g.edges if C.num(g.edges[u, v]["weight"]) != C.num(intended[(u, v)])][:5]
                    canon["rounds"].append(s)
                    if case["params"].get("copy") and ok2:
                        # a copy of the re-weighted graph (saved and restored): its reported path must be a maximum-weight
                        # path of the copy's own weights
                        from hta.analyzers.critical_path_analysis import restore_cpgraph
                        out_dir = os.path.join(os.path.dirname(next(iter(files.values()))), "c09_copy")
                        try:
                            cp = restore_cpgraph(g.save(out_dir), ta.t, case["params"]["rank"])
                            sc = _snap(cp)
                            sc["ok"], sc["copy"] = True, True
                            canon["rounds"].append(sc)
                        except Exception as e2:  # noqa: BLE001
                            canon["rounds"].append({"raises": "copy: " + C.exc_name(e2) + ": " + str(e2)[:80], "degenerate_all_zero": False})
                except Exception as e:  # noqa: BLE001
                    # a what-if that leaves no positive-weight edge has no critical path to speak of (every path,
                    # including a single node, weighs 0): the tool's assertion "at least two path nodes" fires.
                    # That degenerate re-weighting is outside the quantifier; any other failure is reported.
                    allzero = all(g.edges[u, v]["weight"] == 0 for u, v in g.edges)
                    canon["rounds"].append({"raises": C.exc_name(e) + ": " + str(e)[:80], "degenerate_all_zero": bool(allzero)})
        return {"canon": canon}
    finally:
        htaio.remove_case_dir(files)


def in_domain(case, obs) -> bool:
    return obs["canon"]["ok"] is True


def model(drv, case, obs):
    out = []
    for r in obs["canon"]["rounds"]:
        if "raises" in r:
            out.append(r)
            continue
        out.append(drv.call({"op": "c09", "edges": r["edges"], "order": r["order"], "path": r["path"], "ts": r["ts"]}))
    return out


def compare(obs, mod) -> List[str]:
    return [f"model {m}" for m in mod if "error" in m]


def spec_check(drv, case, obs) -> List[str]:
    out = []
    for i, r in enumerate(obs["canon"]["rounds"]):
        tag = "original graph" if i == 0 else ("restored copy of the re-weighted graph" if r.get("copy") or str(r.get("raises", "")).startswith("copy:") else "re-weighted graph")
        if "raises" in r:
            if not (i > 0 and r.get("degenerate_all_zero") and r["raises"].startswith("AssertionError")):
                out.append(f"{tag}: critical_path() {r['raises']}")
            continue
        m = drv.call({"op": "c09", "edges": r["edges"], "order": r["order"], "path": r["path"], "ts": r["ts"]})
        if not m["is_path"]:
            out.append(f"{tag}: reported node sequence is not a path of the graph")
        if not m["potential_ok"]:
            out.append(f"{tag}: (checker) the DP potential is not a valid certificate for networkx's order")
        elif m["weight"] != m["best"]:
            out.append(f"{tag}: reported path weighs {m['weight']}, a path of weight {m['best']} exists")
        if i == 0 and m["span_bounded"] and not m["within_makespan"]:
            out.append(f"{tag}: path weight {m['weight']} exceeds the time from its first to its last node")
        if i == 0:
            tss = [t for _, t in r["ts"]]
            if tss and m["weight"] > max(tss) - min(tss):
                out.append(f"{tag}: path weight {m['weight']} exceeds the makespan of the analysed window ({max(tss) - min(tss)})")
        if r["edge_set"] != r["expected_edge_set"] or m["n_path_edges"] != len(r["path"]) - 1:
            out.append(f"{tag}: critical_path_edges_set is not the set of edges between consecutive path nodes")
        if r["event_set"] != r["expected_event_set"]:
            out.append(f"{tag}: critical_path_events_set is not the set of events of the path's nodes")
    return out


def oracle(case, obs) -> List[str]:
    """Independent longest-path computation (memoised DFS) on the dumped edge list."""
    out = []
    import sys
    sys.setrecursionlimit(10000)
    for i, r in enumerate(obs["canon"]["rounds"]):
        if "raises" in r:
            continue
        adj: Dict[int, List[Any]] = {}
        for u, v, w in r["edges"]:
            adj.setdefault(u, []).append((v, w))
        memo: Dict[int, int] = {}

        def lp(u):
            if u in memo:
                return memo[u]
            memo[u] = max([0] + [w + lp(v) for v, w in adj.get(u, [])])
            return memo[u]
        nodes = {n for n, _ in r["ts"]}
        bestw = max([lp(n) for n in nodes] + [0])
        wmap = {(u, v): w for u, v, w in r["edges"]}
        pw = sum(wmap.get((a, b), 0) for a, b in zip(r["path"], r["path"][1:]))
        if any((a, b) not in wmap for a, b in zip(r["path"], r["path"][1:])):
            out.append(f"round {i}: reported path uses a non-edge")
        if pw != bestw:
            out.append(f"round {i}: reported path weighs {pw}, maximum over all paths is {bestw}"
                       + (f" (recomputing changed the weights that had been set: {r['weights_changed_by_recompute'][:2]})" if r.get("weights_changed_by_recompute") else ""))
    return out


def features(case, obs):
    f = G.features(case)
    rs = obs["canon"]["rounds"]
    f["rounds"] = len(rs)
    f["reweighted"] = int(len(rs) > 1)
    if rs and "path" in rs[0]:
        f["path_len"] = len(rs[0]["path"])
        f["path_changed_after_reweight"] = int(len(rs) > 1 and "path" in rs[1] and rs[1]["path"] != rs[0]["path"])
    return f


def nontrivial(case, obs, f) -> bool:
    return f.get("path_len", 0) >= 4


def sample(case, obs):
    rs = obs["canon"]["rounds"]
    return {"params": case["params"], "path": rs[0]["path"][:12] if rs and "path" in rs[0] else None, "n_edges": len(rs[0]["edges"]) if rs and "edges" in rs[0] else 0}


def corpus_cases():
    return C.corpus_for("C09")
