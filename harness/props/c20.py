"""C20 — trace files written by the tool preserve every source event."""
from __future__ import annotations

import contextlib
import copy
import gzip
import io
import json
import os
from typing import Any, Dict, List

from harness import gen as G
from harness import htaio
from harness.props import common as C
from harness.props import cpcommon as CP

N_CASES = {"quick": 150, "thorough": 1500}
SHRINK = True
ASSUMPTIONS = [
    "JSON and gzip encoding/decoding (Python's json and gzip modules) are trusted: events are compared after decoding, as JSON values, position by position",
    "rank discovery is a text scan for the first '\"rank\": N': generated files carry distributedInfo before traceEvents (as Kineto and HTA's own writer emit it); files with a 'rank' argument on an event placed before the metadata are outside the generated domain",
    "the content of the appended counter events is C14's subject; here they only have to be counter events placed after the untouched source events",
    "overlay cases come from successful critical-path analyses of causally consistent well-formed traces",
]
COMBOS = [(oc, sa, z) for oc in (False, True) for sa in (False, True) for z in (False, True)]
KEEP_CATS = ("user_annotation", "python_function")


def gen(rng, tier, no, wide=False):
    r = rng.random()
    if r < 0.45:
        case = CP.gen_cp_case(rng)
        # what-if first (a third of the overlay cases): the weight of the heaviest critical span edges is cut and the
        # path recomputed on the same graph object before anything is drawn
        case["params"].update({"mode": "overlay", "gz": rng.random() < 0.5, "what_if": rng.random() < 0.35})
    elif r < 0.75:
        case = G.gen_case(rng, memcpy_rate=rng.choice([0.0, 0.2, 0.4]))
        ranks = sorted(case["ranks"])
        case["params"] = {"mode": "counters", "gz": rng.random() < 0.5, "compact": rng.random() < 0.3,
                          "ranks": sorted(rng.sample(ranks, rng.randint(1, len(ranks)))),
                          "series": rng.choice(["both", "both", "queue", "bw", "default"]),
                          "suffix": rng.choice(["_with_counters", "_with_counters", "", "_c"])}
        if rng.random() < 0.25:
            # the source already has counter tracks of its own, some with the very names the tool uses
            for ev in case["ranks"].values():
                xs = [e for e in ev if e.get("ph") == "X" and "dur" in e]
                for k in range(rng.randint(1, 3)):
                    h = rng.choice(xs)
                    ev.insert(rng.randint(1, len(ev)), {"ph": "C", "name": rng.choice(["Queue Length", "Memcpy HtoD", "Memset", "Dataloader queue", "Memcpy DtoD"]),
                                                         "pid": h["pid"], "tid": h["tid"], "ts": h["ts"] + k, "args": {rng.choice(["7", "size", "13"]): rng.randint(0, 9)}})
    else:
        # one case in eight is a file of several MiB (thousands of metadata entries before the events)
        case = G.gen_case(rng, top_ops=rng.choice([1, 2]), max_depth=rng.choice([1, 2]), **({"pad_ids": 12000} if rng.random() < 0.12 else {}))
        n = len(case["ranks"])
        vals = rng.sample([0, 1, 2, 3, 7, 10, 64, 123, 1000], n)
        case["params"] = {"mode": "file", "gz": rng.random() < 0.5, "compact": rng.random() < 0.4,
                          "file_ranks": {str(r): v for r, v in zip(sorted(case["ranks"]), vals)},
                          "no_meta": rng.random() < 0.3, "new_rank": rng.choice([0, 1, 5, 12, 345]),
                          "rewrite_gz": rng.random() < 0.5}
    return case


def wf(case) -> bool:
    p = case.get("params") or {}
    m = p.get("mode")
    if m == "overlay":
        return CP.wf_cp(case)
    if m == "counters":
        return all(r in case["ranks"] for r in p["ranks"]) and len(p["ranks"]) >= 1
    if m == "file":
        fr = p.get("file_ranks") or {}
        return set(fr) == {str(r) for r in case["ranks"]} and len(set(fr.values())) == len(fr)
    return False


def _read_any(path: str):
    with open(path, "rb") as fh:
        head = fh.read(2)
    if head == b"\x1f\x8b":
        with gzip.open(path, "rt") as fh:
            return json.load(fh), "gzip"
    with open(path) as fh:
        return json.load(fh), "plain"


class _Intern:
    def __init__(self) -> None:
        self.ids: Dict[str, int] = {}
        self.text: List[str] = []

    def __call__(self, v: Any) -> int:
        k = json.dumps(v, sort_keys=False)
        i = self.ids.get(k)
        if i is None:
            i = len(self.text)
            self.ids[k] = i
            self.text.append(k)
        return i


def _own_reader(path: str) -> str:
    """Can the tool read back what it wrote, going by the file name as its readers do?"""
    from hta.common.trace_file import read_trace
    try:
        read_trace(path)
        return "ok"
    except Exception as e:  # noqa: BLE001
        return "raises " + C.exc_name(e) + ": " + str(e)[:80]


def _marked(ev: Dict[str, Any]) -> Dict[str, Any]:
    m = copy.deepcopy(ev)
    m.setdefault("args", {})["critical"] = 1
    return m


def _doc_shape(doc: Dict[str, Any], it: _Intern):
    return [[k, it(v)] for k, v in doc.items() if k != "traceEvents"]


def _flow(e: Dict[str, Any]):
    a = e.get("args") or {}
    return [e.get("ph"), e.get("id"), e.get("pid"), e.get("tid"), e.get("ts"), e.get("cat"), e.get("name"),
            a.get("weight"), a.get("critical"), e.get("bp"), sorted(set(e) - {"ph", "id", "pid", "tid", "ts", "cat", "name", "args", "bp"}),
            sorted(set(a) - {"weight", "critical"})]


def _observe_overlay(case):
    p = case["params"]
    os.environ["CRITICAL_PATH_ADD_ZERO_WEIGHT_LAUNCH_EDGE"] = "1" if p["zero_weight_launch"] else "0"
    files = htaio.write_case(case, gz=p["gz"])
    canon: Dict[str, Any] = {"mode": "overlay"}
    try:
        ta = htaio.load(files, include_last=p.get("include_last", True))
        from hta.analyzers import critical_path_analysis as CPA
        with contextlib.suppress(Exception):
            CPA.CPGraph._add_zero_weight_launch_edges.cache_clear()
        inst = tuple(p["instance"]) if isinstance(p["instance"], (list, tuple)) else p["instance"]
        try:
            res = ta.critical_path_analysis(rank=p["rank"], annotation=p["annotation"], instance_id=inst)
        except Exception as e:  # noqa: BLE001
            return {"canon": {"mode": "overlay", "ok": "raises " + C.exc_name(e)}}
        if res is None or not res[1]:
            return {"canon": {"mode": "overlay", "ok": False}}
        g = res[0]
        canon["ok"] = True
        if p.get("what_if"):
            crit = sorted(zip(g.critical_path_nodes, g.critical_path_nodes[1:]), key=lambda uv: -g.edges[uv]["weight"])
            for u, v in crit[: max(1, len(crit) // 3)]:
                g.edges[u, v]["weight"] = g.edges[u, v]["weight"] // 10
            try:
                if not g.critical_path():
                    return {"canon": {"mode": "overlay", "ok": False}}
            except Exception as e:  # noqa: BLE001
                return {"canon": {"mode": "overlay", "ok": "raises " + C.exc_name(e)}}
        src_doc, _ = _read_any(files[p["rank"]])
        src = src_doc["traceEvents"]
        it = _Intern()
        canon["src_ids"] = [it(e) for e in src]
        canon["marked_ids"] = [it(_marked(e)) for e in src]
        canon["src_shape"] = _doc_shape(src_doc, it)

        def num(e, k):
            v = e.get(k, 0)
            return int(v) if isinstance(v, (int, float)) and not isinstance(v, bool) and float(v) == int(v) else 0
        canon["raw"] = [[e.get("ph") == "X", e.get("cat", "") in KEEP_CATS, num(e, "pid"), num(e, "tid"), num(e, "ts"), num(e, "dur"),
                         isinstance(e.get("args"), dict) and isinstance(e["args"].get("device", -1), (int, float)) and e["args"].get("device", -1) >= 0]
                        for e in src]
        canon["crit_events"] = sorted(int(x) for x in g.critical_path_events_set)

        def edge(o):
            nu, nv = g.node_list[o.begin], g.node_list[o.end]
            return [int(nu.ev_idx), bool(nu.is_start), int(nv.ev_idx), bool(nv.is_start), int(o.weight), str(o.type.value),
                    o in g.critical_path_edges_set]
        canon["edges_all"] = [edge(g.edges[u, v]["object"]) for u, v in g.edges]
        canon["edges_crit"] = sorted(edge(o) for o in g.critical_path_edges_set)
        canon["path_events"] = sorted({int(g.node_list[n].ev_idx) for n in g.critical_path_nodes})
        canon["runs"] = []
        out_dir = os.path.join(os.path.dirname(files[p["rank"]]), "overlay_out")
        for oc, sa, z in COMBOS:
            os.environ["CRITICAL_PATH_SHOW_ZERO_WEIGHT_LAUNCH_EDGE"] = "1" if z else "0"
            run: Dict[str, Any] = {"only_critical": oc, "show_all": sa, "show_zero": z}
            try:
                outp = ta.overlay_critical_path_analysis(p["rank"], g, out_dir, only_show_critical_events=oc, show_all_edges=sa)
                run["name_ok"] = os.path.basename(outp) == "overlaid_critical_path_" + os.path.basename(files[p["rank"]])
                doc, enc = _read_any(outp)
                run["encoding"] = enc
                run["own_reader"] = _own_reader(outp)
                evs = doc["traceEvents"]
                k = len(evs)
                while k > 0 and evs[k - 1].get("name") == "critical_path" and evs[k - 1].get("ph") in ("s", "f"):
                    k -= 1
                run["head_ids"] = [it(e) for e in evs[:k]]
                run["flows"] = [_flow(e) for e in evs[k:]]
                run["shape"] = _doc_shape(doc, it)
                os.remove(outp)
            except Exception as e:  # noqa: BLE001
                import traceback
                run["raises"] = C.exc_name(e) + ": " + str(e)[:80] + " @ " + traceback.format_exc().splitlines()[-2].strip()[:80]
            canon["runs"].append(run)
        os.environ["CRITICAL_PATH_SHOW_ZERO_WEIGHT_LAUNCH_EDGE"] = "0"
        canon["texts"] = {}     # diagnostics only: text of ids that are neither a source event nor its marked form
        known = set(canon["src_ids"]) | set(canon["marked_ids"])
        for run in canon["runs"]:
            for i in run.get("head_ids", []):
                if i not in known:
                    canon["texts"][str(i)] = it.text[i][:200]
        # history: the trace with counters written by the same object after the overlays still starts with the
        # unchanged source events (the overlay's critical markers must not leak into later files)
        try:
            ta.generate_trace_with_counters(ranks=[p["rank"]])
            outc = files[p["rank"]].replace(".json", "_with_counters.json")
            if os.path.exists(outc):
                cdoc, _ = _read_any(outc)
                canon["counters_after_overlay"] = [it(e) for e in cdoc["traceEvents"][: len(src)]] == canon["src_ids"]
                os.remove(outc)
        except Exception as e:  # noqa: BLE001
            canon["counters_after_overlay_raises"] = C.exc_name(e) + ": " + str(e)[:80]
        # the source file itself must be untouched
        again, _ = _read_any(files[p["rank"]])
        canon["source_untouched"] = again == src_doc
        return {"canon": canon}
    finally:
        htaio.remove_case_dir(files)


def _observe_counters(case):
    p = case["params"]
    files = htaio.write_case(case, gz=p["gz"], compact=p.get("compact", False))
    canon: Dict[str, Any] = {"mode": "counters", "ranks": {}}
    try:
        ta = htaio.load(files)
        from hta.trace_analysis import TimeSeriesTypes
        ts = {"both": TimeSeriesTypes.QUEUE_LENGTH | TimeSeriesTypes.MEMCPY_BANDWIDTH, "queue": TimeSeriesTypes.QUEUE_LENGTH,
              "bw": TimeSeriesTypes.MEMCPY_BANDWIDTH, "default": None}[p["series"]]
        try:
            ta.generate_trace_with_counters(time_series=ts, ranks=list(p["ranks"]), output_suffix=p["suffix"])
        except Exception as e:  # noqa: BLE001
            import traceback
            canon["raises"] = C.exc_name(e) + ": " + str(e)[:80] + " @ " + traceback.format_exc().splitlines()[-2].strip()[:80]
            return {"canon": canon}
        suffix = p["suffix"] or "_with_counters"
        for r in p["ranks"]:
            outp = files[r].replace(".json", f"{suffix}.json")
            if not os.path.exists(outp):
                canon["ranks"][int(r)] = {"written": False,
                                          "has_device": any(e.get("ph") == "X" and "stream" in (e.get("args") or {}) for e in case["ranks"][r])}
                continue
            it = _Intern()
            src_doc, _ = _read_any(files[r])
            doc, enc = _read_any(outp)
            src, evs = src_doc["traceEvents"], doc["traceEvents"]
            canon["ranks"][int(r)] = {"written": True, "encoding": enc, "own_reader": _own_reader(outp), "gz_name": outp.endswith(".gz"),
                                      "src_ids": [it(e) for e in src], "out_ids": [it(e) for e in evs],
                                      "is_counter": [e.get("ph") == "C" for e in evs],
                                      "src_shape": _doc_shape(src_doc, it), "shape": _doc_shape(doc, it),
                                      "source_untouched": _read_any(files[r])[0] == src_doc}
        return {"canon": canon}
    finally:
        htaio.remove_case_dir(files)


def _observe_file(case):
    p = case["params"]
    from hta.common.trace_file import create_rank_to_trace_dict, read_trace, update_trace_rank, write_trace
    c2 = {"ranks": case["ranks"], "meta": {}}
    # write the files under the rank values of file_ranks (the file names keep the generator's numbering)
    files = htaio.write_case(case, gz=p["gz"], compact=p.get("compact", False))
    canon: Dict[str, Any] = {"mode": "file", "files": []}
    try:
        order = sorted(files)
        for r in order:
            doc, _ = _read_any(files[r])
            if p["no_meta"]:
                doc.pop("distributedInfo", None)
            else:
                doc["distributedInfo"]["rank"] = p["file_ranks"][str(r)]
            txt = json.dumps(doc, separators=(",", ":")) if p.get("compact") else json.dumps(doc, indent=1)
            if p["gz"]:
                with gzip.open(files[r], "wt") as fh:
                    fh.write(txt)
            else:
                with open(files[r], "w") as fh:
                    fh.write(txt)
        try:
            ok, m = create_rank_to_trace_dict([files[r] for r in order])
            canon["discovered"] = sorted([int(k), order.index(next(r for r in order if files[r] == v))] for k, v in m.items())
            canon["discover_ok"] = bool(ok)
        except Exception as e:  # noqa: BLE001
            canon["discovered"] = "raises " + C.exc_name(e) + ": " + str(e)[:80]
        for r in order:
            it = _Intern()
            rec: Dict[str, Any] = {}
            try:
                before = read_trace(files[r])
                truth, _ = _read_any(files[r])
                rec["read_ok"] = before == truth
                rec["before_shape"] = _doc_shape(before, it)
                rec["before_di"] = None if "distributedInfo" not in before else [[k, it(v)] for k, v in before["distributedInfo"].items()]
                rec["rank_id"] = it(p["new_rank"])
                rec["ev_ids"] = [it(e) for e in before["traceEvents"]]
                # writer/reader round trip into the other format
                ext = ".json.gz" if p["rewrite_gz"] else ".json"
                other = os.path.join(os.path.dirname(files[r]), "rt", f"copy{r}{ext}")
                write_trace(before, other)
                back, enc = _read_any(other)
                rec["rt_encoding_matches_name"] = (enc == "gzip") == other.endswith(".gz")
                rec["rt_equal"] = back == truth and list(back) == list(truth) and read_trace(other) == truth
                # rank update in place
                update_trace_rank(files[r], p["new_rank"])
                after, enc2 = _read_any(files[r])
                rec["upd_encoding_matches_name"] = (enc2 == "gzip") == files[r].endswith(".gz")
                rec["after_shape"] = _doc_shape(after, it)
                rec["after_di"] = None if "distributedInfo" not in after else [[k, it(v)] for k, v in after["distributedInfo"].items()]
                rec["after_ev_ids"] = [it(e) for e in after["traceEvents"]]
                ok2, m2 = create_rank_to_trace_dict([files[r]])
                rec["rediscovered"] = sorted(int(k) for k in m2)
            except Exception as e:  # noqa: BLE001
                import traceback
                rec["raises"] = C.exc_name(e) + ": " + str(e)[:80] + " @ " + traceback.format_exc().splitlines()[-2].strip()[:80]
            canon["files"].append(rec)
        return {"canon": canon}
    finally:
        htaio.remove_case_dir(files)


def observe(case):
    m = case["params"]["mode"]
    with contextlib.redirect_stdout(io.StringIO()):
        if m == "overlay":
            return _observe_overlay(case)
        if m == "counters":
            return _observe_counters(case)
        return _observe_file(case)


def in_domain(case, obs) -> bool:
    c = obs["canon"]
    return c["mode"] != "overlay" or c.get("ok") is True


def model(drv, case, obs):
    c = obs["canon"]
    p = case["params"]
    if c["mode"] == "overlay":
        runs = []
        for run in c["runs"]:
            runs.append(drv.call({"op": "c20.overlay", "raw": c["raw"], "crit": c["crit_events"], "edges_all": c["edges_all"],
                                  "edges_crit": c["edges_crit"], "only_critical": run["only_critical"], "show_all": run["show_all"],
                                  "show_zero": run["show_zero"]}))
        return {"runs": runs}
    if c["mode"] == "counters":
        out = {}
        for r, rec in c["ranks"].items():
            if rec.get("written"):
                out[r] = drv.call({"op": "c20.append", "src": rec["src_ids"], "out": rec["out_ids"], "is_counter": rec["is_counter"]})
        return {"ranks": out}
    out2 = []
    for rec in c["files"]:
        if "raises" in rec:
            out2.append(None)
            continue
        out2.append(drv.call({"op": "c20.rank", "doc": rec["before_shape"], "di": rec["before_di"], "rank_id": rec["rank_id"]}))
    return {"files": out2}


def _pairs(flows):
    """flow events -> (structure problems, multiset of (start, end) pairs without ids)"""
    probs = []
    pairs = []
    if len(flows) % 2:
        probs.append(f"odd number of flow events ({len(flows)})")
    for k in range(0, len(flows) - 1, 2):
        s, f = flows[k], flows[k + 1]
        if s[0] != "s" or f[0] != "f" or s[1] != f[1] or s[1] != k // 2:
            probs.append(f"flow events {k},{k + 1}: phases {s[0]},{f[0]} ids {s[1]},{f[1]} (expected s,f with id {k // 2})")
        pairs.append([s[:1] + s[2:], f[:1] + f[2:]])
    return probs, pairs


def compare(obs, mod) -> List[str]:
    c = obs["canon"]
    out: List[str] = []
    if c["mode"] == "overlay":
        for run, m in zip(c["runs"], mod["runs"]):
            tag = f"overlay(only_critical={run['only_critical']}, show_all={run['show_all']}, show_zero={run['show_zero']})"
            if "raises" in run:
                out.append(f"{tag} raises {run['raises']}")
                continue
            exp = [c["marked_ids"][i] if mk else c["src_ids"][i] for i, mk in m["head"]]
            if run["head_ids"] != exp:
                k = next((j for j, (a, b) in enumerate(zip(run["head_ids"], exp)) if a != b), min(len(exp), len(run["head_ids"])))
                got = run["head_ids"][k] if k < len(run["head_ids"]) else None
                out.append(f"{tag}: output event {k} is {c['texts'].get(str(got), got)!s:.160}; the model expects source event "
                           f"{m['head'][k] if k < len(m['head']) else None} (lengths {len(run['head_ids'])}/{len(exp)})")
            probs, pairs = _pairs(run["flows"])
            out += [f"{tag}: {x}" for x in probs]
            mp = [[s[:1] + s[2:], f[:1] + f[2:]] for s, f in zip(m["flows"][0::2], m["flows"][1::2])]
            ordered = run["show_all"] and not run["only_critical"]
            a, b = (pairs, mp) if ordered else (sorted(pairs, key=str), sorted(mp, key=str))
            if a != b:
                d = [(x, y) for x, y in zip(a, b) if x != y][:1]
                out.append(f"{tag}: flow events differ from the model ({len(a)}/{len(b)} pairs) first difference {str(d)[:300]}")
        return out[:6]
    if c["mode"] == "counters":
        for r, rec in c["ranks"].items():
            if rec.get("written") and not mod["ranks"][r]["append_only"]:
                out.append(f"rank {r}: Spec check: output is not source ++ counter events ({mod['ranks'][r]})")
        return out
    for i, (rec, m) in enumerate(zip(c["files"], mod["files"])):
        if m is None:
            continue
        if [k for k, _ in rec["after_shape"]] != m["keys"]:
            out.append(f"file {i}: after update_trace_rank the top-level fields are {[k for k, _ in rec['after_shape']]}, model {m['keys']}")
        if [x for x in rec["after_shape"] if x[0] != "distributedInfo"] != m["other"]:
            out.append(f"file {i}: update_trace_rank changed a top-level field other than distributedInfo")
        if rec["after_di"] != m["di"]:
            out.append(f"file {i}: after update_trace_rank distributedInfo is {rec['after_di']}, model {m['di']}")
    return out


def oracle(case, obs) -> List[str]:
    c = obs["canon"]
    p = case["params"]
    out: List[str] = []
    if c["mode"] == "overlay":
        if not c["source_untouched"]:
            out.append("the source trace file was modified")
        if c.get("counters_after_overlay") is False:
            out.append("the trace with counters written after the overlays does not start with the unchanged source events")
        if c["crit_events"] != c["path_events"]:
            out.append("critical event set differs from the events of the path's nodes")
        n = len(c["src_ids"])
        crit = set(c["crit_events"])
        for run in c["runs"]:
            tag = f"overlay(only_critical={run['only_critical']}, show_all={run['show_all']}, show_zero={run['show_zero']})"
            if "raises" in run:
                out.append(f"{tag} raises {run['raises']}")
                continue
            if not run["name_ok"]:
                out.append(f"{tag}: unexpected output file name")
            if run["own_reader"] != "ok":
                out.append(f"{tag}: the tool cannot read back its own output by name ({run['encoding']} content): {run['own_reader']}")
            if run["shape"] != c["src_shape"]:
                out.append(f"{tag}: top-level fields other than traceEvents changed")
            head = run["head_ids"]
            if not run["only_critical"]:
                if len(head) != n:
                    out.append(f"{tag}: {len(head)} non-flow events for {n} source events")
                for i, h in enumerate(head[:n]):
                    want = c["marked_ids"][i] if i in crit else c["src_ids"][i]
                    if h != want:
                        what = "marked" if h == c["marked_ids"][i] else ("unmarked" if h == c["src_ids"][i] else "altered: " + c["texts"].get(str(h), "?")[:120])
                        out.append(f"{tag}: source event {i} ({'critical' if i in crit else 'not critical'}) is written {what}")
                        break
            nedges = len(run["flows"]) // 2
            if not run["show_all"] or run["only_critical"]:
                if nedges != len(c["edges_crit"]):
                    out.append(f"{tag}: {nedges} flow pairs for {len(c['edges_crit'])} critical edges")
            else:
                want = [e for e in c["edges_all"] if run["show_zero"] or not (e[5] == "critical_path_kernel_launch_delay" and e[4] == 0)]
                if nedges != len(want):
                    out.append(f"{tag}: {nedges} flow pairs for {len(want)} drawn edges")
                for k, e in enumerate(want[:nedges]):
                    s, f = run["flows"][2 * k], run["flows"][2 * k + 1]
                    rs, rf = c["raw"][e[0]], c["raw"][e[2]]
                    if [s[2], s[3]] != [rs[2], rs[3]] or [f[2], f[3]] != [rf[2], rf[3]]:
                        out.append(f"{tag}: flow pair {k} sits on {s[2:4]}/{f[2:4]}, the joined events {e[0]},{e[2]} are on {rs[2:4]}/{rf[2:4]}")
                        break
        return out[:8]
    if c["mode"] == "counters":
        if "raises" in c:
            return [f"generate_trace_with_counters raises {c['raises']}"]
        for r, rec in c["ranks"].items():
            if not rec.get("written"):
                if rec.get("has_device") and p["series"] in ("both", "default", "queue"):
                    pass    # a rank whose device work has no linked launches has no queue series: no file, nothing to preserve
                continue
            n = len(rec["src_ids"])
            if rec["out_ids"][:n] != rec["src_ids"]:
                k = next((j for j, (a, b) in enumerate(zip(rec["out_ids"], rec["src_ids"])) if a != b), None)
                out.append(f"rank {r}: source event {k} is not preserved at its position in the counters file")
            if not all(rec["is_counter"][n:]):
                out.append(f"rank {r}: a non-counter event was appended")
            if any(rec["is_counter"][:n]) and False:
                pass
            if rec["shape"] != rec["src_shape"]:
                out.append(f"rank {r}: top-level fields other than traceEvents changed")
            if rec["own_reader"] != "ok":
                out.append(f"rank {r}: the tool cannot read back its own counters file by name ({rec['encoding']} content, name ends "
                           f"{'.gz' if rec['gz_name'] else '.json'}): {rec['own_reader']}")
            if not rec["source_untouched"]:
                out.append(f"rank {r}: the source trace file was modified")
        return out[:8]
    # file mode
    order = sorted(case["ranks"])
    if isinstance(c.get("discovered"), str):
        out.append(f"create_rank_to_trace_dict {c['discovered']}")
    elif not p["no_meta"]:
        want = sorted([p["file_ranks"][str(r)], i] for i, r in enumerate(order))
        if c["discovered"] != want:
            out.append(f"rank discovery found (rank, file) {c['discovered']}, the metadata says {want}")
    for i, rec in enumerate(c["files"]):
        if "raises" in rec:
            out.append(f"file {i}: {rec['raises']}")
            continue
        if not rec["read_ok"]:
            out.append(f"file {i}: read_trace differs from the file's JSON content")
        if not rec["rt_equal"]:
            out.append(f"file {i}: write_trace -> read_trace does not return the same trace")
        if not rec["rt_encoding_matches_name"] or not rec["upd_encoding_matches_name"]:
            out.append(f"file {i}: written encoding does not match the file name")
        if rec["after_ev_ids"] != rec["ev_ids"]:
            out.append(f"file {i}: update_trace_rank changed the events")
        if rec["rediscovered"] != [p["new_rank"]]:
            out.append(f"file {i}: after update_trace_rank({p['new_rank']}) rank discovery finds {rec['rediscovered']}")
        b = dict((k, v) for k, v in rec["before_shape"] if k != "distributedInfo")
        a = dict((k, v) for k, v in rec["after_shape"] if k != "distributedInfo")
        if a != b:
            out.append(f"file {i}: update_trace_rank changed top-level fields other than distributedInfo")
        bd = dict((k, v) for k, v in (rec["before_di"] or []) if k != "rank")
        ad = dict((k, v) for k, v in (rec["after_di"] or []) if k != "rank")
        if ad != bd or dict(rec["after_di"] or []).get("rank") != rec["rank_id"]:
            out.append(f"file {i}: update_trace_rank: distributedInfo before {rec['before_di']} after {rec['after_di']}")
    return out[:8]


def features(case, obs):
    f = G.features(case)
    c = obs["canon"]
    f["mode_" + c["mode"]] = 1
    f["gz"] = int(bool(case["params"].get("gz")))
    if c["mode"] == "overlay" and c.get("ok") is True:
        f["crit_events"] = len(c["crit_events"])
        f["crit_no_args"] = sum(1 for i in c["crit_events"] if 0 <= i < len(case["ranks"][case["params"]["rank"]])
                                and "args" not in case["ranks"][case["params"]["rank"]][i])
        f["edges"] = len(c["edges_all"])
        f["zero_launch_edges"] = sum(1 for e in c["edges_all"] if e[5] == "critical_path_kernel_launch_delay" and e[4] == 0)
        f["dropped_when_only_critical"] = max((len(c["src_ids"]) - len(r.get("head_ids", [])) for r in c["runs"] if r["only_critical"]), default=0)
    if c["mode"] == "counters":
        f["files_written"] = sum(1 for r in c["ranks"].values() if r.get("written"))
        f["counter_events"] = sum(sum(r["is_counter"]) for r in c["ranks"].values() if r.get("written"))
    if c["mode"] == "file":
        f["compact"] = int(bool(case["params"].get("compact")))
        f["no_meta"] = int(bool(case["params"].get("no_meta")))
    return f


def nontrivial(case, obs, f) -> bool:
    c = obs["canon"]
    if c["mode"] == "overlay":
        return f.get("crit_events", 0) >= 2 and f.get("edges", 0) >= 4
    if c["mode"] == "counters":
        return f.get("files_written", 0) >= 1 and f.get("counter_events", 0) >= 2
    return len(c["files"]) >= 1


def sample(case, obs):
    c = obs["canon"]
    if c["mode"] == "overlay":
        return {"params": case["params"], "source_events": len(c.get("src_ids", [])), "critical": c.get("crit_events"),
                "runs": [{k: (len(v) if isinstance(v, list) else v) for k, v in r.items()} for r in c.get("runs", [])][:3]}
    if c["mode"] == "counters":
        return {"params": case["params"], "ranks": {r: {"written": v.get("written"), "n_src": len(v.get("src_ids", [])), "n_out": len(v.get("out_ids", []))}
                                                   for r, v in c["ranks"].items()}}
    return {"params": case["params"], "discovered": c.get("discovered")}


def corpus_cases():
    return C.corpus_for("C20")
