"""C18 — trace filters are pure row selections with the documented predicates."""
from __future__ import annotations

import re
from typing import Any, Dict, List

from harness import gen as G
from harness import htaio
from harness.props import common as C

N_CASES = {"quick": 260, "thorough": 3000}
SHRINK = False
PATTERNS = ["^nccl", "aten::", "cuda", "Memcpy", ".*Kernel", "ProfilerStep", "^$", ".*", "aten::(add|mm)$", "void"]
ASSUMPTIONS = [
    "frames are the loaded per-rank frames (encoded names), optionally concatenated over ranks with a rank column, optionally with decoded s_name/s_cat columns (decode_symbol_id_to_symbol_name, long or shortened names)",
    "name patterns enter the model as the set of strings Python's re.match accepts (regular-expression matching itself is trusted)",
    "purity is checked on the implementation by deep-comparing the input frame before and after every call; in the model it holds by construction",
]


def gen(rng, tier, no, wide=False):
    case = G.gen_case(rng, nsteps=rng.choice([0, 1, 2, 3, 4]), sync_rate=rng.choice([0, 0.1, 0.2]), nranks=rng.choice([1, 2, 2, 3]))
    # GPU-side sync records so that the table-aware device predicate matters; they sit anywhere in the file, so that in a
    # frame concatenated over ranks their row label is some other rank's host event
    for r, ev in case["ranks"].items():
        for e in list(ev):
            if e.get("name") == "cudaDeviceSynchronize" and rng.random() < 0.8:
                ev.insert(rng.randint(1, len(ev)), {"ph": "X", "cat": "cuda_sync", "name": rng.choice(["Context Sync", "Event Sync"]), "pid": r, "tid": 0,
                                                     "ts": e["ts"], "dur": e["dur"], "args": {"correlation": e["args"]["correlation"]}})
        if rng.random() < 0.35:
            xs = [e for e in ev if e.get("ph") == "X" and "dur" in e]
            h = rng.choice(xs)
            ev.insert(rng.randint(1, len(ev)), {"ph": "X", "cat": "cuda_sync", "name": rng.choice(["Context Sync", "Event Sync"]), "pid": r, "tid": 0,
                                                 "ts": h["ts"], "dur": h["dur"], "args": {"device": 0}})
    xs = [e for ev in case["ranks"].values() for e in ev if e.get("ph") == "X" and "dur" in e and e.get("cat") != "Trace"]
    t0 = min(e["ts"] for e in xs)
    times = sorted({e["ts"] - t0 for e in xs} | {e["ts"] + e["dur"] - t0 for e in xs})
    steps = sorted({int(e["name"].split("#")[1]) for e in xs if str(e["name"]).startswith("ProfilerStep#")}) or [0]
    names = sorted({e["name"] for e in xs})
    nf = rng.choice([1, 1, 1, 2, 2, 3])
    fl = []
    for _ in range(nf):
        k = rng.choice(["iteration", "iterIndex", "rank", "timeRange", "timeRange", "name", "name", "gpu", "gpu", "cpu", "cpu", "memcopy"])
        if k == "iteration":
            fl.append([k, sorted(set(rng.sample(steps + [-1, 999], rng.randint(1, 2))))])
        elif k == "iterIndex":
            fl.append([k, [0] if rng.random() < 0.3 else sorted(rng.sample([0, 1, 2, 3], rng.randint(1, 2)))])
        elif k == "rank":
            fl.append([k, sorted(rng.sample([0, 1, 2], rng.randint(1, 2)))])
        elif k == "timeRange":
            a = rng.choice(times)
            b = rng.choice([t for t in times if t >= a])
            zs = [e["ts"] - t0 for e in xs if e["dur"] == 0 and e["ts"] - t0 >= a]
            if zs and rng.random() < 0.5:
                b = rng.choice(zs)          # the range ends exactly where a zero-duration event sits
            fl.append([k, a, b])
        elif k == "name":
            n = rng.choice(names)
            pat = rng.choice(PATTERNS + [re.escape(n[: rng.randint(1, max(1, len(n)))]), re.escape(n) + "$"])
            fl.append([k, rng.random() < 0.5, pat])
        elif k in ("gpu", "cpu"):
            fl.append([k, rng.random() < 0.6])
        else:
            fl.append([k, rng.choice(G.MEMCPY_NAMES + ["Memset (Device)", "no such type"])])
    late = False
    if len(steps) >= 3 and rng.random() < 0.2:
        # a selection by position that depends on what an earlier member left over: an operator name that only occurs in
        # the last profiler step that survives loading (the very last one is trimmed), then "the first iteration present"
        for ev in case["ranks"].values():
            ps = sorted((e for e in ev if str(e.get("name", "")).startswith("ProfilerStep#") and "dur" in e), key=lambda e: e["ts"])
            if len(ps) < 3:
                continue
            lo, hi = ps[-2]["ts"], ps[-2]["ts"] + ps[-2]["dur"]
            inside = [e for e in ev if e.get("cat") == "cpu_op" and "dur" in e and lo <= e["ts"] < hi]
            if inside:
                rng.choice(inside)["name"] = "aten::only_late"
                late = True
        if late:
            fl = [["name", True, "aten::only_late$"], ["iterIndex", [0]]]
            if rng.random() < 0.3:
                fl.append(["cpu", True])
    # how each filter object is made: the list argument or a bare int, FirstIterationFilter for index [0], the symbol
    # table handed to the constructor instead of the call
    how = []
    for sp in fl:
        h = "plain"
        if sp[0] in ("iteration", "iterIndex", "rank") and len(sp[1]) == 1 and rng.random() < 0.5:
            h = "scalar"
        if sp[0] == "iterIndex" and sp[1] == [0] and rng.random() < 0.6:
            h = "first"
        if ((sp[0] == "name" and sp[1]) or sp[0] == "memcopy") and rng.random() < 0.35:
            h = "ctor_table"
        how.append(h)
    case["params"] = {"filters": fl, "how": how, "with_rank_col": rng.random() < 0.5, "decoded": rng.choice([None, None, "long", "short"]),
                      "composite": late or rng.random() < 0.7, "twice": rng.random() < 0.3, "used_before": rng.random() < 0.3}
    return case


_WARM: Dict[str, Any] = {}


def _warm_frame():
    """A frame of another trace with its own symbol table (other names, other numbering), loaded once per process:
    filter objects are applied to it first when the case says `used_before` (a filter is a value: having selected from
    one frame must not change what it selects from the next)."""
    if not _WARM:
        ev = [{"ph": "X", "cat": "cpu_op", "name": f"zz_pad_{i}", "pid": 5, "tid": 5, "ts": 10 * i, "dur": 5} for i in range(7)]
        names = ["ProfilerStep#3", "aten::add", "aten::mm", "cudaLaunchKernel", "cudaMemcpyAsync", "nccl:all_reduce", "Memset (Device)",
                 "Memcpy DtoH (Device -> Pageable)", "ncclKernel_x", "Context Sync"]
        t = 100
        for i, n in enumerate(names):
            ev.append({"ph": "X", "cat": "user_annotation" if n.startswith("Profiler") else "cpu_op", "name": n, "pid": 5, "tid": 5, "ts": t, "dur": 3})
            t += 5
        ev.append({"ph": "X", "cat": "cuda_runtime", "name": "cudaLaunchKernel", "pid": 5, "tid": 5, "ts": t, "dur": 2, "args": {"correlation": 9}})
        ev.append({"ph": "X", "cat": "kernel", "name": "ampere_sgemm_128x64_nn", "pid": 0, "tid": 7, "ts": t + 3, "dur": 4, "args": {"correlation": 9, "stream": 7}})
        ev.append({"ph": "X", "cat": "gpu_memcpy", "name": "Memcpy HtoD (Pageable -> Device)", "pid": 0, "tid": 7, "ts": t + 9, "dur": 4, "args": {"correlation": 11, "stream": 7}})
        ta, files = C.load_case({"ranks": {0: ev}})
        try:
            df = ta.t.get_trace(0).copy()
            df["rank"] = 0
            _WARM["df"], _WARM["table"] = df, ta.t.symbol_table
        finally:
            htaio.remove_case_dir(files)
    return _WARM["df"], _WARM["table"]


def _mk_filter(spec, table, how="plain"):
    from hta.common import trace_filter as F
    k = spec[0]
    arg = (spec[1][0] if how == "scalar" else list(spec[1])) if k in ("iteration", "iterIndex", "rank") else None
    if k == "iteration":
        return F.IterationFilter(arg), None
    if k == "iterIndex":
        return (F.FirstIterationFilter() if how == "first" else F.IterationIndexFilter(arg)), None
    if k == "rank":
        return F.RankFilter(arg), None
    if how == "ctor_table":
        return (F.NameFilter(spec[2], symbol_table=table) if k == "name" else F.MemCopyEventFilter(spec[1], table)), None
    if k == "timeRange":
        return F.TimeRangeFilter((spec[1], spec[2])), None
    if k == "name":
        return F.NameFilter(spec[2]), (table if spec[1] else None)
    if k == "gpu":
        return F.GPUKernelFilter(), (table if spec[1] else None)
    if k == "cpu":
        return F.CPUOperatorFilter(), (table if spec[1] else None)
    return F.MemCopyEventFilter(spec[1]), table


def observe(case):
    p = case["params"]
    ta, files = C.load_case(case)
    try:
        import pandas as pd
        from hta.common import trace_filter as F
        from hta.common.trace_symbol_table import decode_symbol_id_to_symbol_name
        table = ta.t.symbol_table
        tab = table.get_sym_table()
        frames = []
        for r in ta.t.get_ranks():
            df = ta.t.get_trace(r).copy()
            if p["with_rank_col"]:
                df["rank"] = r
            df["_rank"] = r
            frames.append(df)
        df = pd.concat(frames) if p["with_rank_col"] else frames[0]
        if p["decoded"]:
            decode_symbol_id_to_symbol_name(df, table, p["decoded"] == "short")
        rows = []
        for rec in df.to_dict("records"):
            rows.append([htaio._i(rec["index"]), htaio._i(rec["ts"]), htaio._i(rec["dur"]), htaio._i(rec["stream"]),
                         htaio._i(rec["correlation"]), htaio._i(rec["iteration"]), int(rec["_rank"]), tab[int(rec["name"])],
                         tab[int(rec["cat"])], rec.get("s_name", "") if p["decoded"] else ""])
        snap = df.copy(deep=True)
        specs = p["filters"]
        canon: Dict[str, Any] = {}
        try:
            # tables differ per filter (None vs table): CompositeFilter passes one table to all members,
            # so a composite is only built when all members agree; otherwise members are applied in sequence
            hows = p.get("how") or ["plain"] * len(specs)
            built = [_mk_filter(s, table, h) for s, h in zip(specs, hows)]
            if p.get("used_before"):
                wdf, wtable = _warm_frame()
                for f, t in built:
                    try:
                        f(wdf.copy(), wtable if t is not None else None)
                    except Exception:  # noqa: BLE001
                        pass
            # members that never look at the table (iteration, position, rank, time range) go with any table
            sens = [t for (f, t), sp in zip(built, specs) if sp[0] in ("name", "gpu", "cpu", "memcopy")]
            tabs = {id(t) for t in sens}
            if p["composite"] and len(tabs) <= 1:
                out = F.CompositeFilter([f for f, _ in built])(df, sens[0] if sens else None)
                canon["mode"] = "composite"
            else:
                out = df
                for f, t in built:
                    out = f(out, t)
                canon["mode"] = "sequence"
            if p["twice"] and len(built) == 1:
                out = built[0][0](out, built[0][1])
                canon["mode"] += "+twice"
            canon["ids"] = [[int(a), int(b)] for a, b in zip(out["_rank"], out["index"])] if "index" in out.columns else []
            canon["pure"] = bool(snap.equals(df))
            # row contents unchanged
            if len(out) and "index" in out.columns:
                key = list(zip(out["_rank"], out["index"]))
                src = df.set_index(["_rank", "index"], drop=False)
                canon["contents_unchanged"] = bool(out.reset_index(drop=True).equals(src.loc[key].reset_index(drop=True)))
            else:
                canon["contents_unchanged"] = True
        except Exception as e:  # noqa: BLE001
            canon = {"raises": C.exc_name(e) + ": " + str(e)[:120]}
        names = sorted({x[7] for x in rows})
        snames = sorted({x[9] for x in rows})
        in_table = set(table.get_sym_id_map())
        return {"frame": rows, "canon": canon, "names": names, "snames": snames, "in_table": sorted(in_table & set(G.MEMCPY_NAMES + ["Memset (Device)", "no such type", "gpu_memcpy"]))}
    finally:
        htaio.remove_case_dir(files)


def _model_filters(case, obs):
    out = []
    for s in case["params"]["filters"]:
        if s[0] == "name":
            pool = obs["names"] if (s[1] or not case["params"]["decoded"]) else obs["snames"]
            out.append(["name", s[1], [n for n in pool if re.match(s[2], n)]])
        elif s[0] == "memcopy":
            out.append(["memcopy", s[1], s[1] in obs["in_table"]])
        else:
            out.append(s)
    if case["params"]["twice"] and len(out) == 1:
        out = out + out
    return out


def model(drv, case, obs):
    return drv.call({"op": "c18", "rows": obs["frame"], "filters": _model_filters(case, obs),
                     "has_rank": case["params"]["with_rank_col"], "decoded": bool(case["params"]["decoded"])})


def compare(obs, mod) -> List[str]:
    c = obs["canon"]
    if "raises" in c:
        return [f"impl raises {c['raises']}"]
    if "error" in mod:
        return [f"model {mod}"]
    if c["ids"] != mod["ids"]:
        a, b = c["ids"], mod["ids"]
        return [f"selected rows differ: impl {len(a)} rows, model {len(b)}; impl-only {[x for x in a if x not in b][:4]} model-only {[x for x in b if x not in a][:4]}"]
    return []


def _pred(spec, case, obs, present_iters):
    k = spec[0]
    dec = case["params"]["decoded"]
    if k == "iteration":
        return lambda x: x[5] in spec[1]
    if k == "iterIndex":
        its = sorted(present_iters)
        if its == [-1]:
            return lambda x: True
        if its and its[0] == -1:
            its = its[1:]
        sel = [it for i, it in enumerate(its) if i in spec[1]]
        return lambda x: x[5] in sel
    if k == "rank":
        return (lambda x: x[6] in spec[1]) if case["params"]["with_rank_col"] else (lambda x: True)
    if k == "timeRange":
        return lambda x: x[1] >= spec[1] and x[1] + x[2] <= spec[2]
    if k == "name":
        if spec[1]:
            return lambda x: re.match(spec[2], x[7]) is not None
        if dec:
            return lambda x: re.match(spec[2], x[9]) is not None
        return lambda x: True
    sync = lambda x: x[7] in ("Event Sync", "Context Sync")
    if k == "gpu":
        return lambda x: (x[3] >= 0 and x[4] >= 0) or (spec[1] and sync(x))
    if k == "cpu":
        return (lambda x: not ((x[3] >= 0 and x[4] >= 0) or sync(x))) if spec[1] else (lambda x: x[3] == -1)
    return lambda x: x[7] == spec[1] and x[8] == "gpu_memcpy"


def oracle(case, obs) -> List[str]:
    c = obs["canon"]
    if "raises" in c:
        return [f"filter raised {c['raises']}"]
    out = []
    if not c["pure"]:
        out.append("the input frame was modified by the filter")
    if not c["contents_unchanged"]:
        out.append("row contents of the result differ from the input rows")
    cur = list(obs["frame"])
    specs = list(case["params"]["filters"])
    if case["params"]["twice"] and len(specs) == 1:
        specs = specs + specs
    for s in specs:
        if s[0] in ("name", "memcopy") and not cur:
            continue
        p = _pred(s, case, obs, {x[5] for x in cur})
        cur = [x for x in cur if p(x)]
    exp = [[x[6], x[0]] for x in cur]
    if exp != c["ids"]:
        out.append(f"documented predicates select {len(exp)} rows, filter returned {len(c['ids'])}: missing {[x for x in exp if x not in c['ids']][:4]} extra {[x for x in c['ids'] if x not in exp][:4]} (filters {case['params']['filters']}, decoded={case['params']['decoded']})")
    return out


def features(case, obs):
    f: Dict[str, int] = {}
    for s in case["params"]["filters"]:
        f["f_" + s[0]] = 1
    for h in case["params"].get("how") or []:
        f["how_" + h] = 1
    f["decoded_" + str(case["params"]["decoded"])] = 1
    f["rank_col"] = int(case["params"]["with_rank_col"])
    c = obs["canon"]
    if "raises" not in c:
        f["selected_some"] = int(0 < len(c["ids"]) < len(obs["frame"]))
        f["mode_" + c["mode"]] = 1
    return f


def nontrivial(case, obs, f) -> bool:
    return f.get("selected_some", 0) == 1


def sample(case, obs):
    return {"params": case["params"], "frame_rows": len(obs["frame"]), "selected": len(obs["canon"].get("ids", [])) if "raises" not in obs["canon"] else obs["canon"]}


def corpus_cases():
    return C.corpus_for("C18")
