"""C19 — a saved critical-path graph restores to an identical graph."""
from __future__ import annotations

import contextlib
import io
import os
import shutil
from typing import Any, Dict, List

from harness import gen as G
from harness import htaio
from harness.props import common as C
from harness.props import cpcommon as CP

N_CASES = {"quick": 130, "thorough": 1200}
SHRINK = True
ASSUMPTIONS = [
    "graphs come from successful analyses of causally consistent well-formed traces",
    "pickle, the CSV text encoding of the frame, zip member naming and the fixed /tmp extraction directory are runtime behaviour: they are exercised (1-3 save/restore cycles, canonical dumps compared), not proved; the theorem covers the node-link encoding",
]


def _tie_trace(rng, rank):
    """Two equally heavy ways into the end of a device-wide synchronisation: stream A runs K1 and later K3, stream B
    runs K2, which starts between them; K2 and K3 end in the same microsecond. The synchronisation edges enter the
    call's end node in stream order (A, B), the kernels' nodes were created in start order (K2 before K3)."""
    g = rng.choice([1, 2, 5])
    sa, sb = rng.sample([7, 13, 20, 24], 2)
    pid, tid = 1000 + rank, 100 + rank
    t0 = 10 * g
    l1, l2, l3 = t0 + g, t0 + 3 * g, t0 + 5 * g
    k1s = l1 + g * rng.choice([1, 2]); k1d = g * rng.choice([4, 6, 10])
    k2s = max(l2 + g, k1s + g); k3s = max(k1s + k1d + g * rng.choice([0, 2, 5]), k2s + g, l3 + g)
    k3d = g * rng.choice([3, 8, 12]); end = k3s + k3d
    sy = l3 + 2 * g
    ev = [{"ph": "X", "cat": "cpu_op", "name": "aten::train_step", "pid": pid, "tid": tid, "ts": t0, "dur": end + 6 * g - t0, "args": {"External id": 1}}]
    for ts, c in ((l1, 11), (l2, 12), (l3, 13)):
        ev.append({"ph": "X", "cat": "cuda_runtime", "name": "cudaLaunchKernel", "pid": pid, "tid": tid, "ts": ts, "dur": g, "args": {"correlation": c, "External id": c}})
    for nm, st, ts, du, c in (("gemm_a", sa, k1s, k1d, 11), ("elementwise_b", sb, k2s, end - k2s, 12), ("gemm_c", sa, k3s, k3d, 13)):
        ev.append({"ph": "X", "cat": "kernel", "name": nm, "pid": rank, "tid": st, "ts": ts, "dur": du, "args": {"correlation": c, "stream": st, "device": rank, "External id": c}})
    ev.append({"ph": "X", "cat": "cuda_runtime", "name": "cudaDeviceSynchronize", "pid": pid, "tid": tid, "ts": sy, "dur": end + g * rng.choice([0, 1]) - sy, "args": {"correlation": 14, "External id": 14}})
    ev.append({"ph": "X", "cat": "cuda_sync", "name": "Context Sync", "pid": rank, "tid": -1, "ts": sy, "dur": ev[-1]["dur"], "args": {"correlation": 14, "stream": -1, "device": rank, "External id": 14}})
    ev.append({"ph": "X", "cat": "cpu_op", "name": "aten::after", "pid": pid, "tid": tid, "ts": end + 8 * g, "dur": 3 * g, "args": {"External id": 20}})
    rest = ev[1:]
    rng.shuffle(rest)
    return [ev[0]] + rest


def gen(rng, tier, no, wide=False):
    case = CP.gen_cp_case(rng, **({"annotation_rate": 0.3} if rng.random() < 0.3 else {}))
    if rng.random() < 0.1:
        r0 = case["params"]["rank"]
        case["ranks"][r0] = _tie_trace(rng, int(r0))
        case["params"].update({"annotation": "", "instance": None, "tie": True})
    if rng.random() < 0.08:
        # more than a thousand events ahead of the interesting ones in the file (the archive holds the frame as text;
        # whatever is inferred from its beginning must hold for its end)
        r0 = case["params"]["rank"]
        ev = case["ranks"][r0]
        xs = [e for e in ev if e.get("ph") == "X" and "dur" in e]
        lo = min(e["ts"] for e in xs)
        host = next((e for e in xs if e.get("cat") == "cpu_op"), None) or next(e for e in xs if "stream" not in (e.get("args") or {}))
        for e in ev:
            if "ts" in e:
                e["ts"] += 3400      # room for the early operators; they precede the first profiler step, so trimming keeps them
        ev[1:1] = [{"ph": "X", "cat": "cpu_op", "name": "aten::fill_", "pid": host["pid"], "tid": host["tid"], "ts": lo + 3 * k, "dur": 2} for k in range(1100)]
        case["params"]["annotation"], case["params"]["instance"] = "", None      # the whole trace is analysed
        # ... and the device work sits on streams whose ids do not fit a signed byte
        for e in ev:
            a = e.get("args")
            if isinstance(a, dict):
                if isinstance(a.get("stream"), int) and a["stream"] > 0:
                    a["stream"] += 200
                    if e.get("tid") == a["stream"] - 200:
                        e["tid"] = a["stream"]
                if isinstance(a.get("wait_on_stream"), int) and a["wait_on_stream"] > 0:
                    a["wait_on_stream"] += 200
    if rng.random() < 0.3:
        # clock jitter as real traces have it: a few events end one time unit late (a child past its parent, a kernel
        # into the next one of its stream). The analysis tolerates the resulting negative edge weights and reports
        # success; the property is about every graph a successful analysis produces, so these graphs must round-trip too
        xs = [e for e in case["ranks"][case["params"]["rank"]] if e.get("ph") == "X" and "dur" in e and e.get("cat") in ("cuda_runtime", "cuda_driver", "kernel", "gpu_memcpy", "gpu_memset", "cpu_op")]
        for e in rng.sample(xs, min(len(xs), rng.randint(1, 4))):
            e["dur"] += 1
        case["params"]["jitter"] = True
    if rng.random() < 0.3:
        # operator names that a text round trip may mistake for "missing" (the archive holds the frame as CSV), or that
        # shorten to an empty string
        xs = [e for e in case["ranks"][case["params"]["rank"]] if e.get("ph") == "X" and e.get("cat") == "cpu_op"]
        for e in rng.sample(xs, min(len(xs), rng.randint(1, 5))):
            e["name"] = rng.choice(["<forward op>", "None", "NA", "null", "nan", "(anonymous)", "N/A", "<unknown>", ""])
        case["params"]["odd_names"] = True
    case["params"]["cycles"] = rng.choice([1, 1, 2, 3])
    # a history over two directory names: saves, restores and what-if modifications of the current graph in between
    hist = []
    if rng.random() < 0.5:
        # the pattern that distinguishes "what the archive holds" from "what an earlier restore left behind":
        # a directory name is reused for a modified graph after it has been restored once
        d = rng.choice("AB")
        hist = [["save", d], ["restore", d], ["mutate", rng.random(), rng.choice([1, 7, 50, 500])],
                ["mutate", rng.random(), rng.choice([3, 70, 900])], ["save", d], ["restore", d]]
    for _ in range(rng.choice([0, 3, 4, 6])):
        r = rng.random()
        if r < 0.4:
            hist.append(["save", rng.choice("AB")])
        elif r < 0.75:
            hist.append(["restore", rng.choice("AB")])
        else:
            hist.append(["mutate", rng.random(), rng.choice([1, 7, 50, 500])])
    case["params"]["history"] = hist
    return case


def wf(case) -> bool:
    return CP.wf_cp(case) and "cycles" in case["params"]


def _dump(g) -> Dict[str, Any]:
    d = CP.dump_graph(g)
    out = {"nodes": [n[:3] for n in d["nodes"]], "edges": [e[:8] for e in d["edges"]],
           "path": [int(n) for n in g.critical_path_nodes],
           "edge_set": sorted([int(e.begin), int(e.end), int(e.weight), e.type.value] for e in g.critical_path_edges_set),
           "event_set": sorted(int(x) for x in g.critical_path_events_set),
           "maps": [sorted((int(k), int(v)) for k, v in g.event_to_start_node_map.items()),
                    sorted((int(k), int(v)) for k, v in g.event_to_end_node_map.items())]}
    out["adj"] = [[int(u), [[int(v), C.num(a["weight"]), a["object"].type.value if "object" in a else str(a.get("type"))] for v, a in nbrs.items()]]
                  for u, nbrs in g.adj.items()]
    try:
        with contextlib.redirect_stdout(io.StringIO()):
            bd = g.get_critical_path_breakdown()
            out["breakdown"] = sorted([[None if C.isnan(r["event_idx"]) else int(r["event_idx"]), C.num(r["duration"]), r["type"], str(r["bound_by"]),
                                        None if C.isnan(r["stream"]) else int(r["stream"]), str(r["s_name"])] for r in bd.to_dict("records")], key=str)
            out["summary"] = {str(k): ("nan" if C.isnan(v) else round(float(v), 9)) for k, v in g.summary().items()}
    except Exception as e:  # noqa: BLE001
        out["breakdown"] = "raises " + C.exc_name(e) + ": " + str(e)[:100]
    return out


def _path_weight(g) -> Any:
    p = g.critical_path_nodes
    return sum(g.edges[u, v]["weight"] for u, v in zip(p, p[1:]))


def observe(case):
    ta, files, g, ok = CP.run_cp(case)
    extracted = []
    try:
        canon: Dict[str, Any] = {"ok": ok, "cycles": []}
        if g is not None and ok is True:
            from hta.analyzers.critical_path_analysis import restore_cpgraph
            canon["orig"] = _dump(g)
            canon["orig_weight"] = C.num(_path_weight(g))
            cur = g
            base = os.path.dirname(files[case["params"]["rank"]])
            for i in range(case["params"]["cycles"]):
                try:
                    out_dir = os.path.join(base, f"cp_saved_{i}")
                    z = cur.save(out_dir)
                    extracted.append(os.path.join("/tmp", out_dir.lstrip("/")))
                    cur = restore_cpgraph(z, ta.t, case["params"]["rank"])
                    d = _dump(cur)
                    ok2 = cur.critical_path()
                    canon["cycles"].append({"dump": d, "recomputed_ok": bool(ok2), "recomputed_weight": C.num(_path_weight(cur)),
                                            "after_recompute": _dump(cur)})
                except Exception as e:  # noqa: BLE001
                    import traceback
                    canon["cycles"].append({"raises": C.exc_name(e) + ": " + str(e)[:100] + " @ " + traceback.format_exc().splitlines()[-3].strip()[:80]})
                    break
            # history phase: the same directory names are reused for different graphs
            canon["history"] = []
            saved_dump: Dict[str, Any] = {}
            zips: Dict[str, str] = {}
            for op in case["params"].get("history", []):
                rec: Dict[str, Any] = {"op": op}
                try:
                    if op[0] == "save":
                        out_dir = os.path.join(base, f"cp_hist_{op[1]}")
                        zips[op[1]] = cur.save(out_dir)
                        extracted.append(os.path.join("/tmp", out_dir.lstrip("/")))
                        saved_dump[op[1]] = _dump(cur)
                        rec["adj"] = saved_dump[op[1]]["adj"]
                    elif op[0] == "restore":
                        if op[1] not in zips:
                            rec["skipped"] = True
                        else:
                            cur = restore_cpgraph(zips[op[1]], ta.t, case["params"]["rank"])
                            rec["dump"] = _dump(cur)
                            rec["expected"] = saved_dump[op[1]]
                    else:
                        el = sorted(cur.edges)
                        u, v = el[int(op[1] * len(el)) % len(el)]
                        old = cur.edges[u, v]["weight"]
                        cur.edges[u, v]["weight"] = op[2]
                        try:
                            okm = cur.critical_path()
                        except AssertionError:
                            okm = False
                        if not okm:
                            cur.edges[u, v]["weight"] = old
                            cur.critical_path()
                            rec["skipped"] = True
                except Exception as e:  # noqa: BLE001
                    import traceback
                    rec["raises"] = C.exc_name(e) + ": " + str(e)[:100] + " @ " + traceback.format_exc().splitlines()[-3].strip()[:80]
                    canon["history"].append(rec)
                    break
                canon["history"].append(rec)
        return {"canon": canon}
    finally:
        htaio.remove_case_dir(files)
        for d in extracted:
            top = d
            shutil.rmtree(top, ignore_errors=True)
        # the extraction mirrors the scratch path under /tmp: remove the mirrored scratch root too
        scr = os.path.join("/tmp", htaio.scratch().lstrip("/"))
        shutil.rmtree(scr, ignore_errors=True)


def in_domain(case, obs) -> bool:
    return obs["canon"]["ok"] is True


def model(drv, case, obs):
    c = obs["canon"]
    if "orig" not in c:
        return {}
    # node-link round trip in the model: adjacency in insertion order -> links -> adjacency
    out = drv.call({"op": "c19", "adj": c["orig"]["adj"], "cycles": len(c["cycles"])})
    ops = []
    for rec in c.get("history", []):
        if rec.get("skipped") or "raises" in rec:
            continue
        if rec["op"][0] == "save":
            ops.append(["save", rec["op"][1], rec["adj"]])
        elif rec["op"][0] == "restore":
            ops.append(["restore", rec["op"][1]])
    out["history"] = drv.call({"op": "c19.history", "ops": ops})["restores"] if ops else []
    return out


def compare(obs, mod) -> List[str]:
    c = obs["canon"]
    out = []
    if "orig" not in c:
        return out
    for i, cy in enumerate(c["cycles"]):
        if "dump" not in cy:
            continue
        if cy["dump"]["adj"] != mod["states"][i]:
            a, b = cy["dump"]["adj"], mod["states"][i]
            d = [(x, y) for x, y in zip(a, b) if x != y][:2]
            out.append(f"cycle {i + 1}: restored adjacency differs from the model's decode(encode ·): {str(d)[:300]} (lengths {len(a)}/{len(b)})")
    k = 0
    for rec in c.get("history", []):
        if rec["op"][0] == "restore" and "dump" in rec:
            if k >= len(mod["history"]) or rec["dump"]["adj"] != mod["history"][k]:
                out.append(f"history: restore from directory {rec['op'][1]} differs from the model's store (latest save to that name)")
            k += 1
    return out[:4]


def oracle(case, obs) -> List[str]:
    c = obs["canon"]
    out = []
    saved = c.get("orig")
    for i, cy in enumerate(c["cycles"]):
        if "raises" in cy:
            out.append(f"save/restore cycle {i + 1} {cy['raises']}")
            continue
        for k in ("adj", "nodes", "edges", "path", "edge_set", "event_set", "maps", "breakdown", "summary"):
            if cy["dump"].get(k) != saved.get(k):
                a, b = saved.get(k), cy["dump"].get(k)
                d = [(x, y) for x, y in zip(a, b) if x != y][:2] if isinstance(a, list) and isinstance(b, list) else (a, b)
                out.append(f"cycle {i + 1}: restored {k} differs from the original: {str(d)[:300]}")
        if not cy["recomputed_ok"] or cy["recomputed_weight"] != c["orig_weight"]:
            out.append(f"cycle {i + 1}: recomputed critical path weighs {cy['recomputed_weight']}, original {c['orig_weight']}")
        saved = cy["after_recompute"]      # the state the next cycle saves (an equal-weight path may have been chosen)
    for rec in c.get("history", []):
        if "raises" in rec:
            out.append(f"history op {rec['op']} {rec['raises']}")
        elif rec["op"][0] == "restore" and "dump" in rec:
            for k in ("adj", "nodes", "edges", "path", "edge_set", "event_set", "maps", "breakdown", "summary"):
                if rec["dump"].get(k) != rec["expected"].get(k):
                    out.append(f"history: the graph restored from directory {rec['op'][1]} differs in {k} from the graph most recently saved there")
                    break
    return out[:8]


def features(case, obs):
    f = G.features(case)
    c = obs["canon"]
    f["cycles"] = len(c["cycles"])
    f["history_restores"] = sum(1 for r in c.get("history", []) if r["op"][0] == "restore" and "dump" in r)
    f["history_dir_reused"] = int(any(sum(1 for r in c.get("history", []) if r["op"][0] == "save" and r["op"][1] == d) >= 2 for d in "AB"))
    f["history_mutations"] = sum(1 for r in c.get("history", []) if r["op"][0] == "mutate" and not r.get("skipped"))
    if "orig" in c:
        f["edges"] = len(c["orig"]["edges"])
    return f


def nontrivial(case, obs, f) -> bool:
    return f.get("edges", 0) >= 4 and f["cycles"] >= 1


def sample(case, obs):
    c = obs["canon"]
    return {"params": case["params"], "nodes": len(c.get("orig", {}).get("nodes", [])), "edges": len(c.get("orig", {}).get("edges", [])),
            "cycles": [("ok" if "dump" in cy else cy) for cy in c["cycles"]]}


def corpus_cases():
    return C.corpus_for("C19")
