"""C06 — idle-time breakdown: gaps between stream-consecutive kernels, classified by rule."""
from __future__ import annotations

from typing import Any, Dict, List

from harness import gen as G
from harness import htaio
from harness.props import common as C

N_CASES = {"quick": 240, "thorough": 2400}
SHRINK = True
KERNEL_CATS = {"kernel", "Kernel", "gpu_memset", "Memset", "gpu_memcpy", "Memcpy", "mtia_ccp_events"}
ASSUMPTIONS = [
    "well-formed trace whose kernels do not overlap within a stream (simulator: FIFO streams); non-negative durations",
    "idle_time is compared exactly (integers), idle_time_ratio within 0.005 of the unrounded idle/total (any tie rule accepted); a category row that is absent counts as 0",
    "a stream requested but without kernels yields no rows",
]


def gen(rng, tier, no, wide=False):
    force = {}
    if rng.random() < 0.4:
        force = {"top_ops": 4, "max_depth": 4, "launch_rate": 0.6, "nstreams": 1}  # > 16 kernels per stream
    case = C.gen_with(rng, C.every_rank_has_device, **force)
    if rng.random() < 0.1:
        # the category names older Kineto versions wrote (the analysis lists them next to the current ones)
        legacy = {"kernel": "Kernel", "gpu_memcpy": "Memcpy", "gpu_memset": "Memset"}
        for ev in case["ranks"].values():
            for e in ev:
                if e.get("cat") in legacy:
                    e["cat"] = legacy[e["cat"]]
    if rng.random() < 0.12:
        # clock skew between host and device: a launch call that is stamped later than the start of the kernel it
        # launched (it keeps its end, so the thread stays properly nested)
        for ev in case["ranks"].values():
            ks = {(e.get("args") or {}).get("correlation"): e for e in ev if e.get("cat") in ("kernel", "gpu_memcpy", "gpu_memset")}
            ls = [e for e in ev if e.get("cat") in ("cuda_runtime", "cuda_driver") and (e.get("args") or {}).get("correlation") in ks
                  and ks[e["args"]["correlation"]]["ts"] < e["ts"] + e["dur"]]
            for e in rng.sample(ls, min(len(ls), rng.randint(1, 3))):
                k, end = ks[e["args"]["correlation"]], e["ts"] + e["dur"]
                e["ts"] = rng.randint(max(k["ts"] + 1, e["ts"]), end)
                e["dur"] = end - e["ts"]
    streams = sorted({(e.get("args") or {}).get("stream") for ev in case["ranks"].values() for e in ev
                      if "stream" in (e.get("args") or {})})
    sel = None if rng.random() < 0.4 else sorted(rng.sample(streams, rng.randint(1, len(streams))))
    gaps = [0, 1, 2, 3, 5, 10, 30, 60, 1000]
    case["params"] = {"ranks": sorted(rng.sample(sorted(case["ranks"]), rng.randint(1, len(case["ranks"])))),
                      "streams": sel, "delay": rng.choice(gaps) * rng.choice([1, case["cfg"]["grid"]]),
                      "stats": rng.random() < 0.3, "frac": rng.random() < 0.1}
    return case


def wf(case) -> bool:
    return "params" in case and all(r in case["ranks"] for r in case["params"]["ranks"]) and C.every_rank_has_device(case) and C.first_is_host_op(case)


def _kernel_rows(rows):
    return [x for x in rows if x[5] != -1 and x[10] in KERNEL_CATS]


def in_domain(case, obs) -> bool:
    return all(_kernel_rows(rows) for rows in obs["rows"].values())


def observe(case):
    p = case["params"]
    ta, files = C.load_case(case)
    try:
        rows = {r: htaio.rows_of(ta.t, r) for r in p["ranks"]}
        extra: Dict[str, Any] = {}
        try:
            df, st = ta.get_idle_time_breakdown(ranks=list(p["ranks"]), streams=p["streams"], visualize=False,
                                                consecutive_kernel_delay=p["delay"], show_idle_interval_stats=bool(p.get("stats")))
            canon: Dict[str, Any] = {}
            if p.get("stats") and st is not None:
                # the optional second frame: per category the number of gaps and their mean length
                stats = {}
                for cat, rec in st.reset_index().rename(columns={"index": "idle_category"}).set_index("idle_category", drop=False).iterrows():
                    stats.setdefault(f"{int(rec['rank'])}|{int(rec['stream'])}", {})[str(cat)] = [C.num(rec["count"]), C.num(rec["mean"])]
                extra["stats"] = stats
            for rec in df.itertuples(index=False):
                canon.setdefault(f"{int(rec.rank)}|{int(rec.stream)}", {})[str(rec.idle_category)] = [C.num(rec.idle_time), C.num(rec.idle_time_ratio)]
        except Exception as e:  # noqa: BLE001
            canon = {"raises": C.exc_name(e) + ": " + str(e)[:100]}
        twin = None
        if p.get("frac") and "raises" not in canon:
            def _call(ta2):
                d2, _ = ta2.get_idle_time_breakdown(ranks=list(p["ranks"]), streams=p["streams"], visualize=False,
                                                    consecutive_kernel_delay=p["delay"] / 8.0 if p["delay"] % 8 else p["delay"] // 8)
                o: Dict[str, Any] = {}
                for rec in d2.itertuples(index=False):
                    o.setdefault(f"{int(rec.rank)}|{int(rec.stream)}", {})[str(rec.idle_category)] = [C.num(float(rec.idle_time) * 8), C.num(rec.idle_time_ratio)]
                return o
            twin = C.frac_twin(case, _call)
        return {"rows": rows, "canon": canon, "stats": extra.get("stats"), "twin": twin}
    finally:
        htaio.remove_case_dir(files)


def _streams_for(case, rows):
    sel = case["params"]["streams"]
    if sel:
        return list(sel)
    seen = []
    for x in _kernel_rows(rows):
        if x[5] not in seen:
            seen.append(x[5])
    return seen


def model(drv, case, obs):
    out = {}
    for r, rows in obs["rows"].items():
        ans = drv.call({"op": "c06", "rows": rows, "delay": case["params"]["delay"], "streams": _streams_for(case, rows)})
        for s, hw, kw, ot, hp, kp, n in ans["streams"]:
            if n > 0:
                out[f"{r}|{s}"] = {"host_wait": hw, "kernel_wait": kw, "other": ot}
    return out


def _cmp(tag, key, got, exp) -> List[str]:
    out = []
    total = sum(exp.values())
    for cat, v in exp.items():
        g = got.get(cat, [0, 0.0])
        if g[0] != v:
            out.append(f"{key} {cat}: impl idle_time={g[0]} {tag}={v}")
        elif total != 0 and cat in got:
            e = v / total
            if g[1] == "nan" or abs(float(g[1]) - e) > 0.005 + 1e-9:
                out.append(f"{key} {cat}: impl ratio={g[1]} {tag}={e}")
    return out


def compare(obs, mod) -> List[str]:
    c = obs["canon"]
    if "raises" in c:
        return [f"impl raises {c['raises']}"]
    out = []
    if set(c) != set(mod):
        out.append(f"(rank|stream) keys impl={sorted(c)} model={sorted(mod)}")
    for key, exp in mod.items():
        if key in c:
            out += _cmp("model", key, c[key], exp)
    return out


def oracle(case, obs) -> List[str]:
    c = obs["canon"]
    if "raises" in c:
        return [f"analysis raised {c['raises']}"]
    out = []
    tw = obs.get("twin")
    if tw is not None:
        if "raises" in tw:
            out.append(tw["raises"])
        elif set(tw) != set(c) or any(set(tw[k]) != set(c[k]) or any(abs(float(tw[k][cat][0]) - float(c[k][cat][0])) > 0.0401 or
                (tw[k][cat][1] != "nan" and c[k][cat][1] != "nan" and abs(float(tw[k][cat][1]) - float(c[k][cat][1])) > 0.011) for cat in c[k]) for k in c):
            out.append(f"at one eighth of the time scale (HTA_DISABLE_NS_ROUNDING=1, threshold scaled too) the idle times times 8 (reported to two decimals, so within 0.04) are {tw}, the integer trace gives {c}")
    delay = case["params"]["delay"]
    for r, rows in obs["rows"].items():
        by_idx = {x[0]: x for x in rows}
        for s in _streams_for(case, rows):
            ks = [x for x in _kernel_rows(rows) if x[5] == s]
            if not ks:
                continue
            # stream order induced by non-overlap: by start, zero-length kernels first at equal starts
            ks.sort(key=lambda x: (x[1], x[2]))
            for a, b in zip(ks, ks[1:]):
                if a[1] + a[2] > b[1]:
                    return []  # overlapping kernels in a stream: outside the quantifier
            exp = {"host_wait": 0, "kernel_wait": 0, "other": 0}
            for a, b in zip(ks, ks[1:]):
                gap = b[1] - (a[1] + a[2])
                launch = by_idx.get(b[7]) if b[7] > 0 else None
                if launch is not None and launch[7] == b[0] and launch[1] > a[1] + a[2]:
                    exp["host_wait"] += gap
                elif gap < delay:
                    exp["kernel_wait"] += gap
                else:
                    exp["other"] += gap
            key = f"{r}|{s}"
            got = c.get(key)
            if got is None:
                out.append(f"{key}: no rows reported for a stream with {len(ks)} kernels")
                continue
            out += _cmp("rule", key, got, exp)
            span = ks[-1][1] + ks[-1][2] - ks[0][1]
            busy = sum(x[2] for x in ks)
            tot = sum(v[0] for v in got.values())
            if tot != span - busy:
                out.append(f"{key}: categories add up to {tot}, span - busy = {span - busy}")
            rs = [float(v[1]) for v in got.values() if v[1] != "nan"]
            if tot != 0 and abs(sum(rs) - 1.0) > 0.011 * len(rs):
                out.append(f"{key}: ratios add up to {sum(rs)}")
            st = (obs.get("stats") or {}).get(key)
            if st is not None:
                n = sum(int(float(v[0])) for v in st.values() if v[0] != "nan")
                if n != len(ks) - 1:
                    out.append(f"{key}: interval statistics count {n} gaps, the stream has {len(ks) - 1}")
                for cat, v in st.items():
                    if v[0] != "nan" and float(v[0]) > 0 and cat in exp and abs(float(v[0]) * float(v[1]) - exp[cat]) > 0.005 * float(v[0]) + 1e-6:
                        out.append(f"{key} {cat}: interval statistics count*mean = {float(v[0]) * float(v[1])}, gaps add up to {exp[cat]}")
    return out


def features(case, obs):
    f = G.features(case)
    c = obs["canon"]
    if "raises" not in c:
        for cat in ("host_wait", "kernel_wait", "other"):
            f["cat_" + cat] = int(any(v.get(cat, [0])[0] > 0 for v in c.values()))
        f["streams_reported"] = len(c)
        f["stream_gt16"] = int(any(sum(1 for x in _kernel_rows(rows) if x[5] == s) > 16 for rows in obs["rows"].values() for s in {x[5] for x in _kernel_rows(rows)}))
        f["kernel_without_launch"] = int(any(x[7] <= 0 for rows in obs["rows"].values() for x in _kernel_rows(rows)))
    return f


def nontrivial(case, obs, f) -> bool:
    return f.get("streams_reported", 0) >= 1 and G.nontrivial(f)


def sample(case, obs):
    return {"params": case["params"], "impl": obs["canon"]}


def corpus_cases():
    return C.corpus_for("C06")
