"""C02 — correlation links pair each launch call with its device activity, mutually."""
from __future__ import annotations

import os
from typing import Any, Dict, List

from harness import gen as G
from harness import htaio
from harness.props import common as C

N_CASES = {"quick": 240, "thorough": 2400}
SHRINK = True
SYNC_NAMES = {"Event Sync", "Context Sync"}
ASSUMPTIONS = [
    "well-formed trace: unique event ids; a correlation id pairs at most one host-side with at most one device-side event; device streams positive; event 0 is a host operator without correlation id",
    "both the parse-only frame (Trace.parse_traces) and the loaded frame (load_traces, possibly trimmed) are compared",
]


def gen(rng, tier, no, wide=False):
    more = {"two_threads": True, "nsteps": rng.choice([2, 3])} if rng.random() < 0.2 else {}
    if rng.random() < 0.12:
        # rank-specific vocabularies (each rank's own table below 128 symbols, the job-wide one above), several steps and
        # blocking calls: the synchronisation records are recognised by name id when the last step is trimmed
        more = {"nranks": rng.choice([2, 3]), "filler": -90, "nsteps": rng.choice([2, 3]), "sync_rate": 0.3}
    case = G.gen_case(rng, **{**{"missing_rate": rng.choice([0.0, 0.1, 0.25, 0.4]), "sync_rate": rng.choice([0.0, 0.1, 0.2])}, **more})
    # Kineto-style GPU-side sync records on stream -1, paired with their host call by correlation
    for r, ev in case["ranks"].items():
        extra = []
        for e in ev:
            if e.get("name") in ("cudaDeviceSynchronize", "cudaStreamSynchronize") and rng.random() < 0.7:
                a = e["args"]
                nm = "Context Sync" if e["name"] == "cudaDeviceSynchronize" else rng.choice(["Stream Sync", "Event Sync"])
                args = {"correlation": a["correlation"], "External id": a["External id"]}
                if nm == "Stream Sync":
                    args["stream"] = 7
                elif rng.random() < 0.15:
                    del args["correlation"]      # a synchronisation record on stream -1 that carries no correlation id
                lead = min(e["dur"], case["cfg"]["grid"] * rng.choice([0, 0, 1, 3]))     # the record may start after its host call
                steps = [x["ts"] for x in ev if str(x.get("name", "")).startswith("ProfilerStep#")]
                if steps and e["ts"] < max(steps) <= e["ts"] + e["dur"] and rng.random() < 0.7:
                    lead = max(steps) - e["ts"]     # ... exactly when the last profiler step begins
                extra.append({"ph": "X", "cat": "cuda_sync", "name": nm, "pid": r, "tid": 7 if nm == "Stream Sync" else 0,
                              "ts": e["ts"] + lead, "dur": e["dur"] - lead, "args": args})
        for x in extra:
            ev.insert(rng.randint(1, len(ev)), x)
    if rng.random() < 0.15:
        # ROCm-style traces: host runtime calls carry the stream as a handle string, which is not a stream number
        # (such a call stays on the host side)
        for ev in case["ranks"].values():
            hs = [e for e in ev if e.get("cat") in ("cuda_runtime", "cuda_driver") and isinstance(e.get("args"), dict) and "stream" not in e["args"]]
            for e in rng.sample(hs, min(len(hs), rng.randint(1, 4))):
                e["args"]["stream"] = rng.choice(["0x5608a1c0e3d0", "0x0", "0x7f00", "stream-legacy"])
    return case


def wf(case) -> bool:
    if not C.first_is_host_op(case):
        return False
    for ev in case["ranks"].values():
        seen = set()
        for e in ev:
            if e.get("ph") != "X" or "dur" not in e or e.get("cat") == "Trace":
                continue
            a = e.get("args") or {}
            c = a.get("correlation", -1)
            if c == -1:
                continue
            st = a.get("stream", -1)
            dev = (isinstance(st, int) and st >= 0 and c >= 0) or e["name"] in SYNC_NAMES
            if (c, dev) in seen:
                return False
            seen.add((c, dev))
    return True


def observe(case):
    files = htaio.write_case(case)
    try:
        htaio.hta_setup()
        from hta.common.trace import Trace
        t = Trace(trace_files=dict(files), trace_dir=os.path.dirname(next(iter(files.values()))))
        try:
            t.parse_traces(use_multiprocessing=False)
        except Exception as e:  # noqa: BLE001
            import traceback
            where = [l.strip() for l in traceback.format_exc().splitlines() if "/hta/" in l][-1:]
            return {"rows": {}, "loaded": {}, "canon": {"parsed": {}, "loaded": {}, "raises": C.exc_name(e) + ": " + str(e)[:100] + " @ " + " ".join(where)[-90:]}}
        parsed = {r: htaio.rows_of(t, r) for r in t.get_ranks()}
        ta = htaio.load(files, ctor=case.get("ctor"))
        C.disturb(ta, case.get("pre"))
        loaded = {r: htaio.rows_of(ta.t, r) for r in ta.t.get_ranks()}
        canon = {"parsed": {r: sorted([x[0], x[7]] for x in rows) for r, rows in parsed.items()},
                 "loaded": {r: sorted([x[0], x[7]] for x in rows) for r, rows in loaded.items()}}
        return {"rows": parsed, "loaded": loaded, "canon": canon}
    finally:
        htaio.remove_case_dir(files)


def model(drv, case, obs):
    return {"parsed": {r: sorted(drv.call({"op": "c02", "rows": rows})["links"]) for r, rows in obs["rows"].items()},
            "loaded": {r: sorted(drv.call({"op": "c02", "rows": rows})["links"]) for r, rows in obs["loaded"].items()}}


def compare(obs, mod) -> List[str]:
    out = []
    for which in ("parsed", "loaded"):
        for r, m in mod[which].items():
            i = obs["canon"][which].get(r)
            if i != m:
                d = [(a, b) for a, b in zip(i or [], m) if a != b][:5]
                out.append(f"{which} rank {r}: (idx, link) impl vs model differ at {d}")
    return out


def _dev(x) -> bool:
    return (x[5] >= 0 and x[6] >= 0) or x[9] in SYNC_NAMES


def oracle(case, obs) -> List[str]:
    out = []
    if "raises" in obs["canon"]:
        return [f"parsing a well-formed trace raises {obs['canon']['raises']}: no links at all"]
    def file_side(r):
        # which side an event is on, read off the file: a device activity has an integer stream number (a handle string
        # on a ROCm host call is not one) or is a synchronisation record by name
        ev = case["ranks"].get(r, case["ranks"].get(str(r), []))
        side = {}
        for i, e in enumerate(ev):
            if isinstance(e, dict) and "dur" in e:
                a = e.get("args") or {}
                st = a.get("stream", -1)
                c = a.get("correlation", -1)
                side[i] = (isinstance(st, int) and not isinstance(st, bool) and st >= 0 and isinstance(c, int) and c >= 0) or e.get("name") in SYNC_NAMES
        return side
    for which, frames in (("parsed", obs["rows"]), ("loaded", obs["loaded"])):
        for r, rows in frames.items():
            by_idx = {x[0]: x for x in rows}
            side = file_side(r)
            _dev = lambda x, side=side: side.get(x[0], (x[5] >= 0 and x[6] >= 0) or x[9] in SYNC_NAMES)      # noqa: E731
            for x in rows:
                partners = [p for p in rows if p[6] == x[6] and x[6] != -1 and _dev(p) != _dev(x)]
                link = x[7]
                if partners:
                    if len(partners) == 1:
                        p = partners[0]
                        if link != p[0]:
                            out.append(f"{which} rank {r}: event {x[0]} link {link}, counterpart is {p[0]}")
                        elif p[7] != x[0]:
                            out.append(f"{which} rank {r}: link {x[0]}->{p[0]} is not mutual ({p[0]}->{p[7]})")
                else:
                    exp = -1 if x[6] == -1 else 0
                    if link != exp:
                        out.append(f"{which} rank {r}: event {x[0]} (corr {x[6]}) without counterpart has link {link}, expected {exp}")
                if link > 0:
                    t = by_idx.get(link)
                    if t is None or t[6] != x[6] or _dev(t) == _dev(x):
                        out.append(f"{which} rank {r}: event {x[0]} linked to {link}, which is not an opposite-side event with the same correlation")
    return out[:10]


def features(case, obs):
    f = G.features(case)
    rows = [x for fr in obs["rows"].values() for x in fr]
    f["linked"] = sum(1 for x in rows if x[7] > 0)
    f["sentinel0"] = sum(1 for x in rows if x[7] == 0)
    f["sync_on_stream_minus1"] = sum(1 for x in rows if x[9] in SYNC_NAMES)
    f["device_before_host_in_file"] = sum(1 for x in rows if x[7] > x[0] and _dev(x))
    return f


def nontrivial(case, obs, f) -> bool:
    return f["linked"] >= 2 or "raises" in obs["canon"]


def sample(case, obs):
    if not obs["rows"]:
        return {"raises": obs["canon"].get("raises")}
    r0 = sorted(obs["rows"])[0]
    return {"rank0_idx_corr_stream_link": [[x[0], x[6], x[5], x[7]] for x in obs["rows"][r0] if x[6] != -1][:14]}


def corpus_cases():
    return C.corpus_for("C02")
