"""C13 — call-graph attributes (depth, height, kernel totals) agree with the tree."""
from __future__ import annotations

from typing import Any, Dict, List

from harness import gen as G
from harness import htaio
from harness.props import common as C
from harness.props.c02 import wf as wf_c02

N_CASES = {"quick": 200, "thorough": 2000}
SHRINK = True
COLS = ["parent", "depth", "height", "num_kernels", "kernel_dur_sum", "kernel_span", "first_kernel_start", "last_kernel_end"]
ASSUMPTIONS = [
    "well-formed trace loaded through TraceAnalysis (shifted timestamps); thread ids are non-zero; at most one thread with profiler steps and one autograd thread per rank for the attachment clause",
    "children order inside a node is not compared (the attributes are order-independent)",
    "the loaded frame's index_correlation is the model's input for the device links (C02 decides it)",
]


def gen(rng, tier, no, wide=False):
    force: Dict[str, Any] = {"nsteps": rng.choice([0, 1, 2, 3]), "two_threads": rng.random() < 0.6}
    if force["two_threads"] and force["nsteps"] > 0 and rng.random() < 0.6:
        force["bwd"] = True
    case = G.gen_case(rng, **force)
    if rng.random() < 0.25:
        # a further host thread (a data-loader / worker thread) whose id is the largest of the rank
        for r, ev in case["ranks"].items():
            xs = [e for e in ev if e.get("ph") == "X" and "dur" in e and "stream" not in (e.get("args") or {})]
            if not xs:
                continue
            t0 = min(e["ts"] for e in xs)
            g = case["cfg"]["grid"]
            tid = 10 * max(int(e["tid"]) for e in xs if isinstance(e.get("tid"), int)) + 7
            ev.insert(rng.randint(1, len(ev)), {"ph": "X", "cat": "cpu_op", "name": "worker::fetch", "pid": xs[0]["pid"], "tid": tid, "ts": t0 + g, "dur": 6 * g})
            ev.insert(rng.randint(1, len(ev)), {"ph": "X", "cat": "cpu_op", "name": "worker::decode", "pid": xs[0]["pid"], "tid": tid, "ts": t0 + 2 * g, "dur": 2 * g})
    case["params"] = {"include_last": rng.random() < 0.7}
    return case


def wf(case) -> bool:
    return "params" in case and wf_c02(case)


def observe(case):
    ta, files = C.load_case(case, include_last=case["params"]["include_last"])
    try:
        rows = {r: htaio.rows_of(ta.t, r) for r in ta.t.get_ranks()}
        canon: Dict[str, Any] = {}
        extra: Dict[str, Any] = {}
        try:
            from hta.common.trace_call_graph import CallGraph
            cg = CallGraph(ta.t)
            for r in ta.t.get_ranks():
                df = cg.trace_data.get_trace(r)
                out = []
                for rec in df[["index"] + COLS].itertuples(index=False):
                    p = htaio._i(rec[1])
                    out.append([htaio._i(rec[0]), -1 if p < 0 else p] + [C.num(v) for v in rec[2:]])
                canon[r] = sorted(out)
            # the second observation point: CallGraph.get_stack_of_node for a sample of nodes, the ranks asked in
            # alternation (the object caches the rank it answered last)
            stacks = []
            picks = []
            for r in ta.t.get_ranks():
                ids = [x[0] for x in canon[r] if x[2] >= 0]
                step = max(1, len(ids) // 6)
                picks.append([(r, i) for i in ids[::step][:7]])
            order = [p for grp in zip(*[g + [None] * (7 - len(g)) for g in picks]) for p in grp if p is not None]
            for k, (r, i) in enumerate(order):
                skip = k % 3 == 1
                try:
                    st = cg.get_stack_of_node(i, rank=r, skip_ancestors=skip)
                    stacks.append([r, i, skip, sorted(int(v) for v in st["index"])])
                except Exception as e:  # noqa: BLE001
                    stacks.append([r, i, skip, "raises " + C.exc_name(e) + ": " + str(e)[:80]])
            extra["stacks"] = stacks
        except Exception as e:  # noqa: BLE001
            import traceback
            canon = {"raises": C.exc_name(e) + ": " + str(e)[:120] + " @ " + traceback.format_exc().splitlines()[-3].strip()[:80]}
        return {"rows": rows, "canon": canon, "key": extra.get("stacks"), "stacks": extra.get("stacks", [])}
    finally:
        htaio.remove_case_dir(files)


def model(drv, case, obs):
    out = {}
    for r, rows in obs["rows"].items():
        a = drv.call({"op": "c13", "rows": rows})
        out[r] = sorted([x[0], -1 if x[1] < 0 else x[1]] + x[2:] for x in a["attrs"]) if "attrs" in a else a
    return out


def compare(obs, mod) -> List[str]:
    c = obs["canon"]
    if "raises" in c:
        return [f"impl raises {c['raises']}"]
    out = []
    for r, m in mod.items():
        if c.get(r) != m:
            d = [(a, b) for a, b in zip(c.get(r, []), m) if a != b][:3]
            out.append(f"rank {r}: [idx,parent,depth,height,num_kernels,dur_sum,span,first,last] impl vs model {d}")
    return out


def oracle(case, obs) -> List[str]:
    c = obs["canon"]
    if "raises" in c:
        return [f"call graph construction raised {c['raises']}"]
    out = []
    for r, i, skip, st in obs.get("stacks") or []:
        got = {x[0]: x for x in c[r]}
        by = {x[0]: x for x in obs["rows"][r]}
        par = {k: g[1] for k, g in got.items() if g[2] >= 0}
        kids: Dict[int, List[int]] = {}
        for k, p in par.items():
            kids.setdefault(p, []).append(k)

        def below(k, seen):
            res = []
            for ch in kids.get(k, []):
                if ch not in seen:
                    seen.add(ch)
                    res += [ch] + below(ch, seen)
            return res

        def above(k):
            res, seen = [], {k}
            while par.get(k, -1) >= 0 and par[k] not in seen:
                k = par[k]
                seen.add(k)
                res.append(k)
            return res
        if by[i][5] > 0:
            exp = sorted({i} | (set() if skip else set(above(i))))
        else:
            exp = sorted({i} | set(below(i, {i})) | (set() if skip else set(above(i))))
        if st != exp:
            out.append(f"rank {r}: get_stack_of_node({i}, skip_ancestors={skip}) gives {st if isinstance(st, str) else st[:12]}, the tree gives {exp[:12]}")
    for r, rows in obs["rows"].items():
        rows = C.relink(rows)      # links by correlation id, not the implementation's column
        by = {x[0]: x for x in rows}
        got = {x[0]: x for x in c[r]}
        kids: Dict[int, List[int]] = {}
        for i, g in got.items():
            if g[2] >= 0 or g[1] >= 0:
                kids.setdefault(g[1], []).append(i)
        in_graph = {i for i, g in got.items() if g[2] >= 0}
        for i, g in got.items():
            x = by[i]
            if x[5] > 0 and x[7] > 0 and by.get(x[7], [0] * 6)[5] == -1:
                if g[1] != x[7]:
                    out.append(f"rank {r}: device activity {i} linked to host call {x[7]} has parent {g[1]}")
            if x[5] == -1 and g[1] < 0 and g[2] != 0:
                out.append(f"rank {r}: top-level event {i} (no parent) has depth {g[2]}")
            if i in in_graph and g[1] >= 0:
                if g[1] == i:
                    out.append(f"rank {r}: event {i} is its own parent")
                elif g[1] not in got:
                    out.append(f"rank {r}: event {i} has parent {g[1]}, which is not an event of the rank")
                elif got[g[1]][2] + 1 != g[2]:
                    out.append(f"rank {r}: event {i} depth {g[2]} but parent {g[1]} has depth {got[g[1]][2]}")
        # descendants by parent pointers

        def desc(i, seen):
            res = []
            for k in kids.get(i, []):
                if k in seen or k == i:
                    continue
                seen.add(k)
                res.append(k)
                res += desc(k, seen)
            return res
        for i, g in got.items():
            x = by[i]
            if x[5] != -1 or i not in in_graph:
                continue
            ds = desc(i, {i})
            dev = [by[k] for k in ds if by[k][5] > 0]
            exp = [len(dev), sum(k[2] for k in dev), (max(k[1] + k[2] for k in dev) - min(k[1] for k in dev)) if dev else 0,
                   min(k[1] for k in dev) if dev else -1, max(k[1] + k[2] for k in dev) if dev else -1]
            if g[4:9] != exp:
                out.append(f"rank {r}: host event {i} kernel attributes {g[4:9]}, descendants give {exp}")
            hk = [got[k][3] for k in kids.get(i, []) if k != i]
            eh = max([1] + [h + 1 for h in hk])
            if g[3] != eh:
                out.append(f"rank {r}: host event {i} height {g[3]}, children heights {hk}")
        for i, g in got.items():
            if by[i][5] > 0 and i in in_graph and g[3] != 0:
                out.append(f"rank {r}: device activity {i} has height {g[3]}")
        # attachment of the autograd thread's top-level operators
        threads = {}
        for x in rows:
            if x[5] == -1:
                threads.setdefault((x[3], x[4]), []).append(x)
        mains = [t for t, xs in threads.items() if any(y[9].startswith("ProfilerStep#") for y in xs)]
        bwds = [t for t, xs in threads.items() if t not in mains and any("autograd::" in y[9] for y in xs)]
        if len(mains) == 1 and len(bwds) == 1:
            anns = [y for y in threads[mains[0]] if y[9].startswith("## backward ##")] or [y for y in threads[mains[0]] if y[9].startswith("ProfilerStep#")]
            bx = threads[bwds[0]]
            pos = [y for y in bx if y[2] > 0]
            for y in bx:
                top = not any(z[0] != y[0] and z[1] <= y[1] and y[1] + y[2] <= z[1] + z[2] and (z[2] > y[2] or (z[2] == y[2] and z[0] < y[0]) ) for z in pos) if y[2] > 0 else None
                if not top:
                    continue
                inside = [a for a in anns if a[1] <= y[1] and y[1] + y[2] <= a[1] + a[2]]
                if inside and got[y[0]][1] not in [a[0] for a in inside]:
                    out.append(f"rank {r}: autograd top-level operator {y[0]} lies within annotation {[a[0] for a in inside]} but has parent {got[y[0]][1]}")
                if not inside and got[y[0]][1] != -1:
                    out.append(f"rank {r}: autograd top-level operator {y[0]} lies in no annotation but has parent {got[y[0]][1]}")
    return out[:10]


def features(case, obs):
    f = G.features(case)
    c = obs["canon"]
    if "raises" not in c:
        f["host_with_kernels"] = sum(1 for v in c.values() for x in v if x[4] > 0 and x[3] > 0)
        f["max_height"] = max([x[3] for v in c.values() for x in v] + [0])
        f["bwd_attached"] = int(bool(case["cfg"].get("bwd")))
        f["two_threads"] = int(bool(case["cfg"].get("two_threads")))
        f["stack_queries"] = len(obs.get("stacks") or [])
        f["stack_queries_with_ancestors_and_descendants"] = sum(1 for q in (obs.get("stacks") or []) if not isinstance(q[3], str) and len(q[3]) >= 3)
    return f


def nontrivial(case, obs, f) -> bool:
    return f.get("host_with_kernels", 0) >= 1


def sample(case, obs):
    c = obs["canon"]
    r0 = sorted(obs["rows"])[0]
    return {"cfg": {k: case["cfg"].get(k) for k in ("nsteps", "two_threads", "bwd")}, "attrs_head": c.get(r0, c)[:8] if "raises" not in c else c}


def corpus_cases():
    return C.corpus_for("C13")
