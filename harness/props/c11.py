"""C11 — symbol ids are a stable bijection; results ignore id numbering and parse order."""
from __future__ import annotations

import itertools
import json
import os
import subprocess
import sys
import tempfile
import time
from typing import Any, Dict, List

from harness import gen as G
from harness import htaio
from harness.props import common as C

N_CASES = {"quick": 60, "thorough": 600}
SHRINK = False
WORKERS = {"quick": 8, "thorough": 16}
ASSUMPTIONS = [
    "Pool.map returns results in argument order (trusted); OS scheduling is not modelled: worker completion orders are forced by injected delays for <= 3 ranks only (partial for the scheduling clause)",
    "the local tables handed to the global table are recorded by wrapping TraceSymbolTable.add_symbols in the harness process (no change to /repo)",
    "independence of the hash seed is exercised by re-running a battery of analyses in subprocesses under other PYTHONHASHSEED values and with the process pool on/off, requiring identical canonical output",
]
_TINY = [
    {"ph": "X", "cat": "cpu_op", "name": "aten::op", "pid": 9, "tid": 9, "ts": 0, "dur": 100},
    {"ph": "X", "cat": "cuda_runtime", "name": "cudaLaunchKernel", "pid": 9, "tid": 9, "ts": 5, "dur": 5, "args": {"correlation": 3}},
    {"ph": "X", "cat": "kernel", "name": "k", "pid": 0, "tid": 7, "ts": 12, "dur": 20, "args": {"correlation": 3, "stream": 7}},
    {"ph": "X", "cat": "cuda_runtime", "name": "cudaDeviceSynchronize", "pid": 9, "tid": 9, "ts": 15, "dur": 20, "args": {"correlation": 4}},
    {"ph": "X", "cat": "cuda_sync", "name": "Context Sync", "pid": 0, "tid": -1, "ts": 16, "dur": 19, "args": {"correlation": 4, "stream": -1}},
    {"ph": "X", "cat": "cuda_runtime", "name": "cudaEventSynchronize", "pid": 9, "tid": 9, "ts": 40, "dur": 5, "args": {"correlation": 5}},
    {"ph": "X", "cat": "cuda_sync", "name": "Event Sync", "pid": 0, "tid": -1, "ts": 41, "dur": 4, "args": {"correlation": 5, "stream": -1}},
]
VOCAB = ["a", "b", "kernel", "cpu_op", "aten::add", "", "ProfilerStep#1", "nccl", "x" * 40, "ü", "a b"]
ROOT = os.path.dirname(os.path.dirname(os.path.dirname(os.path.abspath(__file__))))


def gen(rng, tier, no, wide=False):
    case = G.gen_case(rng, nranks=rng.choice([1, 2, 2, 3, 3]))
    ops = []
    for _ in range(rng.randint(1, 8)):
        r = rng.random()
        if r < 0.5:
            ops.append(["add", [rng.choice(VOCAB) for _ in range(rng.randint(0, 5))]])
        elif r < 0.7:
            ops.append(["encode", rng.choice(VOCAB)])
        elif r < 0.9:
            ops.append(["decode", rng.randint(0, 8)])
        else:
            ops.append(["table"])
    ops.append(["table"])
    n = len(case["ranks"])
    # vocabulary sizes on both sides of the narrow integer boundaries (int8: 127, uint8: 255): one rank gets many
    # distinct operator names so that global ids exceed what another rank's small local table needs
    if rng.random() < 0.35:
        big = rng.choice(sorted(case["ranks"]))
        ev = case["ranks"][big]
        xs = [e for e in ev if e.get("ph") == "X"]
        t0 = max((e["ts"] + e.get("dur", 0) for e in xs), default=0) + 10
        host = next((e for e in xs if e.get("cat") == "cpu_op"), xs[0])
        for k in range(rng.choice([130, 140, 270])):
            ev.append({"ph": "X", "cat": "cpu_op", "name": f"aten::vocab_r{big}_{k}", "pid": host["pid"], "tid": host["tid"],
                       "ts": t0 + 3 * k, "dur": 2})
    # GPU user annotations (record_function ranges as Kineto projects them onto a stream): nested ranges around the
    # kernels of one stream, two of them with the same span, so that which annotation a kernel is attributed to rests on
    # a tie (get_gpu_kernels_with_user_annotations / get_gpu_user_annotation_breakdown are part of the battery)
    if rng.random() < 0.5:
        for r in sorted(case["ranks"]):
            ev = case["ranks"][r]
            ks = [e for e in ev if e.get("cat") == "kernel" and isinstance((e.get("args") or {}).get("stream"), int)]
            if not ks:
                continue
            k0 = rng.choice(ks)
            same = [e for e in ks if e["pid"] == k0["pid"] and e["tid"] == k0["tid"]]
            a, b = min(e["ts"] for e in same), max(e["ts"] + e["dur"] for e in same)
            for nm, lo, hi in [("phase_outer", a - 2, b + 2), ("phase_inner", a - 2, b + 2), ("phase_leaf", a, a + max(1, (b - a) // 2))]:
                ev.insert(rng.randint(1, len(ev)), {"ph": "X", "cat": "gpu_user_annotation", "name": nm + rng.choice(["", f"_r{r}"]), "pid": k0["pid"], "tid": k0["tid"],
                                                     "ts": lo, "dur": hi - lo, "args": {"External id": 900 + r}})
    # four kernels with different names and the same total duration, heavier than all others: with three named rows in the
    # kernel breakdown, which of the four is folded into "others" is decided by a tie
    if rng.random() < 0.5:
        for r in sorted(case["ranks"]):
            ev = case["ranks"][r]
            ks = [e for e in ev if e.get("cat") == "kernel" and isinstance((e.get("args") or {}).get("stream"), int)]
            hs = [e for e in ev if e.get("cat") == "cpu_op"]
            if not ks or not hs:
                continue
            sums: Dict[str, int] = {}
            for e in ks:
                sums[e["name"]] = sums.get(e["name"], 0) + e["dur"]
            d = max(sums.values()) + 5
            t = max(e["ts"] + e.get("dur", 0) for e in ev if e.get("ph") == "X" and "ts" in e) + 20
            k0, h0 = ks[0], hs[0]
            names = ["tie_kernel_d", "tie_kernel_a", "tie_kernel_c", "tie_kernel_b"]
            rng.shuffle(names)
            ev.append({"ph": "X", "cat": "cpu_op", "name": "aten::tie_block", "pid": h0["pid"], "tid": h0["tid"], "ts": t, "dur": 4 * d + 40, "args": {"External id": 880000 + r}})
            for j, nm in enumerate(names):
                c = 88000000 + 10 * r + j
                ev.append({"ph": "X", "cat": "cuda_runtime", "name": "cudaLaunchKernel", "pid": h0["pid"], "tid": h0["tid"], "ts": t + 1 + 2 * j, "dur": 1, "args": {"correlation": c, "External id": c}})
                ev.append({"ph": "X", "cat": "kernel", "name": nm, "pid": k0["pid"], "tid": k0["tid"], "ts": t + 10 + j * (d + 1), "dur": d,
                           "args": {"correlation": c, "stream": k0["args"]["stream"], "device": r, "External id": c}})
    # vocabulary inclusion: a rank other than the first one whose vocabulary contains every symbol of all the others (its
    # local table is then as long as the global one, numbered differently)
    if n >= 2 and rng.random() < 0.25:
        sup = rng.choice(sorted(case["ranks"])[1:])
        ev = case["ranks"][sup]
        xs = [e for e in ev if e.get("ph") == "X" and "dur" in e]
        t0 = max((e["ts"] + e.get("dur", 0) for e in xs), default=0) + 1000
        host = next((e for e in xs if e.get("cat") == "cpu_op"), xs[0])
        pairs = sorted({(str(e.get("name", "")), e["cat"]) for r, oe in case["ranks"].items() if r != sup
                        for e in oe if e.get("ph") == "X" and "dur" in e and e.get("cat") not in (None, "Trace")})
        for k, (nm, cat) in enumerate(pairs):
            ev.append({"ph": "X", "cat": cat, "name": nm, "pid": host["pid"], "tid": host["tid"], "ts": t0 + 3 * k, "dur": 2})
    # names that are also category strings of the same file (a record_function("kernel") annotation, an operator called cpu_op)
    if rng.random() < 0.25:
        r0 = rng.choice(sorted(case["ranks"]))
        xs = [e for e in case["ranks"][r0] if e.get("ph") == "X" and e.get("cat") in ("cpu_op", "user_annotation") and not str(e.get("name", "")).startswith("ProfilerStep")]
        for e in rng.sample(xs, min(len(xs), rng.randint(1, 3))):
            e["name"] = rng.choice(["kernel", "cpu_op", "cuda_runtime", "user_annotation", "gpu_memcpy"])
    case["params"] = {"ops": ops, "mp": rng.random() < 0.6, "order": rng.sample(range(n), n),
                      "probe": (no % (4 if tier == "quick" else 3)) == 0, "mp_symbols": rng.random() < 0.2, "direct_order": rng.random() < 0.4, "tiny_probe": no % 30 == 7}
    return case


def _run_ops(ops):
    htaio.hta_setup()
    from hta.common.trace_symbol_table import TraceSymbolTable
    t = TraceSymbolTable()
    outs = []
    views: List[str] = []
    for o in ops:
        if o[0] == "add":
            t.add_symbols(list(o[1]))
            outs.append(len(t.get_sym_table()))
        elif o[0] == "encode":
            outs.append(t.get_sym_id_map().get(o[1]))
        elif o[0] == "decode":
            tab = t.get_sym_table()
            outs.append(tab[o[1]] if o[1] < len(tab) else None)
        else:
            outs.append(list(t.get_sym_table()))
            views.extend(_views(t))
    ok = list(t.get_sym_table()) == [s for s, _ in sorted(t.get_sym_id_map().items(), key=lambda kv: kv[1])]
    return outs, ok and not views, views


def _views(t) -> List[str]:
    """The other ways the class hands its content out (cached series, clone, combination, data-frame encode/decode),
    each of which must agree with the list/dict pair at the moment it is asked."""
    import pandas as pd
    from hta.common.trace_symbol_table import TraceSymbolTable
    bad = []
    tab, ids = list(t.get_sym_table()), dict(t.get_sym_id_map())
    if list(t.get_sym_table_series()) != tab:
        bad.append("get_sym_table_series is stale")
    if {k: int(v) for k, v in t.get_sym_index_series().to_dict().items()} != ids:
        bad.append("get_sym_index_series is stale")
    if tab and {int(k): v for k, v in t.get_symbol_names(list(range(len(tab)))).items()} != dict(enumerate(tab)):
        bad.append("get_symbol_names differs from the table")
    cl = TraceSymbolTable.clone(t)
    if list(cl.get_sym_table()) != tab or dict(cl.get_sym_id_map()) != ids:
        bad.append("clone differs")
    cl.add_symbols(["__only_in_clone__"])
    if list(t.get_sym_table()) != tab:
        bad.append("adding to a clone changed the original")
    co = TraceSymbolTable.combine_symbol_tables([t, cl])
    if list(co.get_sym_table())[: len(tab)] != tab:
        bad.append("combine_symbol_tables renumbered the first table")
    if len(tab) >= 2:
        df = pd.DataFrame({"name": tab, "cat": list(reversed(tab))})
        t.encode_df(df)
        if list(df["name"]) != list(range(len(tab))):
            bad.append("encode_df ids differ from the table")
        t.decode_df(df, create_new_columns=True)
        if list(df.get("s_name", [])) != tab or list(df.get("s_cat", [])) != list(reversed(tab)):
            bad.append("decode_df(encode_df(x)) != x")
    return bad


def _probe(case, seed: int, mp: bool) -> Dict[str, str]:
    fd, path = tempfile.mkstemp(prefix="htaverif-probe-", suffix=".json", dir=os.environ.get("HTA_VERIF_SCRATCH", "/var/tmp"))
    os.close(fd)
    try:
        with open(path, "w") as fh:
            json.dump({"ranks": case["ranks"]}, fh)
        env = dict(os.environ, PYTHONHASHSEED=str(seed))
        p = subprocess.run([sys.executable, "-m", "harness.hashseed_probe", path, "1" if mp else "0"], cwd=ROOT, env=env,
                           capture_output=True, text=True, timeout=300)
        if p.returncode != 0:
            return {"error": p.stderr[-400:]}
        return json.loads(p.stdout.strip().splitlines()[-1])
    finally:
        os.unlink(path)


def observe(case):
    p = case["params"]
    outs, consistent, views = _run_ops(p["ops"])
    canon: Dict[str, Any] = {"ops": outs, "list_dict_consistent": consistent, "views": views}
    files = htaio.write_case(case)
    try:
        from hta.common import trace as T
        from hta.common.trace_symbol_table import TraceSymbolTable
        added: List[List[str]] = []
        orig_add = TraceSymbolTable.add_symbols
        orig_parse = T.parse_trace_file
        ranks = sorted(files)
        delay = {files[r]: 0.03 * p["order"].index(i) for i, r in enumerate(ranks)}

        def rec_add(self, symbols):
            symbols = list(symbols)
            if getattr(self, "_verif_global", False):
                added.append(symbols)
            return orig_add(self, symbols)

        def slow_parse(path, cfg=None):
            res = orig_parse(path, cfg)
            time.sleep(delay.get(path, 0))
            return res
        TraceSymbolTable.add_symbols = rec_add
        T.parse_trace_file = slow_parse
        try:
            t = T.Trace(trace_files=dict(files), trace_dir=os.path.dirname(files[ranks[0]]))
            t.symbol_table._verif_global = True
            if p.get("direct_order"):
                # the ranks handed to the parser in the order of the case's permutation (parse order is the caller's choice)
                order = [ranks[i] for i in p["order"]]
                t.parse_multiple_ranks(order, p["mp"] and len(order) > 1, True)
                t.is_parsed = True
            else:
                t.parse_traces(use_multiprocessing=p["mp"])
        finally:
            TraceSymbolTable.add_symbols = orig_add
            T.parse_trace_file = orig_parse
        tab = list(t.symbol_table.get_sym_table())
        idmap = dict(t.symbol_table.get_sym_id_map())
        canon["global_table"] = tab
        canon["locals"] = added
        canon["bijection"] = (len(set(tab)) == len(tab) and all(idmap.get(s) == i for i, s in enumerate(tab)) and len(idmap) == len(tab))
        dec = {}
        for r in t.get_ranks():
            df = t.get_trace(r)
            dec[r] = sorted([int(i), tab[int(n)], tab[int(c)]] for i, n, c in zip(df["index"], df["name"], df["cat"]))
        canon["decoded"] = dec
        if p["mp_symbols"]:
            t2 = TraceSymbolTable()
            t2.add_symbols(["pre", "a"])
            before = list(t2.get_sym_table())
            t2.add_symbols_mp([["a", "b", "c"], ["c", "d"], ["e"]])
            after = list(t2.get_sym_table())
            canon["mp_symbols"] = {"prefix_stable": after[: len(before)] == before, "set": sorted(after),
                                   "bijection": len(set(after)) == len(after) and all(t2.get_sym_id_map()[s] == i for i, s in enumerate(after))}
        if p["probe"]:
            from harness.hashseed_probe import battery
            base = battery(case, False)
            canon["probe"] = {"base": base, "seed1_mp": _probe(case, 1, True), "seed777": _probe(case, 777, False)}
        if p.get("tiny_probe"):
            # a trace with a handful of symbols, two of them the names of device-side synchronisation records: under a
            # dozen hash seeds each of them is bound to receive every small id (0 included) at least once
            tiny = {"ranks": {0: _TINY}}
            from harness.hashseed_probe import battery
            canon["tiny_probe"] = {"base": battery(tiny, False), "seeds": {str(sd): _probe(tiny, sd, False) for sd in range(1, 13)}}
        return {"canon": canon}
    finally:
        htaio.remove_case_dir(files)


def model(drv, case, obs):
    c = obs["canon"]
    m = {"ops": drv.call({"op": "c11.ops", "ops": case["params"]["ops"]})["outs"]}
    g = drv.call({"op": "c11.global", "locals": c["locals"]})
    m["global_table"] = g["table"]
    m["maps_total"] = all(all(v is not None for v in mp) for mp in g["maps"])
    return m


def compare(obs, mod) -> List[str]:
    c = obs["canon"]
    out = []
    if c["ops"] != mod["ops"]:
        d = [(i, a, b) for i, (a, b) in enumerate(zip(c["ops"], mod["ops"])) if a != b][:3]
        out.append(f"symbol-table op sequence: impl vs model differ at {d}")
    if c["global_table"] != mod["global_table"]:
        out.append(f"global table impl={c['global_table'][:8]} model={mod['global_table'][:8]}")
    if not mod["maps_total"]:
        out.append("model: some local id has no global id")
    return out


def oracle(case, obs) -> List[str]:
    c = obs["canon"]
    out = []
    if not c["list_dict_consistent"]:
        out.append("sym_table and sym_index disagree after the op sequence" + (": " + "; ".join(c.get("views") or []) if c.get("views") else ""))
    if not c["bijection"]:
        out.append("global symbol table is not a bijection")
    # decoded rows equal the file's strings
    for r, ev in case["ranks"].items():
        exp = sorted([i, e["name"], e["cat"]] for i, e in enumerate(ev) if "dur" in e and e.get("cat") not in (None, "Trace"))
        if c["decoded"].get(r) != exp:
            out.append(f"rank {r}: rows do not decode to the file's name/cat strings")
    vocab = {s for ev in case["ranks"].values() for e in ev if "dur" in e and e.get("cat") not in (None, "Trace") for s in (e["name"], e["cat"])}
    if set(c["global_table"]) != vocab:
        out.append(f"global table is not the union of the ranks' vocabularies: {sorted(set(c['global_table']) ^ vocab)[:5]}")
    # ids stable across op sequence: every 'table' output is a prefix of the later ones
    tabs = [o for o in c["ops"] if isinstance(o, list)]
    for a, b in zip(tabs, tabs[1:]):
        if b[: len(a)] != a:
            out.append("an assigned id changed when more symbols were added")
    ms = c.get("mp_symbols")
    if ms and not (ms["prefix_stable"] and ms["bijection"] and ms["set"] == sorted(["pre", "a", "b", "c", "d", "e"])):
        out.append(f"add_symbols_mp result {ms}")
    tp = c.get("tiny_probe")
    if tp:
        bad = sorted(sd for sd, v in tp["seeds"].items() if v != tp["base"])
        if bad:
            v = tp["seeds"][bad[0]]
            diff = {a: (tp["base"].get(a), v.get(a)) for a in set(tp["base"]) | set(v) if tp["base"].get(a) != v.get(a)}
            out.append(f"results of a small trace with synchronisation records depend on the hash seed (seeds {bad}): {diff}")
    pr = c.get("probe")
    if pr:
        for k in ("seed1_mp", "seed777"):
            if pr[k] != pr["base"]:
                diff = {a: (pr["base"].get(a), pr[k].get(a)) for a in set(pr["base"]) | set(pr[k]) if pr["base"].get(a) != pr[k].get(a)}
                out.append(f"analysis results differ under {k}: {diff}")
    return out


def features(case, obs):
    c = obs["canon"]
    return {"multi_rank": int(len(case["ranks"]) > 1), "mp": int(case["params"]["mp"]), "probe": int("probe" in c),
            "overlapping_vocab": int(len(case["ranks"]) > 1), "order_" + "".join(map(str, case["params"]["order"])): 1,
            "mp_symbols": int("mp_symbols" in c), "ops": len(case["params"]["ops"])}


def nontrivial(case, obs, f) -> bool:
    return True


def sample(case, obs):
    c = obs["canon"]
    return {"ops": case["params"]["ops"][:4], "outs": c["ops"][:4], "global_table_head": c["global_table"][:6], "probe": c.get("probe", {}).get("base")}


def corpus_cases():
    return C.corpus_for("C11")
