"""Shared by C08/C09/C10/C19/C20: generate critical-path cases, run the analysis, dump the graph."""
from __future__ import annotations

import os
from typing import Any, Dict, List, Optional

from harness import gen as G
from harness import htaio
from harness.props import common as C
from harness.props.c02 import wf as wf_c02

ETYPES = {"critical_path_operator": "op", "critical_path_dependency": "dep", "critical_path_kernel_launch_delay": "launch",
          "critical_path_kernel_kernel_delay": "kk", "critical_path_sync_dependency": "sync"}


def gen_cp_case(rng, nranks=None, **more):
    sync_rate = rng.choice([0.0, 0.1, 0.2, 0.3])
    event_rate = rng.choice([0.0, 0.25, 0.4])
    if nranks is None:
        nranks = rng.choice([1, 1, 1, 2, 3])     # the other ranks of the job are loaded too; one of them is analysed
    focus = rng.random() < 0.15      # two host threads feeding the same streams around CUDA-event waits
    if focus:
        sync_rate, event_rate = 0.0, 0.4
    # a device-wide synchronisation must wait for every thread's work; the simulator schedules threads one
    # after the other: with blocking calls (and no CUDA events) the second thread's activities are fitted around the
    # returns of the first thread's blocking calls (RankSim.fit_around_syncs), otherwise a second launching thread
    # is only generated when there are no blocking calls
    two_with_syncs = sync_rate > 0 and event_rate == 0.0 and not focus and rng.random() < 0.5
    case = C.gen_with(rng, lambda c: C.every_rank_has_device(c) and all(has_linked_launch(ev) for ev in c["ranks"].values()), nranks=nranks, sync_rate=sync_rate, event_rate=event_rate, **({"nstreams": rng.choice([2, 2, 3])} if (event_rate or (sync_rate and rng.random() < 0.7)) else {}), **({"long_idle": True} if rng.random() < 0.06 else {}), **more,
                      missing_rate=rng.choice([0.0, 0.0, 0.1]), nsteps=rng.choice([0, 1, 2, 3]),
                      zero_rate=rng.choice([0.0, 0.1, 0.2]), two_threads=two_with_syncs or (sync_rate == 0.0 and (focus or rng.random() < (0.6 if event_rate else 0.4))),
                      sync_ties=two_with_syncs and rng.random() < 0.6, early_record=0.45,
                      **({"share_streams": 0.9, "launch_rate": 0.6, "top_ops": 4} if focus else ({"share_streams": 0.7} if (event_rate or two_with_syncs) and rng.random() < 0.7 else {})))
    G.add_sync_records(rng, case)
    steps = sorted({e["name"] for ev in case["ranks"].values() for e in ev if str(e.get("name", "")).startswith("ProfilerStep#")})
    r = rng.random()
    if r < 0.4 or not steps:
        ann, inst = "", None
    elif r < 0.75:
        n = len(steps)
        opts = [None, 0] + ([1, (0, 1)] if n >= 2 else []) + ([(0, 2), (1, 2), 2] if n >= 3 else [])
        ann, inst = "ProfilerStep", rng.choice(opts)
    else:
        ann, inst = rng.choice(steps), None
    case["params"] = {"rank": rng.choice(sorted(case["ranks"])), "annotation": ann, "instance": inst,
                      "zero_weight_launch": rng.random() < 0.5, "include_last": True}
    return case


LAUNCH_CALLS = {"cudaLaunchKernel", "cudaLaunchKernelExC", "cuLaunchKernel", "cudaMemcpyAsync", "cudaMemsetAsync"}


def has_linked_launch(events) -> bool:
    """At least one launch call whose device activity (a kernel / copy on a stream) is in the trace. Without one the
    analysis has nothing to order (its queue-length input does not exist) and stops with a TypeError; such traces are
    outside the quantifier of the critical-path properties."""
    host = {(e.get("args") or {}).get("correlation") for e in events
            if e.get("ph") == "X" and e.get("name") in LAUNCH_CALLS and "stream" not in (e.get("args") or {})}
    dev = {(e.get("args") or {}).get("correlation") for e in events
           if e.get("ph") == "X" and (e.get("args") or {}).get("stream", -1) >= 0 and e.get("cat") in ("kernel", "gpu_memcpy", "gpu_memset")}
    host.discard(None)
    return bool(host & dev)


def wf_cp(case) -> bool:
    return ("params" in case and wf_c02(case) and C.every_rank_has_device(case) and case["params"]["rank"] in case["ranks"]
            and has_linked_launch(case["ranks"][case["params"]["rank"]]))


def run_cp(case):
    """Returns (ta, files, cp_graph or None, success flag or exception text)."""
    p = case["params"]
    os.environ["CRITICAL_PATH_ADD_ZERO_WEIGHT_LAUNCH_EDGE"] = "1" if p["zero_weight_launch"] else "0"
    ta, files = C.load_case(case, include_last=p.get("include_last", True))
    from hta.analyzers import critical_path_analysis as CPA
    try:
        CPA.CPGraph._add_zero_weight_launch_edges.cache_clear()
    except Exception:
        pass
    inst = tuple(p["instance"]) if isinstance(p["instance"], (list, tuple)) else p["instance"]
    try:
        res = ta.critical_path_analysis(rank=p["rank"], annotation=p["annotation"], instance_id=inst)
        if res is None:
            return ta, files, None, "none"
        return ta, files, res[0], bool(res[1])
    except Exception as e:  # noqa: BLE001
        import traceback
        # judged on what was actually loaded (trailing events are trimmed with the profiler steps): a rank without a
        # single launch call linked to a device activity gives the analysis nothing to order; outside the quantifier
        rows = htaio.rows_of(ta.t, p["rank"])
        by_idx = {x[0]: x for x in rows}
        linked = any(x[9] in LAUNCH_CALLS and x[7] > 0 and x[7] in by_idx and by_idx[x[7]][5] >= 0 for x in rows)
        if not linked:
            return ta, files, None, "degenerate: no launch call linked to a device activity after loading"
        if not any(x[5] == -1 and x[2] > 0 for x in rows):
            # the analysis only considers host events of positive duration: nothing is left to analyse
            return ta, files, None, "degenerate: no host event of positive duration"
        return ta, files, None, "raises " + C.exc_name(e) + ": " + str(e)[:100] + " @ " + traceback.format_exc().splitlines()[-3].strip()[:90]


def dump_graph(g) -> Dict[str, Any]:
    nodes = [[int(n.ev_idx), bool(n.is_start), int(n.ts), int(n.idx)] for n in g.node_list]
    edges = []
    for u, v in g.edges:
        o = g.edges[u, v]["object"]
        a = g.edge_to_event_map.get((u, v))
        nu, nv = g.node_list[u], g.node_list[v]
        edges.append([int(nu.ev_idx), bool(nu.is_start), int(nv.ev_idx), bool(nv.is_start), int(o.weight), ETYPES[o.type.value],
                      None if a is None else int(a), C.num(g.edges[u, v]["weight"]), int(u), int(v)])
    try:
        import networkx as nx
        order = list(nx.topological_sort(g))
        rank = [[int(g.node_list[n].ev_idx), bool(g.node_list[n].is_start), i] for i, n in enumerate(order)]
    except Exception:
        rank = None
    return {"nodes": sorted(nodes), "edges": sorted(edges, key=lambda e: (e[0], not e[1], e[2], not e[3])), "rank": rank}
