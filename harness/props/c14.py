"""C14 — queue-length and memory-bandwidth counters are exact step functions."""
from __future__ import annotations

import gzip
import json
import os
from typing import Any, Dict, List

from harness import gen as G
from harness import htaio
from harness.props import common as C

N_CASES = {"quick": 120, "thorough": 2000}
SHRINK = True
BW_SCALE = 1000  # generated bandwidths are dyadic with <= 3 fractional bits, so x1000 is an integer
LAUNCH_NAMES = {"cudaMemsetAsync", "cudaMemcpyAsync", "cudaLaunchKernel", "cudaLaunchKernelExC", "cuLaunchKernel",
                "runFunction - job_prep_and_submit_for_execution", "hipLaunchKernel", "hipExtModuleLaunchKernel",
                "hipMemcpyAsync", "hipMemsetAsync", "hipMemcpyWithStream"}
ASSUMPTIONS = [
    "well-formed trace; device activities start no earlier than their launch calls (simulator invariant)",
    "bandwidth values are generated as dyadic rationals so that float accumulation is exact; they are compared within 1e-9 (IEEE accumulation on arbitrary values is not modelled: partial)",
    "within one instant the order of equal (ts, queue) rows is the implementation's choice: sequences of (ts, value) are compared, event ids as multisets",
    "non-negativity of transient bandwidth rows inside an instant is checked by the oracle only (the theorem covers the value after each instant)",
]


def gen(rng, tier, no, wide=False):
    force = {"memcpy_rate": rng.choice([0.2, 0.4, 0.6])}
    if rng.random() < 0.4:
        force.update({"top_ops": 4, "max_depth": 4, "launch_rate": 0.6, "nstreams": 1})  # > 16 rows per stream
    if rng.random() < 0.04:
        force["deep_queue"] = 1100          # more launches outstanding on one stream than any queue limit the tool knows of
    case = G.gen_case(rng, **force)
    if rng.random() < 0.15:
        # device copies that carry no correlation id (nothing in the trace launched them): they are not part of any
        # queue, but they move bytes all the same
        for ev in case["ranks"].values():
            ms = [e for e in ev if e.get("cat") in ("gpu_memcpy", "gpu_memset") and isinstance(e.get("args"), dict)]
            for e in rng.sample(ms, min(len(ms), rng.randint(1, 2))):
                e["args"].pop("correlation", None)
                e["args"].pop("External id", None)
    case["params"] = {"ranks": sorted(rng.sample(sorted(case["ranks"]), rng.randint(1, len(case["ranks"])))),
                      "gz": rng.random() < 0.5}
    return case


def wf(case) -> bool:
    return "params" in case and all(r in case["ranks"] for r in case["params"]["ranks"])


def _read_any(path: str):
    with open(path, "rb") as fh:
        head = fh.read(2)
    if head == b"\x1f\x8b":
        with gzip.open(path, "rt") as fh:
            return json.load(fh)
    with open(path) as fh:
        return json.load(fh)


def observe(case):
    p = case["params"]
    files = htaio.write_case(case, gz=p["gz"])
    try:
        ta = htaio.load(files, ctor=case.get("ctor"))
        C.disturb(ta, case.get("pre"))
        ranks = list(p["ranks"])
        rows = {r: htaio.rows_of(ta.t, r) for r in ranks}
        bw = {}
        for r in ranks:
            df = ta.t.get_trace(r)
            bw[r] = [[int(i), round(float(v) * BW_SCALE)] for i, v in zip(df["index"], df["memory_bw_gbps"])] \
                if "memory_bw_gbps" in df.columns else []
        canon: Dict[str, Any] = {}
        try:
            q = ta.get_queue_length_time_series(ranks)
            canon["queue"] = {}
            for r, df in q.items():
                per: Dict[int, List[List[int]]] = {}
                for idx, rec in zip(df.index, df.itertuples(index=False)):
                    per.setdefault(int(rec.stream), []).append([int(idx), C.num(rec.ts), C.num(rec.pid), C.num(rec.tid), C.num(rec.queue_length)])
                canon["queue"][int(r)] = per
            m = ta.get_memory_bw_time_series(ranks)
            canon["bw"] = {}
            for r, df in m.items():
                per2: Dict[str, List[List[Any]]] = {}
                for rec in df.itertuples(index=False):
                    per2.setdefault(str(rec.name), []).append([C.num(rec.ts), C.num(rec.pid), float(rec.memory_bw_gbps)])
                canon["bw"][int(r)] = per2
            ta.generate_trace_with_counters(ranks=ranks)
            canon["counters"] = {}
            for r in ranks:
                outp = files[r].replace(".json", "_with_counters.json")
                if not os.path.exists(outp):
                    continue
                doc = _read_any(outp)
                src = case["ranks"][r]
                evs = doc["traceEvents"]
                canon["counters"][int(r)] = {
                    "prefix_preserved": evs[: len(src)] == json.loads(json.dumps(src)),
                    "extra": [[e.get("name"), C.num(e.get("ts")), e.get("pid"), e.get("id"), list((e.get("args") or {}).items())] for e in evs[len(src):]],
                }
        except Exception as e:  # noqa: BLE001
            canon = {"raises": C.exc_name(e) + ": " + str(e)[:120]}
        return {"rows": rows, "bw": bw, "canon": canon, "min_ts": C.num(ta.t.min_ts)}
    finally:
        htaio.remove_case_dir(files)


def model(drv, case, obs):
    out: Dict[str, Any] = {"queue": {}, "bw": {}}
    for r, rows in obs["rows"].items():
        q = drv.call({"op": "c14.queue", "rows": rows})
        out["queue"][r] = {s: l for s, l in q["streams"]}
        b = drv.call({"op": "c14.bw", "rows": rows, "bw": obs["bw"][r]})
        out["bw"][r] = {ty: {"series": ser, "copies": cs} for ty, ser, cs in b["types"]}
    return out


def _last_of_instant(seq):
    d = {}
    for t, v in seq:
        d[t] = v
    return d


def compare(obs, mod) -> List[str]:
    c = obs["canon"]
    if "raises" in c:
        return [f"impl raises {c['raises']}"]
    out: List[str] = []
    for r in obs["rows"]:
        iq = c["queue"].get(r, {})
        mq = mod["queue"][r]
        if set(iq) != set(mq):
            out.append(f"rank {r}: streams impl={sorted(iq)} model={sorted(mq)}")
            continue
        for s in mq:
            a = [[x[1], x[4]] for x in iq[s]]
            b = [[x[1], x[4]] for x in mq[s]]
            if a != b:
                out.append(f"rank {r} stream {s}: (ts,queue_length) sequence impl={a[:12]} model={b[:12]}")
            if sorted(x[:4] for x in iq[s]) != sorted(x[:4] for x in mq[s]):
                out.append(f"rank {r} stream {s}: rows (idx,ts,pid,tid) differ")
        ib = c["bw"].get(r, {})
        mb = mod["bw"][r]
        if set(ib) != set(mb):
            out.append(f"rank {r}: copy types impl={sorted(ib)} model={sorted(mb)}")
            continue
        for ty in mb:
            a = _last_of_instant([[x[0], x[2]] for x in ib[ty]])
            b = _last_of_instant(mb[ty]["series"])
            if set(a) != set(b) or len(ib[ty]) != len(mb[ty]["series"]):
                out.append(f"rank {r} {ty}: instants differ")
                continue
            for t in b:
                if abs(a[t] * BW_SCALE - b[t]) > 1e-6 * max(1, abs(b[t])):
                    out.append(f"rank {r} {ty} t={t}: impl={a[t]} model={b[t] / BW_SCALE}")
    return out


def oracle(case, obs) -> List[str]:
    c = obs["canon"]
    if "raises" in c:
        return [f"analysis raised {c['raises']}"]
    out: List[str] = []
    for r, rows in obs["rows"].items():
        rows = C.relink(rows)      # links by correlation id, not the implementation's column
        by_idx = {x[0]: x for x in rows}
        # linked pairs per stream, from the links
        pairs: Dict[int, List[List[int]]] = {}
        for h in rows:
            if h[9] in LAUNCH_NAMES and h[7] > 0 and h[7] in by_idx and by_idx[h[7]][5] != -1:
                d = by_idx[h[7]]
                pairs.setdefault(d[5], []).append([h[1], d[1]])
        iq = c["queue"].get(r, {})
        if set(iq) != set(pairs):
            out.append(f"rank {r}: queue series for streams {sorted(iq)}, linked pairs on streams {sorted(pairs)}")
            continue
        for s, seq in iq.items():
            ps = pairs[s]
            causal = all(l <= k for l, k in ps)
            for t, v in _last_of_instant([[x[1], x[4]] for x in seq]).items():
                exp = sum(1 for l, _ in ps if l <= t) - sum(1 for _, k in ps if k <= t)
                if v != exp:
                    out.append(f"rank {r} stream {s} t={t}: series {v} after the instant, launches-starts = {exp}")
            if causal and any(x[4] < 0 for x in seq):
                out.append(f"rank {r} stream {s}: negative queue length {[(x[1], x[4]) for x in seq if x[4] < 0][:4]} although no activity starts before its launch")
            if seq and seq[-1][4] != 0:
                out.append(f"rank {r} stream {s}: series ends at {seq[-1][4]}")
            if len(seq) != 2 * len(ps):
                out.append(f"rank {r} stream {s}: {len(seq)} rows for {len(ps)} pairs")
        # bandwidth
        bwmap = dict((i, v) for i, v in obs["bw"][r])
        for ty, seq in c["bw"].get(r, {}).items():
            cps = [(x[1], x[1] + (x[2] if x[2] != 0 else 1), bwmap.get(x[0], 0) / BW_SCALE) for x in rows
                   if x[5] != -1 and (x[9].startswith("Memcpy") or x[9].startswith("Memset") or x[9].startswith("dma"))
                   and _mtype(x[9]) == ty]
            for t, v in _last_of_instant([[x[0], x[2]] for x in seq]).items():
                exp = sum(b for a, e, b in cps if a <= t < e)
                if abs(v - exp) > 1e-6 * max(1.0, abs(exp)):
                    out.append(f"rank {r} {ty} t={t}: series {v}, active copies sum {exp}")
            if any(x[2] < -1e-9 for x in seq):
                out.append(f"rank {r} {ty}: negative bandwidth {min(x[2] for x in seq)}")
        # counter events
        cn = c["counters"].get(r)
        if cn is not None:
            if not cn["prefix_preserved"]:
                out.append(f"rank {r}: source events not preserved as a prefix of the counters file")
            exp_q = sorted(["Queue Length", x[1] + obs["min_ts"], x[2], s, x[4]] for s, seq in iq.items() for x in seq)
            got_q = sorted([e[0], e[1], e[2], e[3], e[4][0][1]] for e in cn["extra"] if e[0] == "Queue Length")
            if exp_q != got_q:
                out.append(f"rank {r}: queue counter events differ from the series at unshifted time: missing {[x for x in exp_q if x not in got_q][:3]} extra {[x for x in got_q if x not in exp_q][:3]}")
            # ... and in the file the last counter event of an instant carries the series' value after that instant
            last_exp = {}
            for s, seq in iq.items():
                for x in seq:
                    last_exp[(s, x[1] + obs["min_ts"])] = x[4]
            last_got = {}
            for e in cn["extra"]:
                if e[0] == "Queue Length":
                    last_got[(e[3], e[1])] = e[4][0][1]
            badq = [(k, last_got.get(k), v) for k, v in last_exp.items() if k in last_got and last_got[k] != v][:3]
            if badq and exp_q == got_q:
                out.append(f"rank {r}: the last queue counter event of an instant differs from the series after that instant: (stream, ts), file, series {badq}")
            exp_b = sorted([ty, x[0] + obs["min_ts"], x[1], round(x[2], 6)] for ty, seq in c["bw"].get(r, {}).items() for x in seq)
            got_b = sorted([e[0], e[1], e[2], round(float(e[4][0][1]), 6)] for e in cn["extra"] if e[0] != "Queue Length")
            if exp_b != got_b:
                out.append(f"rank {r}: bandwidth counter events differ from the series: {exp_b[:3]} vs {got_b[:3]}")
    return out


def _mtype(name: str) -> str:
    if name[:6] == "Memset":
        return "Memset"
    if name[:6] != "Memcpy":
        return "Memcpy Unknown"
    return name[:11]


def features(case, obs):
    f = G.features(case)
    c = obs["canon"]
    if "raises" not in c:
        seqs = [seq for per in c["queue"].values() for seq in per.values()]
        f["queue_rows"] = sum(len(s) for s in seqs)
        f["stream_gt16_rows"] = int(any(len(s) > 16 for s in seqs))
        f["instant_with_several_rows"] = int(any(len(s) != len({x[1] for x in s}) for s in seqs))
        f["launch_and_start_same_ts"] = 0
        for r, rows in obs["rows"].items():
            by_idx = {x[0]: x for x in rows}
            for h in rows:
                if h[9] in LAUNCH_NAMES and h[7] > 0 and h[7] in by_idx and by_idx[h[7]][1] == h[1]:
                    f["launch_and_start_same_ts"] = 1
        f["bw_types"] = sum(len(v) for v in c["bw"].values())
    return f


def nontrivial(case, obs, f) -> bool:
    return f.get("queue_rows", 0) >= 2


def sample(case, obs):
    c = obs["canon"]
    if "raises" in c:
        return c
    r0 = sorted(c["queue"])[0] if c["queue"] else None
    return {"params": case["params"], "queue_first_stream": (list(c["queue"][r0].items())[0][1][:10] if r0 is not None and c["queue"][r0] else []),
            "bw": {k: v[:6] for k, v in (c["bw"].get(r0, {}) if r0 is not None else {}).items()}}


def corpus_cases():
    return C.corpus_for("C14")
