"""Glue to the real HTA in /repo's working tree: write trace files, load, extract rows."""
from __future__ import annotations

import atexit
import gzip
import json
import logging
import os
import shutil
import sys
import tempfile
from typing import Any, Dict, List, Optional

REPO = os.environ.get("HTA_REPO") or "/repo"
if sys.path[0] != REPO:
    sys.path.insert(0, REPO)
os.environ.setdefault("HTA_VERIF_HOOKS", "1")

_SCRATCH: Optional[str] = None


def scratch() -> str:
    global _SCRATCH
    if _SCRATCH is None:
        base = os.environ.get("HTA_VERIF_SCRATCH", "/var/tmp")
        _SCRATCH = tempfile.mkdtemp(prefix="htaverif-", dir=base)
        atexit.register(lambda: shutil.rmtree(_SCRATCH, ignore_errors=True))
    return _SCRATCH


_hta_ready = False


def hta_setup() -> None:
    """Import HTA from /repo and silence its logging."""
    global _hta_ready
    if _hta_ready:
        return
    import warnings
    warnings.filterwarnings("ignore")
    import hta  # noqa: F401
    assert os.path.realpath(hta.__file__).startswith(os.path.realpath(REPO)), hta.__file__
    from hta.configs.config import logger
    if not os.environ.get("HTA_VERIF_LOG"):
        logger.setLevel(logging.CRITICAL)
        logging.getLogger("hta").setLevel(logging.CRITICAL)
    if not os.environ.get("HTA_VERIF_LOG"):
        logging.disable(logging.CRITICAL)
    _hta_ready = True


_case_no = 0


def write_case(case: Dict[str, Any], gz: bool = False, compact: bool = False) -> Dict[int, str]:
    """Write one trace file per rank; returns rank -> path."""
    global _case_no
    _case_no += 1
    d = os.path.join(scratch(), f"case{_case_no}")
    os.makedirs(d, exist_ok=True)
    files: Dict[int, str] = {}
    for r, ev in case["ranks"].items():
        r = int(r)
        doc = {"schemaVersion": 1, "distributedInfo": {"backend": "nccl", "rank": r, "world_size": len(case["ranks"])},
               "deviceProperties": [{"id": 0, "name": "sim"}], "traceEvents": ev,
               "traceName": f"rank{r}.json"}
        doc.update(case.get("meta", {}).get(str(r), {}))
        p = os.path.join(d, f"rank{r}.json" + (".gz" if gz else ""))
        if gz:
            with gzip.open(p, "wt") as fh:
                json.dump(doc, fh)
        else:
            with open(p, "w") as fh:
                json.dump(doc, fh, indent=None if compact else 1)
        files[r] = p
    return files


def remove_case_dir(files: Dict[int, str]) -> None:
    for p in files.values():
        shutil.rmtree(os.path.dirname(p), ignore_errors=True)
        break


# notes of the loading step of the case under evaluation (cleared by the runner before each case): a loaded frame
# that does not correspond to its rank's file is a violation of whatever is analysed on top of it
LOAD_NOTES: List[str] = []


def check_frames_match_files(t, ranks_events: Dict[Any, List[Any]]) -> None:
    """Every row of a loaded frame carries, in its `index` column, the position of its event in the rank's file: name,
    category and (integral) duration of that event must be the row's. Never raises; appends to LOAD_NOTES."""
    try:
        tab = t.symbol_table.get_sym_table()
        for r in t.get_ranks():
            ev = ranks_events.get(r, ranks_events.get(str(r)))
            if ev is None:
                continue
            df = t.get_trace(r)
            bad = None
            for idx, nm, ct, du in zip(df["index"].tolist(), df["name"].tolist(), df["cat"].tolist(), df["dur"].tolist()):
                i = int(idx)
                e = ev[i] if 0 <= i < len(ev) else None
                if not isinstance(e, dict):
                    bad = f"row {i} has no event in the file"
                    break
                if str(e.get("name", "")) != tab[int(nm)] or str(e.get("cat")) != tab[int(ct)]:
                    bad = f"row {i} is {tab[int(ct)]}/{tab[int(nm)]!r}, the file's event {i} is {e.get('cat')}/{str(e.get('name', ''))!r}"
                    break
                fd = e.get("dur")
                if isinstance(fd, int) and not isinstance(fd, bool) and float(du) == int(float(du)) and int(float(du)) != fd:
                    bad = f"row {i} has dur {du}, the file's event {i} has dur {fd}"
                    break
            if bad:
                LOAD_NOTES.append(f"rank {r}: the loaded frame is not that of the rank's file: {bad}")
                return
            # whatever was trimmed: a device activity goes with the host call that launched it (same correlation id)
            loaded = set(int(i) for i in df["index"].tolist())
            dev_of = {}
            for i, e in enumerate(ev):
                a = e.get("args") if isinstance(e, dict) else None
                if isinstance(a, dict) and "dur" in e and isinstance(a.get("stream"), int) and not isinstance(a.get("stream"), bool) and a["stream"] >= 0 \
                        and isinstance(a.get("correlation"), int) and a["correlation"] >= 0 and e.get("cat") in ("kernel", "gpu_memcpy", "gpu_memset"):
                    dev_of.setdefault(a["correlation"], []).append(i)
            for idx, st, co, nm in zip(df["index"].tolist(), df["stream"].tolist(), df["correlation"].tolist(), df["name"].tolist()):
                if int(st) == -1 and int(co) >= 0 and tab[int(nm)] not in ("Event Sync", "Context Sync") and len(dev_of.get(int(co), [])) == 1:
                    k = dev_of[int(co)][0]
                    e = ev[int(idx)] if 0 <= int(idx) < len(ev) else {}
                    if k not in loaded and e.get("cat") in ("cuda_runtime", "cuda_driver"):
                        LOAD_NOTES.append(f"rank {r}: the loaded frame keeps the launch call {int(idx)} (correlation {int(co)}) but not the device activity {k} it launched")
                        return
    except Exception:  # noqa: BLE001
        return


def load(files: Dict[int, str], include_last: bool = False, mp: bool = False, ctor: Optional[str] = None):
    """TraceAnalysis-equivalent load, with control over multiprocessing. `ctor`: "dir" / "list" go through the real
    TraceAnalysis constructor with only the directory, or with a list of file names (the ranks are then discovered from
    the files' metadata); default: a rank -> file dictionary and an explicit load."""
    hta_setup()
    from hta.trace_analysis import TraceAnalysis
    d = os.path.dirname(next(iter(files.values())))
    if ctor == "dir":
        return TraceAnalysis(trace_dir=d, include_last_profiler_step=include_last)
    if ctor == "list":
        names = [os.path.basename(p) if i % 2 == 0 else p for i, p in enumerate(files[r] for r in sorted(files))]
        return TraceAnalysis(trace_files=names, trace_dir=d, include_last_profiler_step=include_last)
    ta = TraceAnalysis.__new__(TraceAnalysis)
    from hta.common.trace import Trace
    ta.t = Trace(trace_files=dict(files), trace_dir=os.path.dirname(next(iter(files.values()))))
    ta.t.load_traces(include_last_profiler_step=include_last, use_multiprocessing=mp)
    return ta


def _i(v: Any) -> int:
    iv = int(v)
    if float(v) != float(iv):
        raise ValueError(f"non-integer value {v!r}")
    return iv


ROW_FIELDS = ["idx", "ts", "dur", "pid", "tid", "stream", "corr", "link", "iter", "name", "cat"]


def rows_of(t, rank: int) -> List[List[Any]]:
    """Rows of the loaded frame as `[idx, ts, dur, pid, tid, stream, corr, link, iter, name, cat]`
    with decoded strings, in frame order."""
    snap = getattr(t, "_verif_rows_snapshot", None)
    if snap is not None and rank in snap:
        return [list(x) for x in snap[rank]]
    df = t.get_trace(rank)
    tab = t.symbol_table.get_sym_table()
    # names and categories as the *file* has them (by position in its event list) where the case is known: what an
    # analysis is judged against is the trace, not the loader's decoding of it (the decoding itself is C01 / C11)
    file_names = (getattr(t, "_verif_file_names", None) or {}).get(rank, {})
    out = []
    cols = df.columns
    has_link = "index_correlation" in cols
    has_iter = "iteration" in cols
    for rec in df.itertuples(index=False):
        i = _i(rec.index)
        nm, ct = file_names.get(i) or (tab[int(rec.name)], tab[int(rec.cat)])
        out.append([
            i, _i(rec.ts), _i(rec.dur), _pid(rec.pid), _pid(rec.tid), _i(rec.stream),
            _i(rec.correlation), _i(rec.index_correlation) if has_link else -1,
            (_i(rec.iteration) if rec.iteration == rec.iteration else -1) if has_iter else -1, nm, ct,
        ])
    return out


def waits_of(t, rank: int) -> List[List[int]]:
    """`[idx, wait_on_stream, wait_on_cuda_event_record_corr_id]` for the rows of the loaded frame that carry either
    (CUDA-event based synchronisation records); every other row has (-1, -1)."""
    df = t.get_trace(rank)
    if "wait_on_stream" not in df.columns or "wait_on_cuda_event_record_corr_id" not in df.columns:
        return []
    out = []
    for rec in df[["index", "wait_on_stream", "wait_on_cuda_event_record_corr_id"]].itertuples(index=False):
        a, b = _i(rec[1]), _i(rec[2])
        if a != -1 or b != -1:
            out.append([_i(rec[0]), a, b])
    return out


def _pid(v: Any) -> int:
    try:
        return _i(v)
    except (ValueError, TypeError):
        # non-numeric pid/tid (e.g. "Spans"): map to a stable negative code
        return -(abs(hash(str(v))) % 1000) - 2
