"""Line-protocol client for the compiled Lean driver `htadrv`."""
from __future__ import annotations

import json
import os
import subprocess
from typing import Any, Dict

LEAN_DIR = os.path.join(os.path.dirname(os.path.dirname(os.path.abspath(__file__))), "lean")
EXE = os.path.join(LEAN_DIR, ".lake", "build", "bin", "htadrv")


class Driver:
    def __init__(self) -> None:
        self.p = subprocess.Popen([EXE], stdin=subprocess.PIPE, stdout=subprocess.PIPE,
                                  text=True, bufsize=1)
        r = self.call({"op": "ping"})
        assert r.get("ok") is True, r

    def call(self, req: Dict[str, Any]) -> Dict[str, Any]:
        assert self.p.stdin and self.p.stdout
        self.p.stdin.write(json.dumps(req, separators=(",", ":")) + "\n")
        self.p.stdin.flush()
        line = self.p.stdout.readline()
        if not line:
            raise RuntimeError(f"driver died (exit {self.p.poll()}) on {str(req)[:300]}")
        return json.loads(line)

    def close(self) -> None:
        try:
            if self.p.stdin:
                self.p.stdin.close()
            self.p.wait(timeout=5)
        except Exception:
            self.p.kill()
