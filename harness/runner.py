"""Check runner: build + proof audit + correspondence + failing-input search + evidence.

  python -m harness.runner <Cxx> quick|thorough
  python -m harness.runner --replay <file>

Exit 0: property held on everything explored.  Exit 1: `VIOLATION property=<id> replay=<path>`.
Exit 2: internal error / timeout of the machinery itself (never reported as a violation).
"""
from __future__ import annotations

import contextlib
import hashlib
import importlib
import json
import os
import random
import re
import subprocess
import sys
import time
import traceback
from typing import Any, Dict, List, Optional, Tuple

ROOT = os.path.dirname(os.path.dirname(os.path.abspath(__file__)))
LEAN = os.path.join(ROOT, "lean")
PY = sys.executable
ACCEPTED_AXIOMS = {"propext", "Classical.choice", "Quot.sound"}
FORBIDDEN = re.compile(r"\bsorry\b|\badmit\b|^\s*axiom\s|native_decide|bv_decide|implemented_by|\bunsafe\s|maxHeartbeats\s+0")


def log(*a: Any) -> None:
    print(*a, flush=True)


# --------------------------------------------------------------------------------------
# Lean side: build and audit
# --------------------------------------------------------------------------------------
def lake_build() -> Tuple[bool, str]:
    env = dict(os.environ)
    p = subprocess.run(["lake", "build", "HtaVerif", "htadrv"], cwd=LEAN, capture_output=True, text=True, env=env)
    out = p.stdout + p.stderr
    return p.returncode == 0, out


def strip_comments(src: str) -> str:
    # remove /- ... -/ (nested) and -- line comments
    out = []
    i, depth = 0, 0
    while i < len(src):
        if src.startswith("/-", i):
            depth += 1
            i += 2
        elif src.startswith("-/", i) and depth > 0:
            depth -= 1
            i += 2
        elif depth > 0:
            if src[i] == "\n":
                out.append("\n")
            i += 1
        elif src.startswith("--", i):
            while i < len(src) and src[i] != "\n":
                i += 1
        else:
            out.append(src[i])
            i += 1
    return "".join(out)


def lean_files() -> List[str]:
    res = []
    for d, _, fs in os.walk(LEAN):
        if ".lake" in d:
            continue
        for f in fs:
            if f.endswith(".lean"):
                res.append(os.path.join(d, f))
    return sorted(res)


def grep_forbidden() -> List[str]:
    hits = []
    for f in lean_files():
        body = strip_comments(open(f).read())
        for n, line in enumerate(body.split("\n"), 1):
            if FORBIDDEN.search(line):
                hits.append(f"{os.path.relpath(f, ROOT)}:{n}: {line.strip()}")
    return hits


def theorem_names(prop: str) -> List[str]:
    """Property theorems = every `theorem` declared in Props/<prop>.lean (fully qualified)."""
    path = os.path.join(LEAN, "HtaVerif", "Props", f"{prop}.lean")
    body = strip_comments(open(path).read())
    ns: List[str] = []
    names = []
    for line in body.split("\n"):
        m = re.match(r"\s*namespace\s+(\S+)", line)
        if m:
            ns.append(m.group(1))
            continue
        m = re.match(r"\s*end\s+(\S+)", line)
        if m and ns and ns[-1] == m.group(1):
            ns.pop()
            continue
        m = re.match(r"\s*(?:private\s+|protected\s+)?theorem\s+(\S+)", line)
        if m:
            names.append(".".join(ns + [m.group(1)]))
    return names


def audit(prop: str) -> Dict[str, Any]:
    names = theorem_names(prop)
    src = f"import HtaVerif.Props.{prop}\n" + "".join(f"#print axioms {n}\n" for n in names)
    tmp = os.path.join(LEAN, ".lake", f"audit_{prop}_{os.getpid()}.lean")
    with open(tmp, "w") as fh:
        fh.write(src)
    try:
        p = subprocess.run(["lake", "env", "lean", tmp], cwd=LEAN, capture_output=True, text=True)
    finally:
        os.unlink(tmp)
    out = p.stdout + p.stderr
    per: Dict[str, List[str]] = {}
    # output: "'Name' depends on axioms: [a, b]" or "'Name' does not depend on any axioms"
    for m in re.finditer(r"'([^']+)' depends on axioms: \[([^\]]*)\]", out, re.S):
        per[m.group(1)] = [a.strip() for a in m.group(2).replace("\n", " ").split(",") if a.strip()]
    for m in re.finditer(r"'([^']+)' does not depend on any axioms", out):
        per[m.group(1)] = []
    bad = {n: ax for n, ax in per.items() if not set(ax) <= ACCEPTED_AXIOMS}
    missing = [n for n in names if n not in per]
    return {"theorems": names, "axioms": per, "bad": bad, "missing": missing,
            "ok": p.returncode == 0 and not bad and not missing and len(names) > 0, "raw": out[-2000:]}


def leanchecker(prop: str) -> Tuple[bool, str]:
    p = subprocess.run(["lake", "env", "leanchecker", f"HtaVerif.Props.{prop}"], cwd=LEAN,
                       capture_output=True, text=True)
    return p.returncode == 0, (p.stdout + p.stderr)[-1500:]


# --------------------------------------------------------------------------------------
# Known findings
# --------------------------------------------------------------------------------------
def load_findings() -> Dict[str, List[Dict[str, str]]]:
    res: Dict[str, List[Dict[str, str]]] = {}
    path = os.path.join(ROOT, "known_findings.txt")
    if not os.path.exists(path):
        return res
    for line in open(path):
        line = line.strip()
        m = re.match(r"finding:\s+property=(\S+)\s+key=(\S+)\s+(.*)", line)
        if m:
            res.setdefault(m.group(1), []).append({"key": m.group(2), "what": m.group(3)})
    return res


# --------------------------------------------------------------------------------------
# Worker: run a slice of the cases
# --------------------------------------------------------------------------------------
def case_rng(seed: int, prop: str, no: int) -> random.Random:
    h = hashlib.sha256(f"{seed}:{prop}:{no}".encode()).digest()
    return random.Random(int.from_bytes(h[:8], "big"))


def digest(obj: Any) -> str:
    return hashlib.sha256(json.dumps(obj, sort_keys=True, default=str).encode()).hexdigest()[:16]


def norm_case(case: Any) -> Any:
    """JSON turns the rank keys into strings; the adapters use ints."""
    if isinstance(case, dict) and isinstance(case.get("ranks"), dict):
        case["ranks"] = {int(k): v for k, v in case["ranks"].items()}
    return case


def run_one(mod: Any, drv: Any, case: Dict[str, Any]) -> Dict[str, Any]:
    """Evaluate one case: impl, model, comparison, Lean spec check on impl output, Python oracle."""
    case = norm_case(case)
    res: Dict[str, Any] = {"status": "ok", "diffs": [], "violations": []}
    if hasattr(mod, "wf") and not case.get("_name") and not mod.wf(case):
        # the generator is meant to stay inside the property's quantifier; if it ever does not, the case is skipped
        # (and counted), never judged
        res.update({"status": "skipped", "features": {"generator_outside_quantifier": 1}, "nontrivial": False})
        return res
    from harness import htaio as _htaio
    del _htaio.LOAD_NOTES[:]
    obs = mod.observe(case)
    load_notes = list(_htaio.LOAD_NOTES)
    res["obs_digest"] = digest([obs.get("canon"), obs.get("rows"), obs.get("key")])
    if hasattr(mod, "in_domain") and not mod.in_domain(case, obs):
        # outside the property's quantifier (judged on what was actually loaded): not counted
        res["status"] = "skipped"
        res["features"] = {}
        res["nontrivial"] = False
        return res
    model_out = mod.model(drv, case, obs)
    diffs = mod.compare(obs, model_out)
    if diffs:
        res["status"] = "disagree"
        res["diffs"] = diffs[:10]
    viol: List[str] = []
    if hasattr(mod, "spec_check"):
        viol += [f"lean-spec: {v}" for v in mod.spec_check(drv, case, obs)]
    if hasattr(mod, "oracle"):
        viol += [f"oracle: {v}" for v in mod.oracle(case, obs)]
    viol += [f"oracle: {v}" for v in load_notes]
    if viol:
        res["status"] = "violation"
        res["violations"] = viol[:10]
    res["features"] = mod.features(case, obs) if hasattr(mod, "features") else {}
    if isinstance(case, dict) and case.get("pre"):
        res["features"]["history_other_analyses_first"] = 1
    if isinstance(case, dict) and isinstance(case.get("ranks"), dict) and len(case["ranks"]) >= 9:
        res["features"]["nine_or_more_ranks"] = 1
    res["nontrivial"] = bool(mod.nontrivial(case, obs, res["features"])) if hasattr(mod, "nontrivial") else True
    if hasattr(mod, "sample"):
        res["sample"] = mod.sample(case, obs)
    return res


class CaseTimeout(BaseException):
    """Raised by the per-case alarm; a BaseException so that `except Exception` blocks of the code under test and of
    the adapters do not swallow it."""


def _alarm(signum, frame):
    raise CaseTimeout()


def worker(prop: str, tier: str, idx: int, nworkers: int, seed: int, ncases: int, outpath: str,
           wide: bool = False) -> None:
    from harness import leandrv
    import signal
    signal.signal(signal.SIGALRM, _alarm)
    case_limit = int(os.environ.get("VERIF_CASE_TIMEOUT_S", "120"))
    mod = importlib.import_module(f"harness.props.{prop.lower()}")
    drv = leandrv.Driver()
    results = []
    t0 = time.time()
    budget = float(os.environ.get("VERIF_WORKER_BUDGET_S", "1e9"))
    corpus = mod.corpus_cases() if (idx == 0 and hasattr(mod, "corpus_cases")) else []
    todo: List[Tuple[str, Any]] = [("corpus", c) for c in corpus]
    todo += [("gen", no) for no in range(idx, ncases, nworkers)]
    for kind, item in todo:
        if time.time() - t0 > budget:
            break
        try:
            if kind == "corpus":
                case = item
                no = case.get("_name", "corpus")
            else:
                no = item
                rng = case_rng(seed, prop, no)
                case = mod.gen(rng, tier, no, wide=wide) if wide else mod.gen(rng, tier, no)
                # history: in a quarter of the cases other public analyses run on the same TraceAnalysis object before
                # the observed call (a result must not depend on what was asked before); drawn from a separate stream so
                # that the generated traces themselves do not change
                rng2 = case_rng(seed, prop + ":history", no)
                if isinstance(case, dict) and "pre" not in case and rng2.random() < 0.3:
                    from harness.props import common as _C
                    case["pre"] = rng2.sample(_C.PRE_CALLS, rng2.randint(1, 4))
                # how the TraceAnalysis object comes to be: mostly from a rank -> file dictionary; sometimes through the
                # constructor with the directory only, or with a list of file names (ranks discovered from the metadata)
                if isinstance(case, dict) and "ctor" not in case:
                    case["ctor"] = rng2.choice([None] * 6 + ["dir", "list"])
            signal.alarm(case_limit)
            try:
                r = run_one(mod, drv, case)
            finally:
                signal.alarm(0)
            r["no"] = no
            if r["status"] != "ok":
                r["case"] = case
                r["pythonhashseed"] = os.environ.get("PYTHONHASHSEED")
            results.append(r)
        except CaseTimeout:
            # the implementation (or, far less likely, the model) did not come back: the correspondence is broken on
            # this input; the failing-input search decides what to report
            with contextlib.suppress(Exception):
                drv.close()
            drv = leandrv.Driver()
            results.append({"no": no, "status": "disagree", "case": case, "features": {}, "nontrivial": False,
                            "diffs": [f"no answer within {case_limit} s on this input (implementation does not terminate, or is far slower than on every other input)"]})
        except Exception as e:  # harness error: reported, never a violation
            results.append({"no": item if kind == "gen" else "corpus", "status": "error",
                            "error": f"{type(e).__name__}: {e}", "tb": traceback.format_exc()[-3000:]})
    drv.close()
    with open(outpath, "w") as fh:
        json.dump(results, fh, default=str)


def run_cases(prop: str, tier: str, seed: int, ncases: int, nworkers: int, wide: bool = False) -> List[Dict[str, Any]]:
    import tempfile
    d = tempfile.mkdtemp(prefix="htaverif-res-", dir=os.environ.get("HTA_VERIF_SCRATCH", "/var/tmp"))
    procs = []
    for i in range(nworkers):
        out = os.path.join(d, f"w{i}.json")
        cmd = [PY, "-m", "harness.runner", "--worker", prop, tier, str(i), str(nworkers), str(seed),
               str(ncases), out, "1" if wide else "0"]
        # every worker runs under its own PYTHONHASHSEED: symbol ids (set iteration order in the parser) then differ from
        # worker to worker, and no result may depend on them (C11)
        env = dict(os.environ, PYTHONHASHSEED=str((seed * 131 + i * 17 + 1) % 4000000))
        procs.append((subprocess.Popen(cmd, cwd=ROOT, env=env), out))
    results: List[Dict[str, Any]] = []
    for p, out in procs:
        rc = p.wait()
        if rc != 0 or not os.path.exists(out):
            results.append({"no": -1, "status": "error", "error": f"worker exit {rc}"})
            continue
        for r in json.load(open(out)):
            if "case" in r:
                norm_case(r["case"])
            results.append(r)
    import shutil
    shutil.rmtree(d, ignore_errors=True)
    return results


# --------------------------------------------------------------------------------------
# Shrinking
# --------------------------------------------------------------------------------------
def shrink(mod: Any, drv: Any, case: Dict[str, Any], still_fails) -> Dict[str, Any]:
    """Greedy delta debugging over the events of each rank (then over ranks)."""
    import copy
    best = copy.deepcopy(case)
    deadline = time.time() + float(os.environ.get("VERIF_SHRINK_S", "60"))
    # drop whole ranks
    for r in list(best["ranks"].keys()):
        if len(best["ranks"]) <= 1 or time.time() > deadline:
            break
        cand = copy.deepcopy(best)
        del cand["ranks"][r]
        cand["ranks"] = {i: v for i, (_, v) in enumerate(sorted(cand["ranks"].items(), key=lambda kv: int(kv[0])))}
        if still_fails(cand):
            best = cand
    for r in list(best["ranks"].keys()):
        chunk = max(1, len(best["ranks"][r]) // 2)
        while chunk >= 1 and time.time() < deadline:
            i = 0
            changed = False
            while i < len(best["ranks"][r]) and time.time() < deadline:
                cand = copy.deepcopy(best)
                del cand["ranks"][r][i:i + chunk]
                if cand["ranks"][r] and still_fails(cand):
                    best = cand
                    changed = True
                else:
                    i += chunk
            if not changed or chunk > 1:
                chunk //= 2
    return best


# --------------------------------------------------------------------------------------
# Main check
# --------------------------------------------------------------------------------------
def write_json(path: str, obj: Any) -> None:
    os.makedirs(os.path.dirname(path), exist_ok=True)
    with open(path, "w") as fh:
        json.dump(obj, fh, indent=1, default=str)


def main_check(prop: str, tier: str) -> int:
    t0 = time.time()
    seed = int(os.environ.get("VERIF_SEED", "0") or 0)
    mod = importlib.import_module(f"harness.props.{prop.lower()}")
    findings = load_findings().get(prop, [])
    # meta-runs against scratch trees (seeded regressions, reverted fixes) redirect their output so that the
    # evidence under /verif/evidence always comes from a run against /repo itself
    evidence_path = os.path.join(os.environ.get("VERIF_EVIDENCE_DIR") or os.path.join(ROOT, "evidence"), f"{prop}.json")
    replay_dir = os.environ.get("VERIF_REPLAY_DIR") or os.path.join(ROOT, "replays")
    proof_broken: List[str] = []

    ok, out = lake_build()
    if not ok:
        proof_broken.append("lake build failed: " + out[-1500:])
        log("[build] FAILED\n" + out[-3000:])
    hits = grep_forbidden()
    if hits:
        proof_broken.append("forbidden tokens: " + "; ".join(hits[:5]))
    aud: Dict[str, Any] = {"theorems": [], "axioms": {}, "ok": False}
    if ok:
        aud = audit(prop)
        if not aud["ok"]:
            proof_broken.append(f"axiom audit failed: bad={aud.get('bad')} missing={aud.get('missing')} {aud.get('raw', '')[-500:]}")
    chk_ok, chk_out = True, ""
    if ok and tier == "thorough":
        chk_ok, chk_out = leanchecker(prop)
        if not chk_ok:
            proof_broken.append("leanchecker failed: " + chk_out)
    log(f"[proof] theorems={len(aud['theorems'])} audit_ok={aud['ok']} forbidden={len(hits)} build_ok={ok}"
        + (f" leanchecker_ok={chk_ok}" if tier == "thorough" else ""))

    if not ok:
        # without the driver there is no correspondence; report the broken obligation
        rp = os.path.join(replay_dir, f"{prop}-proof-broken.json")
        write_json(rp, {"property": prop, "broken": proof_broken, "kind": "proof-obligation"})
        log(f"VIOLATION property={prop} replay={rp} no-failing-input-found")
        return 1

    ncases = mod.N_CASES[tier]
    nworkers = int(os.environ.get("VERIF_WORKERS", "0") or 0) or (mod.WORKERS[tier] if hasattr(mod, "WORKERS") else (6 if tier == "quick" else 16))
    results = run_cases(prop, tier, seed, ncases, nworkers)
    errors = [r for r in results if r["status"] == "error"]
    disagree = [r for r in results if r["status"] == "disagree"]
    viol = [r for r in results if r["status"] == "violation"]
    good = [r for r in results if r["status"] in ("ok", "disagree", "violation")]
    skipped = [r for r in results if r["status"] == "skipped"]

    # inputs of a listed known finding: the implementation is known to misbehave there, so a disagreement with the
    # model on such an input says nothing new (a violation on it is classified below)
    from harness import findings as fmod0
    known_disagree = [r for r in disagree if fmod0.classify(prop, r.get("case"), r.get("diffs", []), findings) is not None]
    disagree = [r for r in disagree if r not in known_disagree]

    searched = 0
    if (disagree or proof_broken) and not viol:
        # the tie between model and code broke: look for an input on which the property fails
        log(f"[search] correspondence/proof broke ({len(disagree)} disagreeing inputs); widening search")
        wide_n = mod.N_CASES["thorough"] if tier == "quick" else 2 * mod.N_CASES["thorough"]
        wres = run_cases(prop, "thorough", seed + 7919, wide_n, 16, wide=hasattr(mod, "WIDE"))
        searched = len(wres)
        viol = [r for r in wres if r["status"] == "violation"]
        errors += [r for r in wres if r["status"] == "error"]

    # classify violations against the known findings
    from harness import findings as fmod
    from harness import leandrv
    unknown = []
    known_lines = []
    drv = None
    for r in viol:
        key = fmod.classify(prop, r.get("case"), r.get("violations", []), findings)
        if key is not None:
            known_lines.append((key, r))
        else:
            unknown.append(r)
    for f in findings:
        hit = [r for k, r in known_lines if k == f["key"]]
        # replayed corpus witnesses of known findings are reported every run
        log(f"KNOWN-FINDING: property={prop} key={f['key']} {f['what']} (seen on {len(hit)} inputs this run)")

    status = 0
    replay_path = None
    if unknown:
        r = unknown[0]
        case = r["case"]
        try:
            drv = leandrv.Driver()

            def msg_class(vs: List[str]) -> str:
                return re.sub(r"-?\d+(\.\d+)?", "N", (vs or [""])[0])[:60]
            want_class = msg_class(r.get("violations", []))

            def still(c: Dict[str, Any]) -> bool:
                # the minimised input must fail in the same way (same leading message up to numbers): a shrink step
                # must not slide into a different, possibly out-of-domain, failure
                import signal
                try:
                    if hasattr(mod, "wf") and not mod.wf(c):
                        return False
                    signal.signal(signal.SIGALRM, _alarm)
                    signal.alarm(int(os.environ.get("VERIF_CASE_TIMEOUT_S", "120")))
                    try:
                        rr = run_one(mod, drv, c)
                    finally:
                        signal.alarm(0)
                    return (rr["status"] == "violation" and msg_class(rr["violations"]) == want_class
                            and fmod.classify(prop, c, rr["violations"], findings) is None)
                except (Exception, CaseTimeout):
                    return False
            small = shrink(mod, drv, case, still) if getattr(mod, "SHRINK", False) else case
            rr = run_one(mod, drv, small)
            if rr["status"] != "violation":
                small, rr = case, r
        except Exception:
            small, rr = case, r
        finally:
            if drv is not None:
                drv.close()
        replay_path = os.path.join(replay_dir, f"{prop}-{digest(small)}.json")
        write_json(replay_path, {"property": prop, "kind": "failing-input", "pythonhashseed": r.get("pythonhashseed"), "violations": rr.get("violations"),
                                 "diffs": rr.get("diffs"), "case": small, "seed": seed, "tier": tier})
        log(f"VIOLATION property={prop} replay={replay_path}")
        status = 1
    elif disagree or proof_broken:
        replay_path = os.path.join(replay_dir, f"{prop}-unproved-{digest([proof_broken, [d.get('diffs') for d in disagree[:3]]])}.json")
        write_json(replay_path, {
            "property": prop, "kind": "no-failing-input-found",
            "broken_obligations": proof_broken,
            "correspondence": f"harness.props.{prop.lower()} (model op vs implementation)",
            "first_disagreements": [{"no": d["no"], "diffs": d.get("diffs"), "case": d.get("case")} for d in disagree[:3]],
            "searched_inputs": searched, "seed": seed, "tier": tier})
        log(f"VIOLATION property={prop} replay={replay_path} no-failing-input-found")
        status = 1
    if errors and status == 0:
        frac = len(errors) / max(1, len(results))
        log(f"[harness] {len(errors)} internal errors, first: {errors[0].get('error')}\n{errors[0].get('tb', '')}")
        if frac > 0.02:
            status = 2

    # evidence
    feats: Dict[str, int] = {}
    distinct = set()
    for r in good:
        for k, v in (r.get("features") or {}).items():
            if isinstance(v, (int, float)) and v:
                feats[k] = feats.get(k, 0) + 1
        if r.get("nontrivial"):
            distinct.add(r.get("obs_digest"))
    samples = [r["sample"] for r in good if r.get("sample") is not None][:3]
    ev = {
        "property_id": prop, "tier": tier, "seed": seed, "level": "proof",
        "coverage": {
            "obligations": len(aud["theorems"]),
            "discharged": sum(1 for n in aud["theorems"] if n in aud.get("axioms", {}) and set(aud["axioms"][n]) <= ACCEPTED_AXIOMS) if not hits else 0,
            "checker_cmd": f"cd lean && lake build && lake env lean <#print axioms of every theorem in HtaVerif/Props/{prop}.lean>" + ("; lake env leanchecker HtaVerif.Props." + prop if tier == "thorough" else ""),
            "trusted_base": ["Lean 4.33.0 kernel", "axioms: " + ", ".join(sorted({a for ax in aud.get("axioms", {}).values() for a in ax})),
                             "Lean compiler/runtime for the driver htadrv", "correspondence harness (generator, adapters, canonicalisation)",
                             "CPython 3.12, pandas 3.0.6, numpy 2.5.3, networkx 3.6.1 (modelled, not verified)"] + list(getattr(mod, "TRUSTED", [])),
            "theorems": aud.get("axioms", {}),
            "evaluations": len(good) + searched,
            "distinct_nontrivial": len(distinct),
            "rule": getattr(mod, "RULE", "generated by harness/gen.py; non-trivial = has a tie/touch/zero-length/missing-partner feature; distinct by digest of the implementation's canonical output"),
            "feature_histogram_cases": feats,
            "samples": samples or ["(none)"],
            "disagreements_checked": len(disagree),
            "traces_validated_against_impl": len(good),
            "known_findings_seen": sorted({k for k, _ in known_lines}),
            "harness_errors": len(errors),
            "outside_quantifier_skipped": len(skipped),
            "exhaustive": False,
        },
        "assumptions": list(getattr(mod, "ASSUMPTIONS", [])),
        "wall_s": round(time.time() - t0, 2),
        "violations": 0 if status == 0 else 1,
    }
    write_json(evidence_path, ev)
    log(f"[done] {prop} {tier} seed={seed} cases={len(good)} nontrivial_distinct={len(distinct)} disagree={len(disagree)} "
        f"violations={len(viol)} known={len(known_lines)} errors={len(errors)} wall={ev['wall_s']}s exit={status}")
    return status


def main_replay(path: str) -> int:
    from harness import leandrv
    rp = json.load(open(path))
    prop = rp["property"]
    hs = rp.get("pythonhashseed")
    if hs is not None and os.environ.get("PYTHONHASHSEED") != str(hs):
        # the failing run had this hash seed (it fixes the numbering of the symbol ids): replay under the same one
        os.execve(PY, [PY, "-m", "harness.runner", "--replay", path], dict(os.environ, PYTHONHASHSEED=str(hs)))
    if rp.get("kind") != "failing-input":
        log(json.dumps(rp, indent=1)[:4000])
        return 1
    mod = importlib.import_module(f"harness.props.{prop.lower()}")
    drv = leandrv.Driver()
    r = run_one(mod, drv, rp["case"])
    drv.close()
    log(json.dumps({k: r[k] for k in ("status", "diffs", "violations")}, indent=1))
    if r["status"] == "violation":
        log(f"VIOLATION property={prop} replay={path}")
        return 1
    return 0


if __name__ == "__main__":
    a = sys.argv[1:]
    if a and a[0] == "--worker":
        worker(a[1], a[2], int(a[3]), int(a[4]), int(a[5]), int(a[6]), a[7], a[8] == "1")
        sys.exit(0)
    if a and a[0] == "--replay":
        sys.exit(main_replay(a[1]))
    if len(a) != 2 or a[1] not in ("quick", "thorough"):
        print(__doc__)
        sys.exit(2)
    try:
        sys.exit(main_check(a[0], a[1]))
    except Exception:
        traceback.print_exc()
        sys.exit(2)
