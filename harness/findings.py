"""Known findings: each key of known_findings.txt maps to a decidable predicate on the
(minimised) failing input and its violation messages. A violation is suppressed only if a
listed finding's predicate accepts it; `fixed:` lines suppress nothing."""
from __future__ import annotations

from typing import Any, Callable, Dict, List, Optional

PREDICATES: Dict[str, Callable[[Dict[str, Any], List[str]], bool]] = {}


def predicate(key: str):
    def deco(f):
        PREDICATES[key] = f
        return f
    return deco


def classify(prop: str, case: Optional[Dict[str, Any]], violations: List[str],
             findings: List[Dict[str, str]]) -> Optional[str]:
    if case is None:
        return None
    for f in findings:
        p = PREDICATES.get(f["key"])
        if p is not None:
            try:
                if p(case, violations):
                    return f["key"]
            except Exception:
                pass
    return None


DEVICE_CATS = {"kernel", "gpu_memcpy", "gpu_memset", "cuda_sync"}


@predicate("host-tid-1-or-2")
def host_tid_1_or_2(case: Dict[str, Any], violations: List[str]) -> bool:
    """The trace has a host thread whose thread id is 1 or 2: the call-graph's per-thread root index -abs(tid)
    then coincides with its sentinels NULL_NODE_INDEX (-1) / NON_EXISTENT_NODE_INDEX (-2)."""
    # what the finding is about: heights, kernel aggregates and depths *below* the thread's top level. A top-level event
    # of such a thread still has depth 0 on the recorded tree; a violation of that clause is not this finding.
    if any("top-level event" in v for v in violations):
        return False
    for key in ("ranks", "test_ranks"):
        for ev in (case.get(key) or {}).values():
            for e in ev:
                if e.get("ph") == "X" and "dur" in e and e.get("cat") not in DEVICE_CATS and "stream" not in (e.get("args") or {}) \
                        and e.get("tid") in (1, 2):
                    return True
    return False
