"""Known findings: each key of known_findings.txt maps to a decidable predicate on the
(minimised) failing input and its violation messages. A violation is suppressed only if a
listed finding's predicate accepts it; `fixed:` lines suppress nothing."""
from __future__ import annotations

from typing import Any, Callable, Dict, List, Optional

PREDICATES: Dict[str, Callable[[Dict[str, Any], List[str]], bool]] = {}


def predicate(key: str):
    def deco(f):
        PREDICATES[key] = f
        return f
    return deco


def classify(prop: str, case: Optional[Dict[str, Any]], violations: List[str],
             findings: List[Dict[str, str]]) -> Optional[str]:
    if case is None:
        return None
    for f in findings:
        p = PREDICATES.get(f["key"])
        if p is not None:
            try:
                if p(case, violations):
                    return f["key"]
            except Exception:
                pass
    return None
